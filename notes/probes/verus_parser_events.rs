use vstd::prelude::*;
verus! {

#[derive(PartialEq, Eq, Clone, Copy)]
pub enum Kind { TombStone, File, Expr }

pub enum Event {
    Open { kind: Kind, forward_parent: Option<usize> },
    Close,
    Advance,
    Error(String),
}

pub open spec fn is_open(e: Event) -> bool { e is Open }

// prelude helper standing for mem::replace(&mut v[i], x)
#[verifier::external_body]
fn vec_replace(v: &mut Vec<Event>, i: usize, x: Event) -> (old_e: Event)
    requires i < old(v).len(),
    ensures final(v).len() == old(v).len(),
            old_e == old(v)[i as int],
            final(v)@ == old(v)@.update(i as int, x),
{
    core::mem::replace(&mut v[i], x)
}

pub struct Parser {
    pub events: Vec<Event>,
    pub fuel: u32,
}

#[derive(Clone, Copy)]
pub struct MarkerOpened { pub index: usize }
#[derive(Clone, Copy)]
pub struct MarkerClosed { pub index: usize }

impl Parser {
    pub open spec fn wf(&self) -> bool { true }

    pub fn open(&mut self) -> (m: MarkerOpened)
        ensures m.index == old(self).events.len(),
                final(self).events@ == old(self).events@.push(Event::Open{kind: Kind::TombStone, forward_parent: None}),
    {
        let pos = self.events.len();
        self.events.push(Event::Open { kind: Kind::TombStone, forward_parent: None });
        MarkerOpened { index: pos }
    }

    pub fn close(&mut self, m: MarkerOpened, kind: Kind) -> (c: MarkerClosed)
        requires m.index < old(self).events.len(),
        ensures c.index == m.index, final(self).events.len() == old(self).events.len() + 1,
    {
        self.events.set(m.index, Event::Open { kind, forward_parent: None });
        self.events.push(Event::Close);
        MarkerClosed { index: m.index }
    }
}

impl MarkerClosed {
    pub fn precede(self, p: &mut Parser) -> (m: MarkerOpened)
        requires self.index < old(p).events.len(), old(p).events[self.index as int] is Open,
    {
        let m = p.open();
        let old_e = vec_replace(&mut p.events, self.index, Event::Close);
        match old_e {
            Event::Open { kind, forward_parent: _ } => {
                p.events.set(self.index, Event::Open { kind, forward_parent: Some(m.index - self.index) });
            }
            _ => { assert(false); }
        }
        m
    }
}

} // verus!
fn main() {}
