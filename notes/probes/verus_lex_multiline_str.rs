use vstd::prelude::*;
verus! {

pub struct Tok { pub kind: u8 }

pub open spec fn is_trivia(k: u8) -> bool { k == 1 || k == 2 }

fn is_trivia_exec(k: u8) -> (r: bool) ensures r == is_trivia(k) { k == 1 || k == 2 }

// mirrors lex_multiline_str body on a byte slice
fn lex_multiline_str(bytes: &[u8]) -> (r: Option<usize>)
    ensures
        match r { Some(c) => c <= bytes.len() && (c == bytes.len() || bytes@[c as int] == 10u8), None => true },
{
    let mut consumed = 0usize;
    while consumed < bytes.len() && bytes[consumed] != b'\n'
        invariant consumed <= bytes.len(),
        decreases bytes.len() - consumed,
    {
        consumed += 1;
    }

    if consumed >= bytes.len() {
        return None;
    }

    consumed += 1;
    let mut lines = 1usize;

    loop
        invariant_except_break
            consumed <= bytes.len(),
            1 <= lines <= consumed,
            consumed >= 1,
            bytes@[consumed - 1] == 10u8,
        ensures
            consumed <= bytes.len(),
            consumed == bytes.len() || bytes@[consumed as int] == 10u8,
        decreases bytes.len() - consumed,
    {
        let line_start = consumed;
        if line_start >= bytes.len() {
            break;
        }

        let mut idx = line_start;
        while idx < bytes.len() && (bytes[idx] == b' ' || bytes[idx] == b'\t')
            invariant line_start <= idx <= bytes.len(),
            decreases bytes.len() - idx,
        {
            idx += 1;
        }

        if idx + 1 >= bytes.len() || bytes[idx] != b'\\' || bytes[idx + 1] != b'\\' {
            if lines >= 2 {
                consumed = line_start.saturating_sub(1);
                break;
            }
            return None;
        }

        idx += 2;
        while idx < bytes.len() && bytes[idx] != b'\n'
            invariant line_start + 2 <= idx <= bytes.len(),
            decreases bytes.len() - idx,
        {
            idx += 1;
        }

        lines += 1;
        if idx >= bytes.len() {
            consumed = idx;
            break;
        }

        consumed = idx + 1;
    }

    if lines < 2 {
        return None;
    }
    Some(consumed)
}

} // verus!
fn main() {}
