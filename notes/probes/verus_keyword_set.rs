use vstd::prelude::*;
use vstd::string::*;
verus! {

#[verifier::external_body]
fn str_eq(a: &str, b: &str) -> (r: bool) ensures r == (a@ == b@) { a == b }

pub open spec fn go_keywords() -> Set<Seq<char>> {
    set!["break"@, "default"@, "func"@]
}

fn is_go_keyword(s: &str) -> (r: bool)
    ensures r == go_keywords().contains(s@)
{
    str_eq(s, "break") || str_eq(s, "default") || str_eq(s, "func")
}

// a goml-escaped name is never a keyword
proof fn goml_prefix_not_keyword(s: Seq<char>)
    requires s.len() >= 6, s[0] == '_'
    ensures !go_keywords().contains(s)
{
    reveal_strlit("break"); reveal_strlit("default"); reveal_strlit("func");
}

} // verus!
fn main() {}
