use vstd::prelude::*;
use vstd::string::*;
verus! {

#[verifier::external_body]
fn str_chars(s: &str) -> (v: Vec<char>)
    ensures v@ == s@
{ s.chars().collect() }

pub open spec fn ident_char(c: char) -> bool {
    ('a' <= c && c <= 'z') || ('A' <= c && c <= 'Z') || ('0' <= c && c <= '9') || c == '_'
}

#[verifier::external_body]
fn is_ascii_alphanumeric(c: char) -> (r: bool)
    ensures r == (('a' <= c && c <= 'z') || ('A' <= c && c <= 'Z') || ('0' <= c && c <= '9'))
{ c.is_ascii_alphanumeric() }

fn go_ident_escape(name: &str) -> (out: String)
    ensures forall|i: int| 0 <= i < out@.len() ==> ident_char(#[trigger] out@[i]),
            out@.len() >= 6,
{
    let mut out = String::from_str("_goml_");
    proof { reveal_strlit("_goml_"); }
    let cs = str_chars(name);
    let mut i: usize = 0;
    while i < cs.len()
        invariant
            0 <= i <= cs.len(),
            out@.len() >= 6,
            forall|j: int| 0 <= j < out@.len() ==> ident_char(#[trigger] out@[j]),
        decreases cs.len() - i,
    {
        let ch = cs[i];
        i += 1;
        if is_ascii_alphanumeric(ch) {
            out.push(ch);
            continue;
        }
        if ch == '#' {
            out.push('_');
            continue;
        }
        if ch == '_' {
            out.push('_');
            continue;
        }
        proof { reveal_strlit("_x"); }
        out.push_str("_x");
        out.push('_');
    }
    out
}

} // verus!
fn main() {}
