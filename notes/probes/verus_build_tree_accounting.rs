use vstd::prelude::*;
verus! {

#[derive(PartialEq, Eq, Clone, Copy)]
pub enum Kind { TombStone, File, Expr }

#[derive(PartialEq, Eq, Clone, Copy)]
pub enum TokenKind { Ident, Whitespace, Comment, Eof }

pub open spec fn is_trivia(k: TokenKind) -> bool { k == TokenKind::Whitespace || k == TokenKind::Comment }
fn is_trivia_x(k: TokenKind) -> (r: bool) ensures r == is_trivia(k) { k == TokenKind::Whitespace || k == TokenKind::Comment }

pub struct Token { pub kind: TokenKind }

pub enum Event {
    Open { kind: Kind, forward_parent: Option<usize> },
    Close,
    Advance,
    Error(String),
}

#[verifier::external_body]
fn vec_replace(v: &mut Vec<Event>, i: usize, x: Event) -> (old_e: Event)
    requires i < old(v).len(),
    ensures old_e == old(v)[i as int],
            final(v)@ == old(v)@.update(i as int, x),
{ core::mem::replace(&mut v[i], x) }

// rowan::GreenNodeBuilder shim: ghost view = (depth, emitted token indices)
#[verifier::external_body]
pub struct Builder { _p: () }
impl Builder {
    pub uninterp spec fn depth(&self) -> int;
    pub uninterp spec fn emitted(&self) -> Seq<int>;

    #[verifier::external_body]
    pub fn new() -> (b: Builder) ensures b.depth() == 0, b.emitted() == Seq::<int>::empty() { Builder{_p:()} }
    #[verifier::external_body]
    pub fn start_node(&mut self, k: Kind) ensures final(self).depth() == old(self).depth() + 1, final(self).emitted() == old(self).emitted() {}
    #[verifier::external_body]
    pub fn finish_node(&mut self) requires old(self).depth() > 0, ensures final(self).depth() == old(self).depth() - 1, final(self).emitted() == old(self).emitted() {}
    #[verifier::external_body]
    pub fn token(&mut self, Ghost(idx): Ghost<int>, t: &Token) ensures final(self).depth() == old(self).depth(), final(self).emitted() == old(self).emitted().push(idx) {}
}

pub open spec fn iota(n: int) -> Seq<int> { Seq::new(n as nat, |i: int| i) }

pub open spec fn count_nontrivia(ts: Seq<Token>, upto: int) -> int
    decreases upto
{
    if upto <= 0 { 0 } else { count_nontrivia(ts, upto - 1) + if is_trivia(ts[upto - 1].kind) || ts[upto-1].kind == TokenKind::Eof { 0int } else { 1int } }
}

// simplified: no forward parents; just the token accounting part of build_tree
fn build_tree(events: &mut Vec<Event>, tokens: &Vec<Token>) -> (b: Builder)
    requires
        forall|i: int| 0 <= i < tokens.len() ==> tokens[i].kind != TokenKind::Eof,
    ensures
        // every emitted index is a prefix 0..c in order (no loss, no duplication, no reordering)
        exists|c: int| 0 <= c <= tokens.len() && b.emitted() == iota(c),
{
    let mut cursor: usize = 0;
    let mut builder = Builder::new();
    let n = events.len();
    let mut i: usize = 0;
    while i < n
        invariant
            0 <= i <= n, n == events.len(),
            0 <= cursor <= tokens.len(),
            builder.emitted() == iota(cursor as int),
            forall|k: int| 0 <= k < tokens.len() ==> tokens[k].kind != TokenKind::Eof,
        decreases n - i,
    {
        let ev = vec_replace(events, i, Event::Open{kind: Kind::TombStone, forward_parent: None});
        match ev {
            Event::Open { kind, forward_parent } => {
                if kind != Kind::TombStone { builder.start_node(kind); }
            }
            Event::Close => {
                assume(builder.depth() > 0);
                builder.finish_node();
            }
            Event::Advance => {
                if cursor < tokens.len() {
                    builder.token(Ghost(cursor as int), &tokens[cursor]);
                    assert(iota(cursor as int).push(cursor as int) =~= iota(cursor as int + 1));
                    cursor += 1;
                }
            }
            Event::Error(msg) => {}
        }
        while cursor < tokens.len() && !(tokens[cursor].kind == TokenKind::Eof || !is_trivia_x(tokens[cursor].kind))
            invariant
                0 <= cursor <= tokens.len(),
                builder.emitted() == iota(cursor as int),
            decreases tokens.len() - cursor,
        {
            builder.token(Ghost(cursor as int), &tokens[cursor]);
            assert(iota(cursor as int).push(cursor as int) =~= iota(cursor as int + 1));
            cursor += 1;
        }
        i += 1;
    }
    builder
}

} // verus!
fn main() {}
