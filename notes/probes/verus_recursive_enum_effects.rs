use vstd::prelude::*;
verus! {

pub enum GoBinaryOp { Add, Div, And }

pub enum Expr {
    Var { name: String },
    Int { value: String },
    Call { func: Box<Expr>, args: Vec<Expr> },
    BinaryOp { op: GoBinaryOp, lhs: Box<Expr>, rhs: Box<Expr> },
    Index { array: Box<Expr>, index: Box<Expr> },
    ArrayLiteral { elems: Vec<Expr> },
}

pub open spec fn effect(e: Expr) -> bool
    decreases e,
{
    match e {
        Expr::Var { .. } => false,
        Expr::Int { .. } => false,
        Expr::Call { .. } => true,
        Expr::BinaryOp { op, lhs, rhs } => effect(*lhs) || effect(*rhs),
        Expr::Index { array, index } => effect(*array) || effect(*index),
        Expr::ArrayLiteral { elems } => exists|i: int| 0 <= i < elems.len() && effect(#[trigger] elems[i]),
    }
}

fn expr_has_side_effects(e: &Expr) -> (r: bool)
    ensures r == effect(*e),
    decreases e,
{
    match e {
        Expr::Call { .. } => true,
        Expr::Index { array, index } => {
            expr_has_side_effects(array) || expr_has_side_effects(index)
        }
        Expr::BinaryOp { lhs, rhs, .. } => {
            expr_has_side_effects(lhs) || expr_has_side_effects(rhs)
        }
        Expr::ArrayLiteral { elems } => {
            let mut i: usize = 0;
            let mut found = false;
            while i < elems.len() && !found
                invariant
                    0 <= i <= elems.len(),
                    found == (exists|j: int| 0 <= j < i && effect(#[trigger] elems[j])),
                decreases elems.len() - i,
            {
                if expr_has_side_effects(&elems[i]) { found = true; }
                i += 1;
            }
            found
        }
        Expr::Var { .. } | Expr::Int { .. } => false,
    }
}

fn scoped(bound: &mut Vec<String>, name: &String, e: &Expr) -> (r: bool)
    ensures final(bound)@ == old(bound)@,
{
    bound.push(name.clone());
    let r = expr_has_side_effects(e);
    bound.pop();
    r
}

} // verus!
fn main() {}
