#!/bin/sh
# witness for C14 / C10, U-COREFLOAT (fix aa31e01): package Lib `fn scale(x: float64) -> float64 { x * 985.6906946328695 }` built separately and linked must
# emit the float constant the whole-program driver emits. Without serde_json's `float_roundtrip` the .core file reads back as 985.6906946328696.
# exit 1 when the two drivers emit different constants.   usage: core_float.sh [compiler]
BIN=${1:-/repo/target/debug/compiler}
D=$(cd "$(dirname "$0")/core_float" && pwd)
T=$(mktemp -d) || exit 0
trap 'rm -rf "$T"' EXIT
whole=$("$BIN" run --dump-go "$D/main.gom" 2>/dev/null | grep -oE '985\.[0-9]+' | head -1)
"$BIN" build --package Lib --input "$D/Lib/lib.gom" --output "$T/Lib" >/dev/null 2>&1 || { echo "build of Lib failed"; exit 0; }
"$BIN" build --package Main --input "$D/main.gom" --interface-path "$T" --output "$T/Main" >/dev/null 2>&1 || { echo "build of Main failed"; exit 0; }
"$BIN" link --input "$T/Lib.core" "$T/Main.core" --output "$T/prog.go" >/dev/null 2>&1 || { echo "link failed"; exit 0; }
sep=$(grep -oE '985\.[0-9]+' "$T/prog.go" | head -1)
[ -n "$whole" ] && [ -n "$sep" ] || { echo "constant not found (whole='$whole' separate='$sep')"; exit 0; }
if [ "$whole" != "$sep" ]; then echo "WRONG: whole-program emits $whole, build+link emits $sep"; exit 1; fi
echo "ok: both drivers emit $whole"; exit 0
