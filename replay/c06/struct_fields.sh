#!/bin/sh
# replay for C06 (a struct pattern binds / tests the right field): `Span { lo: _, hi: h, tag: _ } => h` must read field hi, and
# `Span { lo: _, hi: 0, tag: _ }` must test hi (so the arm returning tag stays reachable).   exit 1 otherwise.
# usage: struct_fields.sh [path-to-compiler-binary]
BIN=${1:-/repo/target/debug/compiler}
D=$(dirname "$0")
OUT=$("$BIN" run --dump-go "$D/struct_fields/main.gom" 2>&1)
body() { printf '%s\n' "$OUT" | awk -v f="func $1(" 'index($0,f)==1{p=1} p{print} p&&/^}/{exit}'; }
if ! printf '%s\n' "$OUT" | grep -q '^func upper('; then echo "no Go emitted"; exit 0; fi
rc=0
if body upper | grep -q '\.hi$'; then echo "ok: upper reads field hi"; else echo "WRONG: upper does not read field hi: $(body upper | grep -m1 ' = s\.')"; rc=1; fi
if body width | grep -q '\.hi$'; then echo "ok: width (destructuring let) reads field hi"; else echo "WRONG: width does not read field hi"; rc=1; fi
if body classify | grep -q 'tag$'; then echo "ok: classify still has the arm that returns tag"; else echo "WRONG: classify lost its second arm (never reads tag)"; rc=1; fi
exit $rc
