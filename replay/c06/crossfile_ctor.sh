#!/bin/sh
# replay for C06 / C05 (first matching arm; a constructor pattern is not a binder): enum Color lives in colors.gom, the match in
# main.gom: `Red => .. Green => .. Blue => ..` must switch on the three constructors; if `Red` is taken for a variable the first
# arm catches everything.   exit 1 if name() has no case for Blue.   usage: crossfile_ctor.sh [compiler]
BIN=${1:-/repo/target/debug/compiler}
D=$(cd "$(dirname "$0")" && pwd)
body=$("$BIN" run --dump-go "$D/crossfile_ctor/main.gom" 2>/dev/null | sed -n '/^func name(/,/^}/p')
[ -z "$body" ] && { echo "no Go emitted"; exit 0; }
if printf '%s\n' "$body" | grep -q 'case Blue:'; then echo "ok: name() distinguishes the three constructors"; exit 0; fi
echo "WRONG: the pattern Red was compiled as a catch-all variable: $(printf '%s\n' "$body" | grep -m1 'ret[0-9]* = ')"; exit 1
