#!/bin/sh
# replay for C06 (when no arm matches, the program fails at that point): `match s { "a" => 1, "b" => 2 }` must have a default branch
# that calls the runtime's `missing`; without it f("zzz") returns 0.   exit 1 if the switch has no such default.
# usage: string_no_default.sh [path-to-compiler-binary]
BIN=${1:-/repo/target/debug/compiler}
D=$(dirname "$0")
body=$("$BIN" run --dump-go "$D/string_no_default/main.gom" 2>/dev/null | sed -n '/^func f(/,/^}/p')
[ -z "$body" ] && { echo "no Go emitted"; exit 0; }
if printf '%s\n' "$body" | grep -A1 'default:' | grep -q 'missing('; then echo "ok: an unmatched string reaches missing()"; exit 0; fi
echo "WRONG: the switch over the string has no failing default: f(\"zzz\") returns the zero value"; exit 1
