#!/bin/sh
# replay for C06 (first-match semantics of literal columns): in `(0,_) (_,true) (1,_) (2,_) _` the row `(_, true)` comes before
# the rows of literals 1 and 2, so `case 2:` of the outer switch must still look at y (and `0 => .. _ => rest, 1 =>, 2 =>` must
# give "rest" for 2).   exit 1 if the emitted Go selects a later arm.   usage: run.sh [path-to-compiler-binary]
BIN=${1:-/repo/target/debug/compiler}
D=$(dirname "$0")
GO_OUT=$(mktemp)
"$BIN" run --dump-go "$D/first_match/main.gom" >"$GO_OUT" 2>/dev/null
outer_case() {
    awk -v fn="func $1(" -v lit="    case $2:" '
        index($0, fn) == 1 { inside = 1; next }
        inside && $0 == "}" { inside = 0 }
        inside && $0 == lit { getline; print; exit }
    ' "$GO_OUT"
}
status=0
expect() {
    got="$(outer_case "$1" "$2")"
    if echo "$got" | grep -Eq "$3"; then echo "ok: $4"; else echo "WRONG: $4 -- emitted: $(echo "$got" | sed 's/^ *//')"; status=1; fi
}
if ! grep -q '^func by_int(' "$GO_OUT"; then rm -f "$GO_OUT"; echo "no Go emitted"; exit 0; fi
expect by_int_flat 2 '= "rest"' 'by_int_flat(2) == "rest" (an arm after the catch-all must not run)'
expect by_int 2 'switch ' 'by_int(2, true) == "flag" (case 2 must still look at y)'
expect by_string '"c"' 'switch ' 'by_string("c", true) == "flag" (case "c" must still look at y)'
rm -f "$GO_OUT"
exit $status
