#!/bin/sh
# replay for C05 (lexical scoping): an inner binding that shadows an outer one inside a block / a match arm must not be visible
# after the block / the match.  Both programs are well-scoped and must be accepted.  exit 1 if one is rejected.
# usage: run.sh [path-to-compiler-binary]
BIN=${1:-/repo/target/debug/compiler}
D=$(dirname "$0")
rc=0
for c in shadow_in_block shadow_in_arm; do
  out=$("$BIN" run --dump-go "$D/$c/main.gom" 2>&1)
  if echo "$out" | grep -q "^error\|panicked"; then echo "REJECTED $c: $(echo "$out" | grep -m1 'error\|panicked')"; rc=1; else echo "ok $c accepted"; fi
done
exit $rc
