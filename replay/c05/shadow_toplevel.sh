#!/bin/sh
# replay for C05 (the innermost binding wins): a local (let-bound closure, let variable, parameter) with the name of a top-level
# function of the same package must shadow that function inside its scope.   exit 1 if a use resolves to the function instead.
# usage: shadow_toplevel.sh [path-to-compiler-binary]
BIN=${1:-/repo/target/debug/compiler}
D=$(dirname "$0")
rc=0
out=$("$BIN" run --dump-go "$D/shadow_closure/main.gom" 2>&1)
if echo "$out" | grep -q 'b__[0-9]* int32 = .*_apply(scale__[0-9]*, 2)'; then echo "ok shadow_closure: scale(2) after let scale = |n| .. calls the closure"
else echo "WRONG shadow_closure: $(echo "$out" | grep -m1 'b__[0-9]* int32 =')"; rc=1; fi
for c in shadow_let shadow_param; do
  out=$("$BIN" run --dump-go "$D/$c/main.gom" 2>&1)
  if echo "$out" | grep -q '^func main0()'; then echo "ok $c accepted"; else echo "REJECTED $c: $(echo "$out" | head -1)"; rc=1; fi
done
exit $rc
