#!/bin/sh
# witness for C05 / C06, U-SCOPE (fix 22f040a): `enum Light { on, off }`, `fn describe(off: Light) -> string { match off { on => .., off => .. } }` — the scrutinee
# must be the PARAMETER `off`, not the constant constructor of the same name (likewise for a closure parameter).   exit 1 when a match switches on a
# constructor literal instead of the parameter.   usage: ctor_shadows_param.sh [compiler]
BIN=${1:-/repo/target/debug/compiler}
D=$(cd "$(dirname "$0")/ctor_shadows_param" && pwd)
go=$("$BIN" run --dump-go "$D/main.gom" 2>/dev/null)
printf '%s\n' "$go" | grep -q '^package main$' || { echo "no Go emitted"; exit 0; }
bad=$(printf '%s\n' "$go" | grep -E '^[[:space:]]+var mtmp[0-9]+ Light = (on|off)\{\}' | head -3 | tr -s ' ' | tr '\n' ';')
if [ -n "$bad" ]; then echo "WRONG: the match ignores the parameter and switches on a constant:$bad"; exit 1; fi
echo "ok: $(printf '%s\n' "$go" | grep -m1 -E 'switch (off|on)__[0-9]+')"; exit 0
