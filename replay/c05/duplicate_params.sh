#!/bin/sh
# replay for C05 (every parameter is a binder of its own): `fn f(x: int32, x: int32) -> int32 { x }` must give the two parameters
# different Go names (the use refers to the later one).   exit 1 if both parameters carry the same name.
# usage: duplicate_params.sh [path-to-compiler-binary]
BIN=${1:-/repo/target/debug/compiler}
D=$(dirname "$0")
line=$("$BIN" run --dump-go "$D/duplicate_params/main.gom" 2>/dev/null | grep -m1 '^func f(')
[ -z "$line" ] && { echo "no Go emitted"; exit 0; }
a=$(printf '%s\n' "$line" | sed -E 's/^func f\(([A-Za-z0-9_]+) [a-z0-9]+, ([A-Za-z0-9_]+) .*/\1/')
b=$(printf '%s\n' "$line" | sed -E 's/^func f\(([A-Za-z0-9_]+) [a-z0-9]+, ([A-Za-z0-9_]+) .*/\2/')
if [ "$a" = "$b" ]; then echo "WRONG: both parameters are the same binder: $line"; exit 1; fi
echo "ok: $line"; exit 0
