#!/bin/sh
# replay for C04 (monomorphisation of self-referential generic structs): `struct Tree[T] { .. children: Vec[Tree[T]] }` and
# friends must compile without the compiler overflowing its stack.   exit 1 on a crash.   usage: run.sh [compiler-binary]
BIN=${1:-/repo/target/debug/compiler}
D=$(dirname "$0")
rc=0
for c in tree_vec cell_ref rose_tuple; do
  out=$("$BIN" run --dump-go "$D/$c/main.gom" 2>&1); code=$?
  if [ "$code" -ge 100 ] || echo "$out" | grep -q "overflowed its stack\|panicked at"; then echo "CRASH on $c (exit $code): $(echo "$out" | tail -1)"; rc=1; else echo "ok $c (exit $code)"; fi
done
exit $rc
