#!/bin/sh
# replay for C04 / C09 (`go e` starts e; the compiler never crashes): `go worker;` with `fn worker() -> unit` must compile to
# `go worker()`, not panic in compile_go.   exit 1 on a panic or a missing go statement.   usage: go_fn_value.sh [compiler]
BIN=${1:-/repo/target/debug/compiler}
D=$(dirname "$0")
out=$("$BIN" run --dump-go "$D/go_fn_value/main.gom" 2>&1)
if echo "$out" | grep -q "panicked"; then echo "CRASH: $(echo "$out" | grep -m1 -A1 panicked | tr '\n' ' ')"; exit 1; fi
echo "$out" | grep -q '^func main0(' || { echo "no Go emitted"; exit 0; }
if echo "$out" | grep -q '^ *go worker()'; then echo "ok: go worker()"; exit 0; fi
echo "WRONG: no \`go worker()\` statement emitted"; exit 1
