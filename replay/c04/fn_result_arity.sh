#!/bin/sh
# replay for C04 / C03 (U-VALIDTY: validate_ty looks at a function type's RESULT too): `g: (int32) -> Box[int32, int32]` for `struct Box[T]` must be a typer diagnostic,
# not a panic in monomorphisation.   exit 1 if the compiler panics (status 101) or accepts the program.   usage: fn_result_arity.sh [compiler-binary]
BIN=${1:-/repo/target/debug/compiler}
D=$(dirname "$0")
out=$("$BIN" run --dump-go "$D/fn_result_arity/main.gom" 2>&1); st=$?
if [ $st -eq 101 ] || printf '%s\n' "$out" | grep -q "panicked at"; then echo "WRONG: the compiler panics:"; printf '%s\n' "$out" | grep -m2 "panicked\|mismatch"; exit 1; fi
if printf '%s\n' "$out" | grep -q "expects 1 type arguments, but got 2"; then echo "ok: the ill-formed result type is a typer diagnostic"; exit 0; fi
if printf '%s\n' "$out" | grep -q "^func main0"; then echo "WRONG: the ill-formed type application was accepted"; exit 1; fi
echo "no verdict (status $st)"; exit 0
