#!/bin/sh
# witness for C04 / U-PLACEHOLDER (fix b33356e): `p.completion_placeholder` on a struct without that field is an erroneous program: a diagnostic, not a panic in the match compiler.
# exit 1 when the compiler panics.   usage: placeholder_field.sh [compiler]
BIN=${1:-/repo/target/debug/compiler}
D=$(cd "$(dirname "$0")/placeholder_field" && pwd)
out=$("$BIN" run --dump-go "$D/main.gom" 2>&1)
if printf '%s\n' "$out" | grep -q "panicked at"; then echo "WRONG: $(printf '%s\n' "$out" | grep -m1 -A1 'panicked at' | tr '\n' ' ')"; exit 1; fi
echo "ok: $(printf '%s\n' "$out" | grep -m1 '^error')"; exit 0
