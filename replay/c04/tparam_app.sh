#!/bin/sh
# witness for C04 / U-CONSTRNAME (fix 9a286d6): `fn f[T](x: T[int32])` with `x.foo()` is an erroneous program: diagnostics, not a panic.
# exit 1 when the compiler panics.   usage: tparam_app.sh [compiler]
BIN=${1:-/repo/target/debug/compiler}
D=$(cd "$(dirname "$0")/tparam_app" && pwd)
out=$("$BIN" run --dump-go "$D/main.gom" 2>&1)
if printf '%s\n' "$out" | grep -q "panicked at"; then echo "WRONG: $(printf '%s\n' "$out" | grep -m1 -A1 'panicked at' | tr '\n' ' ')"; exit 1; fi
echo "ok: $(printf '%s\n' "$out" | grep -m1 '^error')"; exit 0
