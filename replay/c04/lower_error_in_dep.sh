#!/bin/sh
# witness for C04, U-REPORT: a lowering error in a NON-entry package file (further into that file than main.gom is long) must be reported as a diagnostic —
# resolving its offset against the entry file's text panics in line_index ("invalid offset").   exit 1 when `run` panics.   usage: lower_error_in_dep.sh [compiler]
BIN=${1:-/repo/target/debug/compiler}
D=$(cd "$(dirname "$0")/lower_error_in_dep" && pwd)
out=$("$BIN" run --dump-go "$D/main.gom" 2>&1); rc=$?
if [ $rc -eq 101 ] || printf '%s\n' "$out" | grep -q "panicked at"; then echo "WRONG: the compiler panics while reporting: $(printf '%s\n' "$out" | grep -m1 -A1 'panicked at' | tr '\n' ' ')"; exit 1; fi
echo "ok: exit $rc, $(printf '%s\n' "$out" | grep -m1 '^error')"; exit 0
