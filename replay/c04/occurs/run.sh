#!/bin/sh
# replay for C04 (occurs check): self-referential closure types must be rejected with a typer diagnostic, not crash the compiler.
# exit 1 if the compiler crashes (stack overflow / panic) on one of the programs.   usage: run.sh [path-to-compiler-binary]
BIN=${1:-/repo/target/debug/compiler}
D=$(dirname "$0")
rc=0
for c in returns_itself applied_to_itself; do
  out=$("$BIN" run --dump-go "$D/$c/main.gom" 2>&1); code=$?
  if [ "$code" -ge 100 ] || echo "$out" | grep -q "overflowed its stack\|panicked at"; then
    echo "CRASH on $c/main.gom (exit $code): $(echo "$out" | tail -2 | tr '\n' ' ')"; rc=1
  else
    echo "ok $c: exit $code, $(echo "$out" | grep -c 'occurs check failed') occurs-check diagnostics"
  fi
done
exit $rc
