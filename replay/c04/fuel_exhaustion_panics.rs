// Replay witnesses for C04 (U-GRAMMAR, total mode: the entry assertions `assert!(p.at(X))` of the grammar functions).
// Place as crates/parser/tests/fuel_exhaustion_panics.rs and run
//   cargo test -p parser --offline --test fuel_exhaustion_panics
// Before the fix ("fix: parser entry assertions must not depend on look-ahead fuel") every case PANICS:
// while unwinding N nested unclosed constructs each level spends look-ahead fuel without consuming a token; when the
// fuel runs out exactly between a caller's `p.at(X)` and the callee's `assert!(p.at(X))` the assertion fails.
use std::path::Path;

fn parses_without_panic(src: String) {
    let r = std::panic::catch_unwind(move || {
        let res = parser::parse(Path::new("x.gom"), &src);
        // and the tree is still lossless
        let root: parser::syntax::MySyntaxNode = rowan::SyntaxNode::new_root(res.green_node.clone());
        assert_eq!(root.text().to_string(), src);
    });
    assert!(r.is_ok(), "parser panicked");
}

#[test]
fn nested_calls_then_impl() {
    parses_without_panic(format!("fn f() -> {}x impl Q {{}}", "f(".repeat(31)));
}

#[test]
fn nested_calls_then_struct() {
    parses_without_panic(format!("fn f() -> {} struct Q {{}}", "f(".repeat(32)));
}

#[test]
fn impl_header_nested_calls() {
    parses_without_panic(format!("impl {}x impl Q {{}}", "f(".repeat(31)));
}

#[test]
fn impl_header_long_path() {
    parses_without_panic(format!("impl {}x for T {{}}", "A::".repeat(126)));
}
