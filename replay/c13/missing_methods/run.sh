#!/bin/sh
# replay for C13 (diagnostic order): compile the same source N times in separate processes and compare the diagnostics.
# exit 1 if two runs disagree.   usage: run.sh [path-to-compiler-binary]
BIN=${1:-/repo/target/debug/compiler}
D=$(dirname "$0")
first=""
for i in 1 2 3 4 5 6 7 8 9 10 11 12; do
  out=$("$BIN" run "$D/main.gom" 2>&1 | grep -o "missing method [a-z]*" | tr '\n' ' ')
  if [ -z "$first" ]; then first="$out"; elif [ "$out" != "$first" ]; then echo "DIFFERENT ORDER:"; echo " $first"; echo " $out"; exit 1; fi
done
echo "same order in 12 runs: $first"; exit 0
