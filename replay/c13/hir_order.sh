#!/bin/sh
# replay for C13 (byte-identical stage dumps): Main imports Alpha, Beta, Gamma and Delta; `run --dump-hir` in 12 fresh compiler processes
# must print the same HIR dump, with the packages in the order Main Alpha Beta Delta Gamma (package ids are assigned from sorted names).
# exit 1 if two runs differ.   usage: hir_order.sh [compiler]
BIN=${1:-/repo/target/debug/compiler}
case "$BIN" in /*) ;; *) BIN="$(pwd)/$BIN";; esac
D=$(cd "$(dirname "$0")/hir_order" && pwd)
T=$(mktemp -d)
rc=0
for i in 1 2 3 4 5 6 7 8 9 10 11 12; do (cd "$D" && "$BIN" run --dump-hir main.gom > "$T/hir.$i" 2>/dev/null); done
grep -q '^package ' "$T/hir.1" || { echo "no HIR dump"; rm -rf "$T"; exit 0; }
for i in 2 3 4 5 6 7 8 9 10 11 12; do cmp -s "$T/hir.1" "$T/hir.$i" || { echo "WRONG: HIR dump of run $i differs from run 1 ($(grep '^package ' "$T/hir.$i" | tr '\n' ' '))"; rc=1; break; }; done
[ $rc -eq 0 ] && echo "ok: 12 processes, identical HIR dumps ($(grep '^package ' "$T/hir.1" | sed 's/^package //' | tr '\n' ' '))"
rm -rf "$T"; exit $rc
