#!/bin/sh
# replay for C13 (diagnostic text): a struct pattern with four unknown fields; the diagnostic must be the same text in every run.
# exit 1 if two runs disagree.   usage: run.sh [path-to-compiler-binary]
BIN=${1:-/repo/target/debug/compiler}
D=$(dirname "$0")
first=""
for i in 1 2 3 4 5 6 7 8 9 10 11 12; do
  out=$("$BIN" run "$D/main.gom" 2>&1 | grep -o "unknown fields.*")
  if [ -z "$first" ]; then first="$out"; elif [ "$out" != "$first" ]; then echo "DIFFERENT TEXT:"; echo " $first"; echo " $out"; exit 1; fi
done
echo "same text in 12 runs: $first"; exit 0
