#!/bin/sh
# replay for C13 (which error `link` reports): four packages A..D are built against Lib v1, then Lib is rebuilt with a different
# interface; linking must name the same stale package in every run.   exit 1 if two runs disagree.
# usage: run.sh [path-to-compiler-binary]      (works in a private temp directory, removed afterwards)
BIN=${1:-/repo/target/debug/compiler}
W=$(mktemp -d /tmp/goml-linkerr.XXXXXX) || exit 2
trap 'rm -rf "$W"' EXIT
mkdir -p "$W/out"; cd "$W" || exit 2
printf 'package Lib\n\nfn msg() -> string {\n    "v1"\n}\n' > lib.gom
for p in A B C D; do printf "package $p\n\nimport Lib\n\nfn hello() -> string {\n    Lib::msg()\n}\n" > $p.gom; done
printf 'package Main\n\nimport A\nimport B\nimport C\nimport D\n\nfn main() -> unit {\n    string_println(A::hello())\n}\n' > main.gom
"$BIN" build --package Lib --input lib.gom --output out/Lib >/dev/null 2>&1 || { echo "setup failed (Lib)"; exit 2; }
for p in A B C D; do "$BIN" build --package $p --input $p.gom --output out/$p --interface-path out >/dev/null 2>&1 || { echo "setup failed ($p)"; exit 2; }; done
"$BIN" build --package Main --input main.gom --output out/Main --interface-path out >/dev/null 2>&1 || { echo "setup failed (Main)"; exit 2; }
printf 'package Lib\n\nfn msg() -> string {\n    "v2"\n}\n\nfn extra() -> int32 {\n    2\n}\n' > lib.gom
"$BIN" build --package Lib --input lib.gom --output out/Lib >/dev/null 2>&1 || { echo "setup failed (Lib v2)"; exit 2; }
first=""
for i in 1 2 3 4 5 6 7 8 9 10 11 12; do
  out=$("$BIN" link --input out/Main.core out/A.core out/B.core out/C.core out/D.core out/Lib.core --output out/main.go 2>&1 | grep -o "package [A-Za-z]* expects")
  [ -z "$out" ] && { echo "link did not report a hash mismatch"; exit 2; }
  if [ -z "$first" ]; then first="$out"; elif [ "$out" != "$first" ]; then echo "DIFFERENT ERROR: '$first' vs '$out'"; exit 1; fi
done
echo "same error in 12 runs: $first"; exit 0
