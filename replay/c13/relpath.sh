#!/bin/sh
# replay for C13 (the same sources give the same result however they are named): the program is compiled from its own directory once as
# `main.gom` and once as `./main.gom`.  The bare spelling used to load the entry file twice (the directory listing yields `./main.gom`,
# which is not `==` to `main.gom`): the valid program was rejected ("Method get is already defined"), or compiled with every function
# duplicated in the dumps.   exit 1 if the two spellings give different output.   usage: relpath.sh [compiler]
BIN=${1:-/repo/target/debug/compiler}
case "$BIN" in /*) ;; *) BIN="$(pwd)/$BIN";; esac
D=$(cd "$(dirname "$0")/relpath" && pwd)
a=$(cd "$D" && "$BIN" run --dump-tast --dump-go main.gom 2>&1 | grep -v '^failed to execute go')
b=$(cd "$D" && "$BIN" run --dump-tast --dump-go ./main.gom 2>&1 | grep -v '^failed to execute go')
if [ "$a" = "$b" ]; then echo "ok: main.gom and ./main.gom compile to the same output"; exit 0; fi
echo "WRONG: 'run main.gom' and 'run ./main.gom' differ: $(printf '%s\n' "$a" | grep -m1 -i error)"; exit 1
