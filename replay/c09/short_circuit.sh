#!/bin/sh
# replay for C09 (&& and || are short-circuit): in `noisy("left", false) && noisy("right", true)` the right call must sit inside a
# conditional on the left result, not be evaluated unconditionally before the `&&`.   exit 1 if both calls are emitted as
# unconditional statements of main0.   usage: short_circuit.sh [path-to-compiler-binary]
BIN=${1:-/repo/target/debug/compiler}
D=$(dirname "$0")
body=$("$BIN" run --dump-go "$D/short_circuit/main.gom" 2>/dev/null | sed -n '/^func main0(/,/^}/p')
[ -z "$body" ] && { echo "no Go emitted"; exit 0; }
rc=0
# an unconditional statement of main0 is indented by exactly 4 spaces
if printf '%s\n' "$body" | grep -q '^    [^ ].*noisy("right", true)'; then echo 'WRONG: noisy("right", ..) is evaluated although the left operand of && is false'; rc=1; else echo 'ok: the right operand of && is conditional'; fi
if printf '%s\n' "$body" | grep -q '^    [^ ].*noisy("r2", false)'; then echo 'WRONG: noisy("r2", ..) is evaluated although the left operand of || is true'; rc=1; else echo 'ok: the right operand of || is conditional'; fi
exit $rc
