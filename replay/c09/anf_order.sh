#!/bin/sh
# replay for C09 (A-normalisation names operands in evaluation order, U-ANF): in main0 of anf_order/main.gom the calls must appear in
# source order: callee before its argument, left operand before right, arguments left to right.
# exit 1 if some pair is emitted the other way round.   usage: anf_order.sh [path-to-compiler-binary]
BIN=${1:-/repo/target/debug/compiler}
D=$(dirname "$0")
body=$("$BIN" run --dump-go "$D/anf_order/main.gom" 2>/dev/null | sed -n '/^func main0(/,/^}/p')
[ -z "$body" ] && { echo "no Go emitted"; exit 0; }
line() { printf '%s\n' "$body" | grep -n -F "$1" | head -1 | cut -d: -f1; }
rc=0
before() {
  a=$(line "$1"); b=$(line "$2")
  if [ -z "$a" ] || [ -z "$b" ]; then echo "WRONG: $1 or $2 is not evaluated in main0"; rc=1
  elif [ "$a" -lt "$b" ]; then echo "ok: $1 before $2"
  else echo "WRONG: $2 (line $b) is evaluated before $1 (line $a)"; rc=1; fi
}
before 'pick("inc")' 'arg("a", 1)'
before 'arg("left", 1)' 'arg("right", 2)'
before 'arg("first", 1)' 'arg("second", 2)'
before 'arg("second", 2)' 'arg("third", 3)'
exit $rc
