#!/bin/sh
# replay for C09 (dead-code elimination must not drop a loop): `while keep_running { () }` has no call in it, but it is the
# only thing that keeps serve() from reaching its last statement.   exit 1 if the emitted Go for serve() has no `for {` before
# the final println.   usage: run.sh [path-to-compiler-binary]
BIN=${1:-/repo/target/debug/compiler}
D=$(dirname "$0")
serve=$("$BIN" run --dump-go "$D/spin/main.gom" 2>/dev/null | sed -n '/^func serve(/,/^}/p')
loop_line=$(printf '%s\n' "$serve" | grep -n 'for {' | head -1 | cut -d: -f1)
stop_line=$(printf '%s\n' "$serve" | grep -n '"serve: stopped"' | head -1 | cut -d: -f1)
if [ -n "$loop_line" ] && [ -n "$stop_line" ] && [ "$loop_line" -lt "$stop_line" ]; then echo "ok: the while loop is emitted before the final println"; exit 0; fi
echo "WRONG: serve() has no loop; \"serve: stopped\" is reached although keep_running is true"; exit 1
