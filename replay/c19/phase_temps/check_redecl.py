#!/usr/bin/env python3
"""Report identifiers declared twice in one Go block (Go: `x redeclared in this block`)."""
import sys


def redeclarations(text):
    bad, func, blocks = [], "", []
    for line in text.splitlines():
        t = line.strip()
        if line.startswith("func "):
            rest = line[len("func "):]
            func = rest.split("(")[0]
            scope = set()
            if "(" in rest and ")" in rest:
                for param in rest[rest.index("(") + 1:rest.index(")")].split(","):
                    parts = param.split()
                    if parts:
                        scope.add(parts[0])
            blocks = [scope]
            continue
        if not blocks:
            continue
        if t.startswith("}"):
            blocks.pop()
            if not blocks:
                continue
        if t.startswith("var "):
            name = t.split()[1]
            if name in blocks[-1]:
                bad.append((func, name))
            blocks[-1].add(name)
        if t.endswith("{"):
            blocks.append(set())
    return bad


if __name__ == "__main__":
    bad = redeclarations(open(sys.argv[1]).read())
    for func, name in bad:
        print(f"REDECLARED: `{name}` is declared twice in one block of func {func}")
    sys.exit(1 if bad else 0)
