#!/bin/sh
# replay for C19, U-RESERVED (fix 1d0302b): a user function `missing` took the place of the runtime's `missing`, which the match compiler calls by name for a
# non-exhaustive match (and the emitted Go declared `missing` twice). The name must be rejected.   exit 1 if the program is accepted.   usage: user_missing.sh [compiler]
BIN=${1:-/repo/target/debug/compiler}
D=$(cd "$(dirname "$0")/user_missing" && pwd)
out=$("$BIN" run --dump-go "$D/main.gom" 2>&1)
if echo "$out" | grep -q "^error"; then echo "ok: rejected: $(echo "$out" | grep -m1 '^error')"; exit 0; fi
echo "WRONG: a user function called missing is accepted: $(echo "$out" | grep -c '^func missing(') declarations of missing in the emitted Go"; exit 1
