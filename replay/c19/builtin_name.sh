#!/bin/sh
# replay for C19/C05 (a user-chosen name cannot take the place of a runtime helper): a user `fn ref_get(r: Ref[int32]) -> int32 { 42 }` is
# type-checked as the callee of `ref_get(ref(1))`, but the Go backend recognises builtins by the callee's NAME: the runtime helper is called
# (prints 1, not 42) and the user's function is dropped; `fn ref_get(x: int32) -> int32` even panics the backend.  The name must be rejected.
# exit 1 on a panic or when the program is accepted.   usage: builtin_name.sh [compiler]
BIN=${1:-/repo/target/debug/compiler}
D=$(cd "$(dirname "$0")" && pwd)
rc=0
for p in builtin_name_silent builtin_name_panic; do
  out=$("$BIN" run --dump-go "$D/$p/main.gom" 2>&1); st=$?
  if [ $st -ne 101 ] && echo "$out" | grep -q "reserved for a builtin"; then echo "ok $p: the name is rejected"
  else echo "WRONG $p (exit $st): $(echo "$out" | grep -m1 -E 'panicked|ref_get__Ref_int32\(t' )"; rc=1; fi
done
exit $rc
