#!/bin/sh
# replay for C19 (no user-chosen name can shadow a predeclared identifier the output relies on): a user function `fn len(s: string) -> int32 { 42 }`
# used to be emitted as a package-level `func len`, so the runtime's `string_len` (`return int32(len(s))`) returned 42 for every string.
# exit 1 if the emitted Go defines a function named len.   usage: predeclared.sh [compiler]
BIN=${1:-/repo/target/debug/compiler}
D=$(cd "$(dirname "$0")/predeclared_len" && pwd)
go=$("$BIN" run --dump-go "$D/main.gom" 2>/dev/null)
printf '%s\n' "$go" | grep -q '^func main0(' || { echo "no Go emitted"; exit 0; }
if printf '%s\n' "$go" | grep -q '^func len('; then echo "WRONG: the user's function is emitted as 'func len' and captures the runtime's len(s)"; exit 1; fi
echo "ok: $(printf '%s\n' "$go" | grep -m1 '^func _goml_len(')"; exit 0
