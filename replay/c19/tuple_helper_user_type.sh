#!/bin/sh
# witness for the C19 known finding (the helper struct of a tuple type has a name a goml program can give a type of its own):
#   struct Tuple2_int32_int32 { a: string }   and   let p = (1, 2);
# The user's struct and the helper struct of (int32, int32) are both emitted as `type Tuple2_int32_int32 struct`.   exit 1 while that is so.
# usage: tuple_helper_user_type.sh [compiler]
BIN=${1:-/repo/target/debug/compiler}
D=$(cd "$(dirname "$0")/tuple_helper_user_type" && pwd)
go=$("$BIN" run --dump-go "$D/main.gom" 2>/dev/null)
printf '%s\n' "$go" | grep -q '^func main0(' || { echo "no Go emitted"; exit 0; }
dup=$(printf '%s\n' "$go" | grep -o '^type Tuple[A-Za-z0-9_]* struct' | sort | uniq -d)
if [ -n "$dup" ]; then echo "WRONG: declared twice: $dup"; exit 1; fi
echo "ok: every tuple helper struct is declared once"; exit 0
