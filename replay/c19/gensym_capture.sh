#!/bin/sh
# witness for the C19 known finding (a compiler temporary can capture a user name): with a user `fn x1(a: int32) -> int32 { a + 1000 }`,
#   let r = match (inc, 5) { (f, n) => x1(n), };
# binds the match temporary `var x1 func(int32) int32 = mtmp0._0` and the user's call x1(n) calls IT (inc): 6 instead of 1005.
# exit 1 while the emitted main0 declares a local named x1.   usage: gensym_capture.sh [compiler]
BIN=${1:-/repo/target/debug/compiler}
D=$(cd "$(dirname "$0")/gensym_capture" && pwd)
go=$("$BIN" run --dump-go "$D/main.gom" 2>/dev/null)
printf '%s\n' "$go" | grep -q '^func main0(' || { echo "no Go emitted"; exit 0; }
if printf '%s\n' "$go" | sed -n '/^func main0(/,/^}/p' | grep -q 'var x1 '; then echo "WRONG: main0 declares the temporary 'x1', which captures the user's function x1: $(printf '%s\n' "$go" | grep -m1 'x1(n__')"; exit 1; fi
echo "ok: no temporary is named like the user's function"; exit 0
