#!/bin/sh
# witness for the C19 / C02 defect repaired by "fix: the cell struct of a reference keeps the case of its element type's name":
#   struct Foo { .. }  struct foo { .. }   ref(Foo { .. })  ref(foo { .. })
# Before the fix both references used the cell struct ref_foo_x and the emitted Go declared `type ref_foo_x struct` twice.   exit 1 while some `type ref_..` is declared twice.
# usage: ref_cell_case.sh [compiler]
BIN=${1:-/repo/target/debug/compiler}
D=$(cd "$(dirname "$0")/ref_cell_case" && pwd)
go=$("$BIN" run --dump-go "$D/main.gom" 2>/dev/null)
printf '%s\n' "$go" | grep -q '^func main0(' || { echo "no Go emitted"; exit 0; }
dup=$(printf '%s\n' "$go" | grep -o '^type ref_[A-Za-z0-9_]* struct' | sort | uniq -d)
if [ -n "$dup" ]; then echo "WRONG: declared twice: $dup"; exit 1; fi
echo "ok: every reference cell struct is declared once"; exit 0
