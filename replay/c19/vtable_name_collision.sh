#!/bin/sh
# witness for the C19 / C02 defect repaired by "fix: the spelling of a tuple type in generated names carries its arity":
#   impl Show for ((int32, int32), int32, int32)  and  impl Show for ((int32, int32, int32), int32), both coerced to `dyn Show`
# Before the fix both impls got the vtable constructor dyn__Show__vtable__Tuple_Tuple_int32_int32_int32_int32 (and the same wrapper name): the emitted
# Go declared two functions of one name.   exit 1 while some `func dyn__..` name is declared twice.
# usage: vtable_name_collision.sh [compiler]
BIN=${1:-/repo/target/debug/compiler}
D=$(cd "$(dirname "$0")/vtable_name_collision" && pwd)
go=$("$BIN" run --dump-go "$D/main.gom" 2>/dev/null)
printf '%s\n' "$go" | grep -q '^func main0(' || { echo "no Go emitted"; exit 0; }
dup=$(printf '%s\n' "$go" | grep -o '^func dyn__[A-Za-z0-9_]*' | sort | uniq -d)
if [ -n "$dup" ]; then echo "WRONG: declared twice: $dup"; exit 1; fi
echo "ok: every dyn helper function is declared once"; exit 0
