#!/bin/sh
# witness for C19 / U-GENPHASE: package Lib (a match on a tuple pattern) and Main are BUILT separately and LINKED; no Go block of the linked program may
# declare the same identifier twice (a build-time match temporary and a link-time ANF temporary with the same prefix and counter value collide).
# exit 1 when an identifier is redeclared.   usage: phase_temps.sh [compiler]
BIN=${1:-/repo/target/debug/compiler}
D=$(cd "$(dirname "$0")/phase_temps" && pwd)
OUT=$(mktemp -d)
trap 'rm -rf "$OUT"' EXIT
"$BIN" build --package Lib --input "$D/project/Lib/lib.gom" --output "$OUT/Lib" >/dev/null 2>&1 || { echo "build Lib failed"; exit 0; }
"$BIN" build --package Main --input "$D/project/main.gom" --output "$OUT/Main" --interface-path "$OUT" >/dev/null 2>&1 || { echo "build Main failed"; exit 0; }
"$BIN" link --input "$OUT/Lib.core" "$OUT/Main.core" --output "$OUT/main.go" >/dev/null 2>&1 || { echo "link failed"; exit 0; }
if r=$(python3 "$D/check_redecl.py" "$OUT/main.go" 2>&1); then echo "ok: no redeclared identifier in the linked program"; exit 0; fi
echo "WRONG: $r"; exit 1
