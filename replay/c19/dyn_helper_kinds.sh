#!/bin/sh
# witness for the C19 / C02 defect repaired by "fix: the helper names generated for a dyn trait start with a prefix of their own kind":
#   trait Show, trait Show_vtable, both implemented for int32 and both used as `dyn`
# Before the fix the vtable struct of Show and the dyn struct of Show_vtable were both `dyn__Show_vtable`: the emitted Go declared that type twice.
# exit 1 while some `type dyn..` / `func dyn..` name is declared twice.      usage: dyn_helper_kinds.sh [compiler]
BIN=${1:-/repo/target/debug/compiler}
D=$(cd "$(dirname "$0")/dyn_helper_kinds" && pwd)
go=$("$BIN" run --dump-go "$D/main.gom" 2>/dev/null)
printf '%s\n' "$go" | grep -q '^func main0(' || { echo "no Go emitted"; exit 0; }
dup=$(printf '%s\n' "$go" | grep -oE '^(type|func) dyn_[A-Za-z0-9_]*' | awk '{print $2}' | sort | uniq -d)
if [ -n "$dup" ]; then echo "WRONG: declared twice: $dup"; exit 1; fi
echo "ok: every dyn helper name is declared once"; exit 0
