#!/bin/sh
# witness for C19 / U-VARNAME: packages Lamp and Valve both declare `enum State { On, Off }`; the emitted Go must declare every
# package-level type once.  exit 1 when a Go type name is declared twice (e.g. `State_On` for both enums).   usage: shared_variant.sh [compiler]
BIN=${1:-/repo/target/debug/compiler}
D=$(cd "$(dirname "$0")/shared_variant" && pwd)
go=$("$BIN" run --dump-go "$D/main.gom" 2>/dev/null)
printf '%s\n' "$go" | grep -q '^func main0(' || { echo "no Go emitted"; exit 0; }
dups=$(printf '%s\n' "$go" | sed -n 's/^type \([^ ]*\) .*/\1/p' | sort | uniq -d | tr '\n' ' ')
if [ -n "$dups" ]; then echo "WRONG: Go types declared more than once: $dups"; exit 1; fi
echo "ok: all emitted Go type names are distinct"; exit 0
