#!/bin/sh
# replay for C19 / U-GOIDENT (fix ac985cf): a user `fn init(x: int32) -> int32` must not become Go's special `func init`, and a user `fn main0`
# must not collide with the name the entry function is emitted under.   exit 1 if it does.   usage: init_main0.sh [compiler]
BIN=${1:-/repo/target/debug/compiler}
D=$(cd "$(dirname "$0")" && pwd)
st=0
go=$("$BIN" run --dump-go "$D/init_fn/main.gom" 2>/dev/null)
if printf '%s\n' "$go" | grep -q '^func init('; then echo "WRONG: the user's function is emitted as Go's special 'func init': $(printf '%s\n' "$go" | grep -m1 '^func init(')"; st=1; fi
go=$("$BIN" run --dump-go "$D/main0_fn/main.gom" 2>/dev/null)
n=$(printf '%s\n' "$go" | grep -c '^func main0(')
if [ "$n" -gt 1 ]; then echo "WRONG: 'func main0' is declared $n times (the user's function and the entry point)"; st=1; fi
[ $st = 0 ] && echo "ok: init and main0 are escaped"
exit $st
