#!/bin/sh
# witness for the C19 / C02 defect repaired by "fix: a closure environment is never named like a type of the program":
#   struct closure_env_f_0 { .. }   and, in main,   let f = |a: int32| a + k;
# Before the fix the closure's environment struct was also called closure_env_f_0: the emitted Go declared that type twice.
# exit 1 while some `type closure_env_..` is declared twice.      usage: closure_env_user_type.sh [compiler]
BIN=${1:-/repo/target/debug/compiler}
D=$(cd "$(dirname "$0")/closure_env_user_type" && pwd)
go=$("$BIN" run --dump-go "$D/main.gom" 2>/dev/null)
printf '%s\n' "$go" | grep -q '^func main0(' || { echo "no Go emitted"; exit 0; }
dup=$(printf '%s\n' "$go" | grep -o '^type closure_env_[A-Za-z0-9_]* struct' | sort | uniq -d)
if [ -n "$dup" ]; then echo "WRONG: declared twice: $dup"; exit 1; fi
echo "ok: every closure environment struct is declared once"; exit 0
