#!/bin/sh
# witness for C19 / C02, U-ENTRYNAME (fix 306124f): package Lib `fn main() -> int32` next to the program's entry — only the entry may be emitted as `main0`.
# exit 1 when the emitted Go declares `main0` more than once.   usage: lib_main.sh [compiler]
BIN=${1:-/repo/target/debug/compiler}
D=$(cd "$(dirname "$0")/lib_main" && pwd)
go=$("$BIN" run --dump-go "$D/main.gom" 2>/dev/null)
printf '%s\n' "$go" | grep -q '^package main$' || { echo "no Go emitted"; exit 0; }
n=$(printf '%s\n' "$go" | grep -c '^func main0(')
if [ "$n" -ne 1 ]; then echo "WRONG: the emitted Go declares main0 $n times: $(printf '%s\n' "$go" | grep '^func main0(' | tr '\n' ';')"; exit 1; fi
echo "ok: one main0"; exit 0
