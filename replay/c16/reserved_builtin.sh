#!/bin/sh
# replay for C16 (packages are isolated): a directory `Builtin/` declaring `package Builtin` with its own `fn greet` — its items get
# unqualified global names like Main's, so Main's `greet()` silently ran the other package's body.  The reserved name must be rejected.
# exit 1 if the project is accepted.   usage: reserved_builtin.sh [compiler]
BIN=${1:-/repo/target/debug/compiler}
D=$(dirname "$0")
out=$("$BIN" run --dump-go "$D/builtin_named/main.gom" 2>&1)
if echo "$out" | grep -q "reserved"; then echo "ok: user package named Builtin rejected"; exit 0; fi
echo "WRONG: a user package named Builtin was accepted: $(echo "$out" | grep -m1 'ret[0-9]* = "from')"; exit 1
