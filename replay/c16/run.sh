#!/bin/sh
# replay for C16 (packages are isolated): Lib/a.gom declares `package Lib`, Lib/b.gom declares another package (`Other` / `Main`).
# The stray file must be reported (`package mismatch`), not merged into the program under the other package's name.
# exit 1 if a project is accepted without that diagnostic.   usage: run.sh [path-to-compiler-binary]
BIN=${1:-/repo/target/debug/compiler}
D=$(dirname "$0")
rc=0
for p in project_ghost_other project_ghost_main; do
  out=$("$BIN" run --dump-go "$D/$p/main.gom" 2>&1)
  if echo "$out" | grep -q "package mismatch in .*: expected"; then echo "ok $p: mismatched package declaration reported"
  else echo "WRONG $p: no 'package mismatch' diagnostic: $(echo "$out" | grep -v 'failed to execute go' | head -2 | tr '\n' ' ')"; rc=1; fi
done
exit $rc
