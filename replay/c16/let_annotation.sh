#!/bin/sh
# replay for C16 (a package may only name packages it imports): Main imports A only, yet writes `let x: B::X = A::mk();`.
# The annotation is a type position like any other: it must be rejected with "package B not imported".   exit 1 if accepted.
# usage: let_annotation.sh [compiler]
BIN=${1:-/repo/target/debug/compiler}
D=$(dirname "$0")
out=$("$BIN" run --dump-go "$D/let_annotation/main.gom" 2>&1)
if echo "$out" | grep -q "package B not imported"; then echo "ok: unimported package in a let annotation rejected"; exit 0; fi
echo "WRONG: let annotation names package B, which Main does not import, and it was accepted"; exit 1
