#!/bin/sh
# replay for C16 (one implementation per trait and type): in package Main, `impl Display for Point` followed by
# `impl Main::Display for Point` (same trait once it is resolved; in one file / in two files) must be rejected ("already defined"),
# not accepted with the later impl silently replacing the earlier one.   exit 1 if accepted.   usage: dup_impl.sh [compiler]
BIN=${1:-/repo/target/debug/compiler}
D=$(dirname "$0")
rc=0
for p in dup_main_qualified split_files; do
  out=$("$BIN" run --dump-go "$D/$p/main.gom" 2>&1)
  if echo "$out" | grep -q "already defined"; then echo "ok $p: duplicate implementation rejected"
  else echo "WRONG $p: duplicate implementation accepted"; rc=1; fi
done
exit $rc
