#!/bin/sh
# replay for C16 (U-TYGATE: every type written in a definition goes through the import gate): package Stream declares
# `trait Source { fn next(Self) -> Tokens::Tok; }` without importing Tokens; Main declares a trait over `Ghost::Item` (no such package).
# exit 1 if one of the two programs is accepted.   usage: trait_sig_imports.sh [compiler-binary]
BIN=${1:-/repo/target/debug/compiler}
D=$(dirname "$0")/trait_sig
rc=0
out=$("$BIN" run --dump-go "$D/project/main.gom" 2>&1)
if printf '%s\n' "$out" | grep -q "package Tokens not imported in package Stream"; then echo "ok: Tokens::Tok in a trait signature of Stream is rejected (not imported)"
else echo "WRONG: accepted although package Stream names Tokens::Tok without importing Tokens"; rc=1; fi
out=$("$BIN" run --dump-go "$D/ghost/main.gom" 2>&1)
if printf '%s\n' "$out" | grep -q "package Ghost not imported in package Main"; then echo "ok: Ghost::Item in a trait signature of Main is rejected"
else echo "WRONG: accepted although package Ghost does not exist and is not imported"; rc=1; fi
exit $rc
