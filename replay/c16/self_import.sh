#!/bin/sh
# replay for C16 (import cycles are errors): `package A; import A` must be reported as a cycle by the separate drivers (`check`, `build`)
# as it is by `run`.   exit 1 if `check --package A` or `build --package A` succeeds.   usage: self_import.sh [compiler]
BIN=${1:-/repo/target/debug/compiler}
D=$(cd "$(dirname "$0")" && pwd)
T=$(mktemp -d)
rc=0
for mode in check build; do
  if [ $mode = check ]; then out=$("$BIN" check --package A --input "$D/self_import/A/lib.gom" --output "$T/A.interface" 2>&1); st=$?
  else out=$("$BIN" build --package A --input "$D/self_import/A/lib.gom" --output "$T/A" 2>&1); st=$?; fi
  if [ $st -ne 0 ] && echo "$out" | grep -q "cycle"; then echo "ok $mode: self-import reported as a cycle"
  else echo "WRONG $mode: package A imports itself and was accepted (exit $st)"; rc=1; fi
done
rm -rf "$T"
exit $rc
