// Replay search for parser/lexer obligations (C04, C12): run against the real code of the tree under check.
// Copied by vlib/replaysearch.py into <scratch copy>/crates/parser/tests/ and run with
//   cargo test -p parser --offline --test verif_search -- --nocapture
// Prints `WITNESS kind=<panic|hang|lossy|range|nondeterministic> input=<debug-escaped text>` for the first failing input
// of each kind and `SEARCHED n` at the end.  Budget from VERIF_SEARCH_SECS (default 60), seed from VERIF_SEED.
use std::path::Path;
use std::sync::mpsc;
use std::time::{Duration, Instant};

fn check(src: &str) -> Option<&'static str> {
    let s = src.to_string();
    let (tx, rx) = mpsc::channel();
    std::thread::Builder::new()
        .stack_size(64 << 20)
        .spawn(move || {
            let r = std::panic::catch_unwind(|| {
                let a = parser::parse(Path::new("x.gom"), &s);
                let root: parser::syntax::MySyntaxNode = rowan::SyntaxNode::new_root(a.green_node.clone());
                if root.text().to_string() != s {
                    return Some("lossy");
                }
                for d in a.diagnostics.iter() {
                    if let Some(r) = d.range() {
                        let (st, en): (usize, usize) = (r.start().into(), r.end().into());
                        if st > en || en > s.len() || !s.is_char_boundary(st) || !s.is_char_boundary(en) {
                            return Some("range");
                        }
                    }
                }
                let b = parser::parse(Path::new("x.gom"), &s);
                if a.green_node != b.green_node {
                    return Some("nondeterministic");
                }
                None
            });
            let _ = tx.send(match r { Ok(v) => v, Err(_) => Some("panic") });
        })
        .unwrap();
    match rx.recv_timeout(Duration::from_secs(3)) {
        Ok(v) => v,
        Err(_) => Some("hang"),
    }
}

struct Rng(u64);
impl Rng {
    fn next(&mut self) -> u64 { self.0 ^= self.0 << 13; self.0 ^= self.0 >> 7; self.0 ^= self.0 << 17; self.0 }
    fn pick<'a>(&mut self, xs: &[&'a str]) -> &'a str { xs[(self.next() % xs.len() as u64) as usize] }
}

#[test]
fn verif_search() {
    std::panic::set_hook(Box::new(|_| {}));
    let budget = std::env::var("VERIF_SEARCH_SECS").ok().and_then(|s| s.parse().ok()).unwrap_or(60u64);
    let seed = std::env::var("VERIF_SEED").ok().and_then(|s| s.parse::<u64>().ok()).unwrap_or(1) | 1;
    let t0 = Instant::now();
    let mut seen = std::collections::BTreeSet::new();
    let mut n = 0usize;
    let mut report = |kind: &'static str, src: &str, seen: &mut std::collections::BTreeSet<&'static str>| {
        if seen.insert(kind) {
            println!("WITNESS kind={} input={:?}", kind, src);
        }
        if kind == "hang" {
            // the hung parser thread keeps allocating: stop the whole search now
            println!("SEARCHED (stopped at first hang)");
            std::process::exit(0);
        }
    };
    let toks = ["fn", "main", "(", ")", "{", "}", "[", "]", "->", "unit", "let", "x", "=", "1", ";", ",", "match", "=>", "|", "||", "if", "else",
                "while", "go", "struct", "enum", "trait", "impl", "for", "::", ":", "int32", "\"s\"", "\\\\ a\n", " ", "\n", "// c\n", "#", "!", "-", "+", "*", ".", "_",
                "true", "extern", "package", "import", "dyn", "é", "@", "A", "1i8", "1.5", "<", ">", "==", "&&"];
    // (1) nesting families: fuel / recursion / unwinding behaviour depends on depth
    let opens = ["(", "[", "-", "!", "f(", "A::", "a.", "|x| ", "if a { b } else ", "(int32, ", "Vec[", "[int32; ", "match x { A => ", "{ ", "S { a: ", "while a "];
    let heads = ["fn main() -> unit { let a = ", "fn f() -> ", "fn f(x: ", "struct T {} impl T { fn f() -> ", "impl ", "enum E { A(", "fn main() -> unit { match x { ", "trait Tr { fn f(", "fn main() -> unit { let "];
    let tails = ["x", "int32", ""];
    let ends = ["", " fn g() -> unit { () }", " }", "; }", " struct Q {}", " impl Q {}", " enum Q {}", " for T {}", " ) fn g() {}", " => 1 }", ")", "]", "|", ","];
    'outer: for step in [1usize, 31, 32, 63, 64, 85, 126, 127, 128, 255, 256, 257, 2, 3, 7, 15, 16, 40, 100, 130] {
        for h in heads.iter() { for o in opens.iter() { for t in tails.iter() { for e in ends.iter() {
            if t0.elapsed().as_secs() > budget / 2 { break 'outer; }
            let src = format!("{}{}{}{}", h, o.repeat(step), t, e);
            n += 1;
            if let Some(k) = check(&src) { report(k, &src, &mut seen); }
        }}}}
    }
    // (2) random token soup and truncations of it
    let mut rng = Rng(seed.wrapping_mul(0x9E3779B97F4A7C15));
    while t0.elapsed().as_secs() < budget {
        let len = 1 + (rng.next() % 24) as usize;
        let mut src = String::new();
        for _ in 0..len { src.push_str(rng.pick(&toks)); if rng.next() % 3 != 0 { src.push(' '); } }
        n += 1;
        if let Some(k) = check(&src) { report(k, &src, &mut seen); }
        if seen.len() >= 3 { break; }
    }
    println!("SEARCHED {}", n);
}
