#!/bin/sh
# replay for C03, U-OPTYPES (fix f718b67): `V { x: 1 } + V { x: 2 }` on a struct must be a type diagnostic — it was accepted and emitted as Go `t4 + t5` on struct values.
# exit 1 if the program is accepted.   usage: struct_operands.sh [compiler]
BIN=${1:-/repo/target/debug/compiler}
D=$(cd "$(dirname "$0")/struct_operands" && pwd)
out=$("$BIN" run --dump-go "$D/main.gom" 2>&1)
if echo "$out" | grep -q "^error"; then echo "ok: rejected: $(echo "$out" | grep -m1 '^error')"; exit 0; fi
echo "WRONG: + on struct operands is accepted: $(echo "$out" | grep -m1 -E 'var r__[0-9]+ V = ' | tr -s ' ')"; exit 1
