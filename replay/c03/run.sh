#!/bin/sh
# replay for C03 / C04 (acceptance is type-sound; the compiler never crashes): `match n { true => 1, false => 0 }` with n: int32 is
# ill-typed and must be rejected with a type error — not accepted and then crash the compiler.   exit 1 on a panic or acceptance.
# usage: run.sh [path-to-compiler-binary]
BIN=${1:-/repo/target/debug/compiler}
D=$(dirname "$0")
out=$("$BIN" run --dump-go "$D/bool_pattern_on_int/main.gom" 2>&1)
if echo "$out" | grep -q "panicked"; then echo "CRASH: $(echo "$out" | grep -m1 -A1 panicked | tr '\n' ' ')"; exit 1; fi
if echo "$out" | grep -q "Types are not equal"; then echo "ok: the ill-typed pattern is a type error"; exit 0; fi
echo "WRONG: a bool pattern against an int32 scrutinee was accepted"; exit 1
