#!/bin/sh
# replay for C03/C04 (an accepted program is well-typed in every stage; the compiler does not crash): a let annotation with a wrong number
# of type arguments (`Vec[Maybe[int32, string]]`, Maybe takes one) used to PANIC in mono.rs ("enum generic argument length mismatch"),
# and `let v: Vec[Nope] = vec_new();` was accepted and emitted `[]Nope`.  Both must be typer diagnostics.
# exit 1 on a panic or when the program is accepted.   usage: annotations.sh [compiler]
BIN=${1:-/repo/target/debug/compiler}
D=$(cd "$(dirname "$0")" && pwd)
rc=0
for p in annot_arity annot_unknown; do
  out=$("$BIN" run --dump-go "$D/$p/main.gom" 2>&1); st=$?
  if [ $st -ne 101 ] && echo "$out" | grep -q "^error (typer)"; then echo "ok $p: $(echo "$out" | grep -m1 '^error (typer)' | sed 's/.*main.gom: //')"
  else echo "WRONG $p (exit $st): $(echo "$out" | grep -m1 -E 'panicked|\[\]Nope|func main0')"; rc=1; fi
done
exit $rc
