#!/bin/sh
# replay for C10 / C09 (division by zero fails at run time): an UNUSED integer quotient `let _ = a / b` must still be evaluated in the
# emitted Go, at all eight integer types.   exit 1 if a d_<type> function lost its division.   usage: dead_division.sh [compiler]
BIN=${1:-/repo/target/debug/compiler}
D=$(dirname "$0")
go_text=$("$BIN" run --dump-go "$D/dead_division/main.gom" 2>/dev/null)
printf '%s\n' "$go_text" | grep -q '^func d_i8(' || { echo "no Go emitted"; exit 0; }
rc=0
for t in i8 i16 i32 i64 u8 u16 u32 u64; do
    body=$(printf '%s\n' "$go_text" | sed -n "/^func d_$t(/,/^}/p")
    if printf '%s\n' "$body" | grep -q ' / '; then echo "ok d_$t keeps its division"; else echo "WRONG: d_$t lost its division (a zero divisor no longer fails)"; rc=1; fi
done
exit $rc
