#!/bin/sh
# replay for C10 / C04 (an integer literal means what the typer accepted): an unsuffixed literal pattern matched against an int64 /
# uint8 scrutinee is accepted by the typer at that type; the compiler must emit `case 5:` / `case 200:` — not panic in the match
# compiler ("expected integer primitive pattern").   exit 1 on a crash or a missing case.   usage: run.sh [path-to-compiler-binary]
BIN=${1:-/repo/target/debug/compiler}
D=$(dirname "$0")
out=$("$BIN" run --dump-go "$D/int_pattern/main.gom" 2>&1)
if echo "$out" | grep -q "panicked"; then echo "CRASH: $(echo "$out" | grep -m1 -A1 panicked | tr '\n' ' ')"; exit 1; fi
echo "$out" | grep -q '^func f(' || { echo "no Go emitted"; exit 0; }
if echo "$out" | grep -q 'case 5:' && echo "$out" | grep -q 'case 200:'; then echo "ok: literal patterns compiled at the scrutinee's integer type"; exit 0; fi
echo "WRONG: expected \`case 5:\` and \`case 200:\` in the emitted Go"; exit 1
