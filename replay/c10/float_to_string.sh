#!/bin/sh
# witness for the C10 known finding: float32_to_string / float64_to_string of the emitted runtime use the integer verb `%d`
# (`fmt.Sprintf("%d", 27.25)` is `%!d(float64=27.25)`).   exit 1 while they do.   usage: float_to_string.sh [compiler]
BIN=${1:-/repo/target/debug/compiler}
D=$(cd "$(dirname "$0")/float_to_string" && pwd)
go=$("$BIN" run --dump-go "$D/main.gom" 2>/dev/null)
printf '%s\n' "$go" | grep -q '^package main$' || { echo "no Go emitted"; exit 0; }
bad=$(printf '%s\n' "$go" | sed -n '/^func float\(32\|64\)_to_string(/,/^}/p' | grep -c 'Sprintf("%d"')
if [ "$bad" -gt 0 ]; then echo "WRONG: $bad float to_string function(s) format with %d: $(printf '%s\n' "$go" | sed -n '/^func float64_to_string(/,/^}/p' | tr '\n' ' ')"; exit 1; fi
echo "ok: floats are not formatted with %d"; exit 0
