#!/usr/bin/env python3
"""Rewrite Lib.core / Main.core in DIR as a compiler with other version
constants would have written them: every version field is changed, every
interface_hash is recomputed and Main's pin of Lib is updated, so the set is
fully self-consistent.

usage: restamp.py DIR FORMAT_VERSION COMPILER_ABI
"""
import hashlib
import json
import sys


def interface_hash(iface):
    view = {
        k: iface[k]
        for k in (
            "format_version",
            "compiler_abi",
            "package",
            "exports",
            "hir_interface",
            "deps",
        )
    }
    data = json.dumps(view, separators=(",", ":"), ensure_ascii=False)
    return hashlib.sha256(data.encode("utf-8")).hexdigest()


def load(path):
    with open(path, encoding="utf-8") as f:
        return json.load(f)


def store(path, value):
    with open(path, "w", encoding="utf-8") as f:
        json.dump(value, f, indent=2, ensure_ascii=False)


def main():
    out, fmt, abi = sys.argv[1], int(sys.argv[2]), int(sys.argv[3])
    lib = load(f"{out}/Lib.core")
    main_ = load(f"{out}/Main.core")

    # sanity: this script reproduces the compiler's hash on untouched files
    for unit in (lib, main_):
        if interface_hash(unit["interface"]) != unit["interface"]["interface_hash"]:
            sys.exit("restamp.py cannot reproduce the compiler's interface hash")

    for unit in (lib, main_):
        unit["format_version"] = fmt
        unit["compiler_abi"] = abi
        unit["interface"]["format_version"] = fmt
        unit["interface"]["compiler_abi"] = abi

    lib["interface"]["interface_hash"] = interface_hash(lib["interface"])
    main_["interface"]["deps"]["Lib"] = lib["interface"]["interface_hash"]
    main_["deps"] = dict(main_["interface"]["deps"])
    main_["interface"]["interface_hash"] = interface_hash(main_["interface"])

    store(f"{out}/Lib.core", lib)
    store(f"{out}/Main.core", main_)


if __name__ == "__main__":
    main()
