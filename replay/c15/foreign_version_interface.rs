// Replay witness for C15 (U-ART obligations load_interface_from_paths.ensures / CoreUnit::validate.ensures).
// Place as crates/compiler/tests/foreign_version_interface.rs and run
//   cargo test -p compiler --offline --test foreign_version_interface
// Before the fix (commit "fix: reject interface files written by another format version") this test FAILS:
// an interface file written by format_version 99 with a self-consistent hash is accepted as a dependency.
use std::path::PathBuf;

use compiler::pipeline::separate;

#[test]
fn interface_of_another_format_version_is_rejected() {
    let root = PathBuf::from(env!("CARGO_MANIFEST_DIR")).join("src/tests/package/project002");
    let out = tempfile::tempdir().unwrap();
    let dir = out.path().to_path_buf();

    // build the leaf package Calc and write its interface as a *foreign-version* file with a consistent hash
    let util = separate::build_package(separate::PackageInputs {
        package: "Calc".to_string(),
        input_files: vec![root.join("Calc/lib.gom")],
        interface_paths: vec![dir.clone()],
    })
    .expect("Calc builds");
    let mut iface = util.interface.clone();
    iface.format_version = 99;
    iface.compiler_abi = 7;
    iface.interface_hash = iface.compute_hash();
    assert!(iface.validate_hash(), "the forged file is self-consistent");
    std::fs::write(dir.join("Calc.interface"), serde_json::to_string_pretty(&iface).unwrap()).unwrap();

    // a dependent package must not be checked against it
    let r = separate::check_package(separate::PackageInputs {
        package: "Util".to_string(),
        input_files: vec![root.join("Util/lib.gom")],
        interface_paths: vec![dir.clone()],
    });
    assert!(r.is_err(), "interface written by format_version 99 / abi 7 was accepted");

    // and a core unit embedding such an interface must not validate
    let mut core = util.clone();
    core.interface = iface;
    assert!(!core.validate(), "core unit with a foreign-version interface validated");
}
