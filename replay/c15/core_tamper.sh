#!/bin/sh
# replay for C15 ("interface and core files that were altered are rejected"): build Lib and Main, change ONE string literal inside the Core IR
# of Lib.core ("hi" -> "TAMPERED"), link.   exit 1 if the altered core is accepted (link succeeds and the altered literal is in the Go).
# usage: core_tamper.sh [compiler]
BIN=${1:-/repo/target/debug/compiler}
D=$(cd "$(dirname "$0")/core_tamper" && pwd)
T=$(mktemp -d)
"$BIN" build --package Lib --input "$D/lib.gom" --output "$T/Lib" >/dev/null 2>&1 || { echo "build Lib failed"; rm -rf "$T"; exit 0; }
"$BIN" build --package Main --input "$D/main.gom" --output "$T/Main" --interface-path "$T" >/dev/null 2>&1 || { echo "build Main failed"; rm -rf "$T"; exit 0; }
grep -q '"value": "hi"' "$T/Lib.core" || { echo "literal not found in Lib.core"; rm -rf "$T"; exit 0; }
sed 's/"value": "hi"/"value": "TAMPERED"/' "$T/Lib.core" > "$T/Lib_t.core"
"$BIN" link --input "$T/Lib_t.core" "$T/Main.core" --output "$T/out.go" >/dev/null 2>&1; st=$?
if [ $st -eq 0 ] && grep -q TAMPERED "$T/out.go"; then echo "WRONG: Lib.core with an altered Core IR was linked (exit 0): $(grep -m1 TAMPERED "$T/out.go")"; rm -rf "$T"; exit 1; fi
echo "ok: the altered core was rejected (exit $st)"; rm -rf "$T"; exit 0
