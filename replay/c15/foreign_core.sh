#!/bin/sh
# replay for C15 (core files written by another format version / ABI are rejected): builds Lib and Main, restamps BOTH cores and
# their embedded interfaces consistently with a foreign format_version / compiler_abi (recomputing the interface hashes and pins,
# restamp.py), and links them.   exit 1 if `link` accepts them.   usage: foreign_core.sh [path-to-compiler-binary]
BIN=${1:-/repo/target/debug/compiler}
D=$(dirname "$0")/foreign_core
status=0
try() {
    W=$(mktemp -d)
    "$BIN" build --package Lib --input "$D/lib.gom" --output "$W/Lib" >/dev/null 2>&1 || { rm -rf "$W"; return; }
    "$BIN" build --package Main --input "$D/main.gom" --output "$W/Main" --interface-path "$W" >/dev/null 2>&1 || { rm -rf "$W"; return; }
    python3 "$D/restamp.py" "$W" "$1" "$2" >/dev/null 2>&1 || { rm -rf "$W"; return; }
    if "$BIN" link --input "$W/Lib.core" "$W/Main.core" --output "$W/main.go" 2>"$W/stderr.txt"; then
        echo "WRONG: link accepted cores written with format_version=$1 compiler_abi=$2"; status=1
    else
        echo "ok: link rejected cores written with format_version=$1 compiler_abi=$2"
    fi
    rm -rf "$W"
}
try 2 1
try 0 1
try 1 2
exit $status
