#!/bin/sh
# replay for C12/C11 (token ranges are exact; a multi-line string denotes the characters written): the two-line multi-line string of
# multiline_string_test.rs saved with CRLF line endings.  The token used to end between `\r` and `\n`, so the value of the string's LAST line
# kept a stray `\r` ("second line\r") — the emitted program depended on the source file's line endings.   exit 1 if the `\r` is in the value.
# usage: multiline_crlf.sh [compiler]
BIN=${1:-/repo/target/debug/compiler}
D=$(cd "$(dirname "$0")/multiline_crlf" && pwd)
line=$("$BIN" run --dump-go "$D/main.gom" 2>/dev/null | grep -m1 'var s__0 string')
[ -z "$line" ] && { echo "no Go emitted"; exit 0; }
case "$line" in *'\r'*) echo "WRONG: the string value keeps the CR of the CRLF terminator: $line"; exit 1;; esac
echo "ok: $line"; exit 0
