#!/bin/sh
# replay for C12 (every position attached to a diagnostic lies within the text): main.gom is one line, its sibling other.gom has a syntax
# error on line 6.  The parse diagnostics of other.gom used to be rendered against main.gom's text: panic "invalid offset" (exit 101),
# or — with a longer entry file — a wrong file:line:col.   exit 1 unless the error is reported at other.gom 6:13.
# usage: sibling_parse_error.sh [compiler]
BIN=${1:-/repo/target/debug/compiler}
D=$(cd "$(dirname "$0")/sibling_parse_error" && pwd)
out=$("$BIN" run --dump-go "$D/main.gom" 2>&1); st=$?
if [ $st -ne 101 ] && echo "$out" | grep -q "other.gom: 6:13: let statement expected an expression"; then echo "ok: the error is positioned in other.gom"; exit 0; fi
echo "WRONG (exit $st): $(echo "$out" | grep -m1 -E 'panicked|invalid offset|error')"; exit 1
