#!/bin/sh
# replay for C11 (U-TYLOWER: `(T)` is the one-element tuple type, so `((A, B)) -> C` is a function of ONE pair):
# pair_callback/main.gom passes a closure over one pair to `apply(f: ((int32, int32)) -> int32, ..)`.
# exit 1 if the well-typed program is rejected or `apply`'s parameter is not a function of one tuple.   usage: pair_callback.sh [compiler-binary]
BIN=${1:-/repo/target/debug/compiler}
D=$(dirname "$0")
out=$("$BIN" run --dump-go "$D/pair_callback/main.gom" 2>&1)
if printf '%s\n' "$out" | grep -q "error (typer)"; then echo "WRONG: well-typed program rejected"; printf '%s\n' "$out" | grep "error (typer)" | head -3; exit 1; fi
if printf '%s\n' "$out" | grep -q "func apply(f__0 func(Tuple2_int32_int32) int32"; then echo "ok: the callback is a function of one pair"; exit 0; fi
if printf '%s\n' "$out" | grep -q "^func apply("; then echo "WRONG: apply's callback is not a function of one pair:"; printf '%s\n' "$out" | grep "^func apply("; exit 1; fi
echo "no Go emitted"; exit 0
