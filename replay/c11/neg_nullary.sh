#!/bin/sh
# replay for C11 (calls bind tighter than prefix operators): `let a = -next();` must call next (`-(next())`); the lowering used to drop the
# argument-less call and negate the function itself (`-next`), so `next` never ran and was even removed as dead code.
# exit 1 if the emitted Go contains no call of next.   usage: neg_nullary.sh [compiler]
BIN=${1:-/repo/target/debug/compiler}
D=$(dirname "$0")
out=$("$BIN" run --dump-ast --dump-go "$D/neg_nullary/main.gom" 2>&1)
echo "$out" | grep -q '^func main0(' || { echo "no Go emitted"; exit 0; }
if echo "$out" | grep -q 'let a = -next();' && echo "$out" | sed -n '/^func main0(/,$p' | grep -q 'next()'; then echo "ok: -next() calls next"; exit 0; fi
echo "WRONG: the call in -next() was dropped: $(echo "$out" | grep -m1 'let a =')"; exit 1
