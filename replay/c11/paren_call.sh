#!/bin/sh
# replay for C11 (source text is read as written): `(f)();`, `(get())();` and `(t.0)();` are calls; each must be emitted as a call.
# exit 1 if main0 contains fewer than three call statements of the function values.   usage: paren_call.sh [compiler]
BIN=${1:-/repo/target/debug/compiler}
D=$(dirname "$0")
body=$("$BIN" run --dump-go "$D/paren_call/main.gom" 2>/dev/null | sed -n '/^func main0(/,/^}/p')
[ -z "$body" ] && { echo "no Go emitted"; exit 0; }
n=$(printf '%s\n' "$body" | grep -c '^    [a-z_0-9]*()$')
if [ "$n" -ge 3 ]; then echo "ok: the three parenthesised callees are called ($n call statements)"; exit 0; fi
echo "WRONG: only $n of the three parenthesised calls are emitted: $(printf '%s\n' "$body" | tr '\n' ' ' | cut -c1-300)"; exit 1
