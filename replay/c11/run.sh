#!/bin/sh
# replay for C11 (literal fidelity in the CST->AST lowering): the emitted Go string constants must hold exactly the characters
# written: a single-line literal ending in \" keeps that quote; trailing spaces/tabs of multi-line string lines are kept.
# exit 1 if a constant differs.   usage: run.sh [path-to-compiler-binary]
BIN=${1:-/repo/target/debug/compiler}
D=$(dirname "$0")
rc=0
out=$("$BIN" run --dump-go "$D/escaped_quote/main.gom" 2>/dev/null)
printf '%s\n' "$out" | grep -F 'var a__0 string = "say \\\"hi\\\""' >/dev/null || { echo "WRONG single-line literal: $(printf '%s\n' "$out" | grep 'a__0 string')"; rc=1; }
out=$("$BIN" run --dump-go "$D/trailing_ws/main.gom" 2>/dev/null)
printf '%s\n' "$out" | grep -F 'var s__0 string = "name:  \ncol\t\n  \nend "' >/dev/null || { echo "WRONG multi-line literal: $(printf '%s\n' "$out" | grep 's__0 string')"; rc=1; }
[ $rc -eq 0 ] && echo "ok: both literals are emitted as written"
exit $rc
