#!/bin/sh
# replay for C11 (field access is left-associative and binds tightest): `let x = t.1.0;` with `t = (1, (2, 3))` is `(t.1).0`.
# The lexer reads `1.0` as one float token; the lowering must split it back.   exit 1 if the program is rejected
# ("Unsupported field access expression") or the projections come out in another order.   usage: tuple_nested.sh [compiler]
BIN=${1:-/repo/target/debug/compiler}
D=$(dirname "$0")
out=$("$BIN" run --dump-go "$D/tuple_nested/main.gom" 2>&1)
if echo "$out" | grep -q '= t__[0-9]*\._1$' && echo "$out" | grep -q 'var x__[0-9]* int32 = t[0-9]*\._0$'; then echo "ok: t.1.0 is (t.1).0"; exit 0; fi
echo "WRONG: t.1.0 not read as (t.1).0: $(echo "$out" | grep -m1 -E 'error|var x__')"; exit 1
