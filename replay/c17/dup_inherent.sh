#!/bin/sh
# replay for C17 (ambiguous method names are rejected, not resolved arbitrarily): `impl Shape { fn name .. "first" }` followed by a second
# `impl Shape { fn name .. "second" }` must be rejected ("already defined"), not accepted with the later body silently replacing the earlier.
# exit 1 if accepted.   usage: dup_inherent.sh [compiler]
BIN=${1:-/repo/target/debug/compiler}
D=$(dirname "$0")
out=$("$BIN" run --dump-go "$D/dup_inherent/main.gom" 2>&1)
if echo "$out" | grep -q "already defined"; then echo "ok: second definition of Shape::name rejected"; exit 0; fi
echo "WRONG: Shape::name defined in two impl blocks and accepted"; exit 1
