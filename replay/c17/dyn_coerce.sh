#!/bin/sh
# replay for C17/C04: `let d: dyn Show = A;` (an enum constructor coerced directly) and `let d: dyn Show = ref(1);` used to PANIC in the Go
# backend ("Expected a constructor type, got: TDyn(Show)" / "ref return type must be reference, got TDyn(Show)"): the typing table recorded
# the dyn type for the coerced expression itself.   exit 1 on a panic or when the inner value is not built at its own type.
# usage: dyn_coerce.sh [compiler]
BIN=${1:-/repo/target/debug/compiler}
D=$(cd "$(dirname "$0")" && pwd)
rc=0
for p in dyn_coerce_constructor dyn_coerce_ref; do
  out=$("$BIN" run --dump-go "$D/$p/main.gom" 2>&1); st=$?
  if [ $st -eq 101 ] || echo "$out" | grep -q panicked; then echo "CRASH $p: $(echo "$out" | grep -m1 -A1 panicked | tr '\n' ' ' | cut -c1-220)"; rc=1
  elif echo "$out" | grep -qE 'var t0 (E|\*ref_int32_x) = '; then echo "ok $p: $(echo "$out" | grep -m1 -E 'var t0 ')"
  else echo "WRONG $p: the coerced value is not built at its own type"; rc=1; fi
done
exit $rc
