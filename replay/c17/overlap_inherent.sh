#!/bin/sh
# replay for C17 (all call forms of a method agree; ambiguous method names are rejected): `impl Box[int32] { fn tag .. "exact" }` together with
# `impl[T] Box[T] { fn tag .. "generic" }` — `b.tag()` ran "exact", `Box::tag(b)` (and a call through a generic instance) ran "generic".
# The overlapping definition must be rejected.   exit 1 if the program is accepted.   usage: overlap_inherent.sh [compiler]
BIN=${1:-/repo/target/debug/compiler}
D=$(cd "$(dirname "$0")/overlap_inherent" && pwd)
out=$("$BIN" run --dump-go "$D/main.gom" 2>&1)
if echo "$out" | grep -q "overlaps a definition"; then echo "ok: the overlapping method definition is rejected"; exit 0; fi
echo "WRONG: exact and generic impl define the same method and the program is accepted: $(echo "$out" | grep -c '_tag') functions named tag"; exit 1
