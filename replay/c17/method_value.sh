#!/bin/sh
# replay for C17 / C04 (all call forms of a method agree; no crash): `let a = C::add; a(c, 1)` must bind the SAME Go function the
# call form `C::add(c, 1)` names (_goml_inherent_C_C_add), not panic in compile_expr.   exit 1 on a panic or another callee.
# usage: method_value.sh [path-to-compiler-binary]
BIN=${1:-/repo/target/debug/compiler}
D=$(dirname "$0")
out=$("$BIN" run --dump-go "$D/method_value/main.gom" 2>&1)
if echo "$out" | grep -q "panicked"; then echo "CRASH: $(echo "$out" | grep -m1 -A1 panicked | tr '\n' ' ')"; exit 1; fi
echo "$out" | grep -q '^func main0(' || { echo "no Go emitted"; exit 0; }
if echo "$out" | grep -q '= _goml_inherent_C_C_add$'; then echo "ok: the method value is _goml_inherent_C_C_add"; exit 0; fi
echo "WRONG: the method value is not the inherent method's function"; exit 1
