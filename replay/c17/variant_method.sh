#!/bin/sh
# replay for C17 (all call forms of a method agree; ambiguous method names are rejected): `enum Tree { leaf, dup(Tree) }` with
# `impl Tree { fn dup(self: Tree) -> Tree }` — `x.dup()` ran the method, `Tree::dup(x)` silently built the variant (fix 741d131).
# The definition must be rejected.   exit 1 if the program is accepted.   usage: variant_method.sh [compiler]
BIN=${1:-/repo/target/debug/compiler}
D=$(cd "$(dirname "$0")/variant_method" && pwd)
out=$("$BIN" run --dump-go "$D/main.gom" 2>&1)
if echo "$out" | grep -q "has the name of one of its variants"; then echo "ok: a method named like a variant of its enum is rejected"; exit 0; fi
if echo "$out" | grep -q "^error"; then echo "ok: rejected: $(echo "$out" | grep -m1 '^error')"; exit 0; fi
echo "WRONG: x.dup() and Tree::dup(x) run different code: $(echo "$out" | grep -E 'var (a|b)__[0-9]+ Tree' | tr -s ' ' | tr '\n' ';')"; exit 1
