#!/bin/sh
# witness for C17 / U-DYNPAYLOAD (fix 5fb4b72): `let d: dyn Show = 5;` must store `int32(5)` in the dyn value's `data any` field — a bare `5` there has Go's
# default type int and the wrapper's `self.(int32)` panics at run time.   exit 1 when a bare numeric literal is stored.   usage: dyn_numeric_literal.sh [compiler]
BIN=${1:-/repo/target/debug/compiler}
D=$(cd "$(dirname "$0")/dyn_numeric_literal" && pwd)
go=$("$BIN" run --dump-go "$D/main.gom" 2>/dev/null)
printf '%s\n' "$go" | grep -q '^package main$' || { echo "no Go emitted"; exit 0; }
bad=$(printf '%s\n' "$go" | grep -E '^[[:space:]]+data: -?[0-9][0-9.]*,' | head -3 | tr '\n' ' ')
if [ -n "$bad" ]; then echo "WRONG: an untyped numeric constant is stored in a dyn value: $bad"; exit 1; fi
echo "ok: $(printf '%s\n' "$go" | grep -m1 'data: ')"; exit 0
