#!/bin/sh
# witness for C17 / C02, U-DYNIMPL (fix 895aff6): `impl Show for Box[int32]` + `let d: dyn Show = b; Show::show(d)` — every function a dyn wrapper calls
# must be defined in the emitted Go (the wrapper named the impl after the collapsed type `Box__int32`, the definition is named after `Box[int32]`).
# exit 1 when a wrapper calls an undefined function.   usage: dyn_generic_instance.sh [compiler]
BIN=${1:-/repo/target/debug/compiler}
D=$(cd "$(dirname "$0")/dyn_generic_instance" && pwd)
go=$("$BIN" run --dump-go "$D/main.gom" 2>/dev/null)
printf '%s\n' "$go" | grep -q '^package main$' || { echo "no Go emitted"; exit 0; }
bad=""
for f in $(printf '%s\n' "$go" | grep -oE 'return _goml_trait_impl_[A-Za-z0-9_]+\(' | sed -e 's/^return //' -e 's/($//' | sort -u); do
  printf '%s\n' "$go" | grep -q "^func $f(" || bad="$bad $f"
done
if [ -n "$bad" ]; then echo "WRONG: a dyn wrapper calls a function the program does not define:$bad"; exit 1; fi
echo "ok: every impl function a dyn wrapper calls is defined"; exit 0
