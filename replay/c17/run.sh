#!/bin/sh
# replay for C17 (coercion to dyn): a value passed where `dyn Tick` is expected, inside nested calls, must be wrapped into a
# dyn object exactly once.   exit 1 if the emitted Go builds more than one dyn__Tick{..} literal for it.
# usage: run.sh [path-to-compiler-binary]
BIN=${1:-/repo/target/debug/compiler}
D=$(dirname "$0")
n=$("$BIN" run --dump-go "$D/dyn_arg_once/main.gom" 2>/dev/null | grep -c "dyn__Tick{")
if [ "$n" -eq 1 ]; then echo "ok: wrapped once"; exit 0; fi
echo "WRONG: $n dyn__Tick{..} literals for one coercion (nested wrappers: the method wrapper's type assertion would fail at run time)"; exit 1
