#!/bin/sh
# replay for C17 (all call forms agree; ambiguous names are rejected), U-TRAITNAME (fix a9997ff): `trait Show`, `struct Show`, `impl Show for Show` and
# `impl Show { fn show }` — `s.show()` ran the inherent method, `Show::show(s)` the trait implementation. The clash must be rejected.
# exit 1 if the program is accepted.   usage: trait_type_name.sh [compiler]
BIN=${1:-/repo/target/debug/compiler}
D=$(cd "$(dirname "$0")/trait_type_name" && pwd)
out=$("$BIN" run --dump-go "$D/main.gom" 2>&1)
if echo "$out" | grep -q "^error"; then echo "ok: rejected: $(echo "$out" | grep -m1 '^error')"; exit 0; fi
echo "WRONG: a trait and a struct share a name and the program is accepted: $(echo "$out" | grep -oE '_goml_(inherent|trait_impl)_Show_Show_show\(' | sort -u | tr '\n' ' ')"; exit 1
