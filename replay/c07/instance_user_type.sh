#!/bin/sh
# witness for the C07 / C19 defect repaired by "fix: an instance of a generic type is never named like a type of the program":
#   struct Box[T] { v: T }   struct Box__int32 { w: string }   Box { v: 1 }   Box__int32 { w: "x" }
# Before the fix the instance of Box at int32 was also called Box__int32: one definition replaced the other and the emitted Go declared
# `type Box__int32 struct` twice (both with the user's field, the instance's field `v` gone).   exit 1 while some `type Box..` is declared twice.
# usage: instance_user_type.sh [compiler]
BIN=${1:-/repo/target/debug/compiler}
D=$(cd "$(dirname "$0")/instance_user_type" && pwd)
go=$("$BIN" run --dump-go "$D/main.gom" 2>/dev/null)
printf '%s\n' "$go" | grep -q '^func main0(' || { echo "no Go emitted"; exit 0; }
dup=$(printf '%s\n' "$go" | grep -o '^type Box[A-Za-z0-9_]* struct' | sort | uniq -d)
if [ -n "$dup" ]; then echo "WRONG: declared twice: $dup"; exit 1; fi
printf '%s\n' "$go" | grep -q 'v int32' || { echo "WRONG: the instance of Box at int32 (field v int32) is not emitted"; exit 1; }
echo "ok: the instance and the user's struct are two types"; exit 0
