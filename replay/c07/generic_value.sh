#!/bin/sh
# replay for C07 (every reachable instantiation is generated): a generic function (`let g = id;`, `apply(id, 3)`) and a generic inherent method
# (`apply(Box::get, ..)`) used as VALUES.  They used to keep their unspecialised names (`id`, `_goml_inherent_Box_Box_get`) in the emitted Go
# while no function of that name was emitted.   exit 1 if the Go refers to a function it does not define.   usage: generic_value.sh [compiler]
BIN=${1:-/repo/target/debug/compiler}
D=$(cd "$(dirname "$0")/generic_value" && pwd)
go=$("$BIN" run --dump-go "$D/main.gom" 2>/dev/null)
printf '%s\n' "$go" | grep -q '^func main0(' || { echo "no Go emitted"; exit 0; }
rc=0
for use in $(printf '%s\n' "$go" | grep -oE '= (id[A-Za-z0-9_]*)$|\((_goml_inherent_Box[A-Za-z0-9_]*get[A-Za-z0-9_]*),' | sed -E 's/^= //; s/^\(//; s/,$//' | sort -u); do
  if printf '%s\n' "$go" | grep -q "^func $use("; then echo "ok: $use is defined"; else echo "WRONG: the Go uses $use as a value but defines no such function"; rc=1; fi
done
exit $rc
