#!/bin/sh
# replay for C07 (monomorphisation): a Vec of a generic enum instance must compile without a panic in the Go backend.
# exit 1 if the compiler panics.   usage: run.sh [path-to-compiler-binary]
BIN=${1:-/repo/target/debug/compiler}
D=$(dirname "$0")
out=$("$BIN" run --dump-go "$D/collapse/main.gom" 2>&1); code=$?
if [ "$code" -ge 100 ] || echo "$out" | grep -q "panicked at"; then echo "PANIC (exit $code): $(echo "$out" | grep -A1 'panicked at' | tr '\n' ' ')"; exit 1; fi
echo "ok: no panic (exit $code)"; exit 0
