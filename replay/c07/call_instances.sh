#!/bin/sh
# replay for C07 (call-site instances): two calls of `left[A,B](x: A) -> Either[A,B]` with the same argument type but different
# result types must get two instances, each call naming its own.   exit 1 if not.   usage: call_instances.sh [compiler-binary]
BIN=${1:-/repo/target/debug/compiler}
D=$(dirname "$0")
out=$("$BIN" run --dump-go "$D/either_left/main.gom" 2>&1)
fail=0
echo "$out" | grep -q '^func left__A_int32__B_string(' || { echo "missing instance left__A_int32__B_string"; fail=1; }
echo "$out" | grep -q '^func left__A_int32__B_bool(' || { echo "missing instance left__A_int32__B_bool"; fail=1; }
echo "$out" | grep -q 'Either__int32__bool = left__A_int32__B_bool(2)' || { echo "the call at Either[int32, bool] does not use its own instance: $(echo "$out" | grep 'left__A_int32' | head -3 | tr '\n' ' ')"; fail=1; }
[ $fail -eq 0 ] && echo "ok: both instances generated and used" && exit 0
exit 1
