#!/bin/sh
# replay for C07: a generic function used as a VALUE from inside another generic function (`fn via[U](x: U) -> U { apply(id, x) }`), at a type that
# mentions the enclosing function's type parameter: the value must name the instance for the substituted type (id__T_int32, id__T_string).
# exit 1 if the Go passes a function value that it does not define.   usage: generic_value_in_generic.sh [compiler]
BIN=${1:-/repo/target/debug/compiler}
D=$(cd "$(dirname "$0")/generic_value_in_generic" && pwd)
go=$("$BIN" run --dump-go "$D/main.gom" 2>/dev/null)
printf '%s\n' "$go" | grep -q '^func main0(' || { echo "no Go emitted"; exit 0; }
rc=0
for use in $(printf '%s\n' "$go" | grep -oE "\((id[A-Za-z0-9_]*),|= (id[A-Za-z0-9_]*)$" | sed -E "s/^= //; s/^\(//; s/,$//" | sort -u); do
  if printf '%s\n' "$go" | grep -q "^func $use("; then echo "ok: $use is defined"; else echo "WRONG: the Go uses $use as a value but defines no such function"; rc=1; fi
done
exit $rc
