#!/bin/sh
# replay for C07/C04 (no residue of generics; the compiler does not crash): a NON-generic `struct S { o: Opt[int64], n: int32 }` /
# `enum E { A(Opt[string]), B }` used to panic in go/goast.rs ("generic types not supported in Go backend": the field type of a non-generic
# definition was never specialised).   exit 1 on a panic or when the field is not the instance type.   usage: field_type_app.sh [compiler]
BIN=${1:-/repo/target/debug/compiler}
D=$(cd "$(dirname "$0")" && pwd)
rc=0
for p in field_type_app field_type_app_enum; do
  out=$("$BIN" run --dump-go "$D/$p/main.gom" 2>&1); st=$?
  if [ $st -eq 101 ] || echo "$out" | grep -q panicked; then echo "CRASH $p: $(echo "$out" | grep -m1 -A1 panicked | tr '\n' ' ' | cut -c1-200)"; rc=1
  elif echo "$out" | grep -qE 'Opt__(int64|string)$'; then echo "ok $p: $(echo "$out" | grep -m1 -E 'Opt__(int64|string)$')"
  else echo "WRONG $p: no field of the instance type"; rc=1; fi
done
exit $rc
