#!/bin/bash
# witness for C18 / U-DERIVE (fix 625b472): a type the derive ACCEPTS must not be rejected by a later stage because of the generated code.
#   tup: a struct with a tuple field (fix 64a7fcd: rejected by the derive itself)
#   ts: #[derive(ToString)] struct P { x: float64, ok: bool, n: int64 }      tj: #[derive(ToJson)] struct Q { x: float64, ok: bool, n: uint8, u: unit }
# exit 1 when the compiler accepts the derive and then reports an error for the generated method.   usage: prim_fields.sh [compiler]
BIN=${1:-/repo/target/debug/compiler}
D=$(cd "$(dirname "$0")/prim_fields" && pwd)
st=0
for c in ts tj tup; do
  out=$("$BIN" run --dump-go "$D/$c/main.gom" 2>&1)
  if grep -q '^error.*#\[derive(' <<<"$out"; then echo "$c: rejected by the derive itself (its own diagnostic)"; continue; fi
  if grep -q '^error' <<<"$out"; then echo "WRONG: $c: accepted by the derive, rejected later: $(grep -m1 '^error' <<<"$out")"; st=1; fi
done
[ $st = 0 ] && echo "ok: the derived methods type-check"
exit $st
