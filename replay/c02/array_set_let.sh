#!/bin/sh
# witness for C02 / C03 / U-ARRSET (fix a3a107c): `let b = array_set(a, 0, 5)` must give b the length of a, not the wildcard length usize::MAX.
# exit 1 when the emitted Go mentions an array of length 18446744073709551615.   usage: array_set_let.sh [compiler]
BIN=${1:-/repo/target/debug/compiler}
D=$(cd "$(dirname "$0")/array_set_let" && pwd)
go=$("$BIN" run --dump-go "$D/main.gom" 2>/dev/null)
printf '%s\n' "$go" | grep -q '^package main$' || { echo "no Go emitted"; exit 0; }
if printf '%s\n' "$go" | grep -q '18446744073709551615'; then echo "WRONG: $(printf '%s\n' "$go" | grep -m1 '18446744073709551615')"; exit 1; fi
echo "ok: the result of array_set has the length of its argument"; exit 0
