#!/bin/bash
# witness for C02 / U-RTTYPES: every `TupleN_..` type the emitted Go names must be defined in it (`type TupleN_.. struct`).
#   def_only: enum Shape { Dot, Seg((int32, int32)) } with only Dot ever used  (fix 1be137e)
#   vec_elem: a Vec[(int32, int32)] that is only passed along                 (fix 4b66626)
# exit 1 when an emitted file names an undefined Tuple type.   usage: undefined_tuple.sh [compiler]
BIN=${1:-/repo/target/debug/compiler}
D=$(cd "$(dirname "$0")/undefined_tuple" && pwd)
st=0
for c in def_only vec_elem; do
  go=$("$BIN" run --dump-go "$D/$c/main.gom" 2>/dev/null)
  grep -q '^package main$' <<<"$go" || { echo "$c: no Go emitted"; continue; }
  for t in $(grep -o 'Tuple[0-9]\+_[A-Za-z0-9_]*' <<<"$go" | sort -u); do
    grep -q "^type $t struct" <<<"$go" || { echo "WRONG: $c: the emitted Go names $t but does not define it"; st=1; }
  done
done
[ $st = 0 ] && echo "ok: every Tuple type named is defined"
exit $st
