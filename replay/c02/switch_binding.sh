#!/bin/sh
# witness for C02 / U-SWBIND (fix 829fa0d): Go rejects `switch x := e.(type)` when no clause uses x.  Two matches in a row on the same enum value,
# the first binding no payload.   exit 1 when the emitted Go has a type switch whose binding occurs in none of its clauses.   usage: switch_binding.sh [compiler]
BIN=${1:-/repo/target/debug/compiler}
D=$(cd "$(dirname "$0")/switch_binding" && pwd)
"$BIN" run --dump-go "$D/main.gom" 2>/dev/null | python3 -c '
import re, sys
go = sys.stdin.read()
if "package main" not in go:
    print("no Go emitted"); sys.exit(0)
bad = 0
for m in re.finditer(r"switch (\w+) := \w+\.\(type\) \{", go):
    depth, i = 1, m.end()
    while depth and i < len(go):
        depth += {"{": 1, "}": -1}.get(go[i], 0); i += 1
    body = go[m.end():i]
    if not re.search(r"\b" + re.escape(m.group(1)) + r"\b", body):
        print("WRONG: type switch binds", m.group(1), "but no clause uses it"); bad = 1
print("ok: every type-switch binding is used" if not bad else "", end="")
sys.exit(bad)'
