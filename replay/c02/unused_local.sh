#!/bin/sh
# witness search for C02 / U-DCELIVE (no local variable is left unused): `let _ = if n > 100 { "big" } else { "small" };` — once both branches are dead, the
# condition's temporary must go with the `if` (or the `if` must stay). Lists every local declared with `var NAME T = ..` whose name occurs nowhere else in the
# emitted Go (an assignment `NAME = ..` is not a use).   exit 1 when there is one.   usage: unused_local.sh [compiler]
BIN=${1:-/repo/target/debug/compiler}
D=$(cd "$(dirname "$0")/unused_local" && pwd)
go=$("$BIN" run --dump-go "$D/main.gom" 2>/dev/null)
printf '%s\n' "$go" | grep -q '^package main$' || { echo "no Go emitted"; exit 0; }
unused=$(printf '%s\n' "$go" | awk '
    { lines[NR] = $0 }
    /^ +var [A-Za-z_][A-Za-z0-9_]* / { decl[$2] = NR }
    END {
        for (name in decl) {
            n = 0
            for (i = 1; i <= NR; i++) {
                if (i == decl[name]) continue
                s = lines[i]
                if (s ~ ("^ *" name " = ")) sub("^ *" name " = ", "", s)
                if (s ~ ("(^|[^A-Za-z0-9_])" name "([^A-Za-z0-9_]|$)")) n++
            }
            if (n == 0) print name
        }
    }')
if [ -n "$unused" ]; then echo "WRONG: declared and not used in the emitted Go: $(echo $unused)"; exit 1; fi
echo "ok: every declared local is used"; exit 0
