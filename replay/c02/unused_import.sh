#!/bin/bash
# witness for C02 / U-GOPKGS: Go rejects a file that imports a package it never refers to, and one that refers to a package it does not import.
# Three programs (no output at all; an extern "go" function called only from unreachable code; a control that prints) are compiled with
# `run --dump-go`; every imported package must occur as `<name>.` in the emitted code and every `fmt.` / `strings.` use must be imported.
#   alias_only: an extern type whose functions are never called (`type Time = time.Time` needs the import; fix cec87b0)
# exit 1 when an emitted file breaks the rule.   usage: unused_import.sh [compiler]
BIN=${1:-/repo/target/debug/compiler}
D=$(cd "$(dirname "$0")/unused_import" && pwd)
st=0
for c in no_output dead_extern_caller control_printing alias_only; do
  go=$("$BIN" run --dump-go "$D/$c/main.gom" 2>/dev/null | sed '1{/^== Go ==$/d}')
  grep -q '^package main$' <<<"$go" || { echo "$c: no Go emitted"; continue; }
  imports=$(awk '/^import \($/{f=1;next} f&&/^\)$/{f=0} f{gsub(/[" ]/,""); print}' <<<"$go")
  body=$(awk '/^import \($/{f=1;next} f&&/^\)$/{f=0;next} !f{print}' <<<"$go")
  for path in $imports; do
    name="${path##*/}"
    grep -Eq "(^|[^A-Za-z0-9_.])${name}\." <<<"$body" || { echo "WRONG: $c: \"$path\" imported and not used"; st=1; }
  done
  for name in fmt strings time; do
    if grep -Eq "(^|[^A-Za-z0-9_.\"])${name}\.[A-Z]" <<<"$body" && ! grep -qx "$name" <<<"$imports"; then echo "WRONG: $c: $name used but not imported"; st=1; fi
  done
done
[ $st = 0 ] && echo "ok: every emitted file imports exactly what it uses"
exit $st
