#!/bin/sh
# witness for C02 / C19 / U-VARNAME (fix c4055f8): `enum Expr { Lit(Lit), Neg(Expr) }` — the variant Lit and the enum type Lit must not both become `type Lit`.
# exit 1 when the emitted Go declares a package-level type twice.   usage: variant_named_as_type.sh [compiler]
BIN=${1:-/repo/target/debug/compiler}
D=$(cd "$(dirname "$0")/variant_named_as_type" && pwd)
go=$("$BIN" run --dump-go "$D/main.gom" 2>/dev/null)
printf '%s\n' "$go" | grep -q '^package main$' || { echo "no Go emitted"; exit 0; }
dups=$(printf '%s\n' "$go" | sed -n 's/^type \([^ ]*\) .*/\1/p' | sort | uniq -d | tr '\n' ' ')
if [ -n "$dups" ]; then echo "WRONG: Go types declared more than once: $dups"; exit 1; fi
echo "ok: all emitted Go type names are distinct"; exit 0
