#!/bin/sh
# witness for C02 / U-DYNVT: a trait method named like a Go predeclared identifier (`len`): the vtable struct declares the field `_goml_len`; the literal of
# the vtable constructor and the dynamic call must use the same name.  exit 1 when the literal's key or the call's selector is not a declared field.
# usage: dyn_reserved_method.sh [compiler]
BIN=${1:-/repo/target/debug/compiler}
D=$(cd "$(dirname "$0")/dyn_reserved_method" && pwd)
go=$("$BIN" run --dump-go "$D/main.gom" 2>/dev/null)
printf '%s\n' "$go" | grep -q '^package main$' || { echo "no Go emitted"; exit 0; }
decl=$(printf '%s\n' "$go" | sed -n '/^type dyn__Container_vtable struct {/,/^}/p' | sed -n '2p' | awk '{print $1}')
used=$(printf '%s\n' "$go" | sed -n '/return &dyn__Container_vtable{/,/}/p' | sed -n '2p' | awk -F: '{gsub(/ /,"",$1); print $1}')
sel=$(printf '%s\n' "$go" | grep -o '\.vtable\.[A-Za-z_0-9]*' | head -1 | sed 's/.*\.//')
[ -n "$decl" ] || { echo "no vtable struct found"; exit 0; }
st=0
[ "$decl" = "$used" ] || { echo "WRONG: the vtable struct declares $decl, the constructor's literal uses the key $used"; st=1; }
[ -z "$sel" ] || [ "$decl" = "$sel" ] || { echo "WRONG: the vtable struct declares $decl, the dynamic call selects $sel"; st=1; }
[ $st = 0 ] && echo "ok: declaration, literal and call agree on $decl"
exit $st
