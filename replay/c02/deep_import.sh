#!/bin/sh
# replay for C02 (U-IMPORTNAME: an import is looked up under the name Go binds for it): deep_import/main.gom calls extern functions of
# "path/filepath" and "go/build/constraint"; every package qualifier the emitted Go uses must be bound by an import of the file.
# exit 1 if a used package is not imported.   usage: deep_import.sh [path-to-compiler-binary]
BIN=${1:-/repo/target/debug/compiler}
D=$(dirname "$0")
GO=$("$BIN" run --dump-go "$D/deep_import/main.gom" 2>/dev/null)
[ -z "$GO" ] && { echo "no Go emitted"; exit 0; }
rc=0
for spec in "filepath:path/filepath" "constraint:go/build/constraint"; do
    q=${spec%%:*}; p=${spec#*:}
    if printf '%s\n' "$GO" | grep -q "$q\\.[A-Z]"; then
        if printf '%s\n' "$GO" | grep -q "^ *\"$p\"\$"; then echo "ok: $q. is used and \"$p\" is imported"
        else echo "WRONG: $q. is used but \"$p\" is not imported (go build: undefined: $q)"; rc=1; fi
    fi
done
exit $rc
