#!/bin/sh
# replay for C02 (U-GOTYPEDOC: a function type among a function type's parameters keeps its signature): second_order/main.gom has values of type
# `((int32) -> int32, int32) -> int32`; the emitted Go must spell them `func(func(int32) int32, int32) int32`.
# exit 1 if a bare `func` appears as a parameter type.   usage: second_order.sh [compiler-binary]
BIN=${1:-/repo/target/debug/compiler}
D=$(dirname "$0")
out=$("$BIN" run --dump-go "$D/second_order/main.gom" 2>/dev/null)
[ -z "$out" ] && { echo "no Go emitted"; exit 0; }
if printf '%s\n' "$out" | grep -Eq 'func\((func,|[^()]*, func[,)])'; then echo "WRONG: a function-typed parameter lost its signature:"; printf '%s\n' "$out" | grep -E 'func\((func,|[^()]*, func[,)])' | head -3; exit 1; fi
echo "ok: function types among parameters are spelled out"; exit 0
