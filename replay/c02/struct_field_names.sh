#!/bin/sh
# witness for C02 / U-FIELDNAMES: a struct field named like a Go keyword / predeclared identifier (`len`, `range`) is declared `_goml_len`; every selector on a
# variable of that struct type must name a declared field.   exit 1 when a selector does not.   usage: struct_field_names.sh [compiler]
BIN=${1:-/repo/target/debug/compiler}
D=$(cd "$(dirname "$0")/struct_field_names" && pwd)
st=0
for prog in buffer token; do
  go=$(mktemp)
  "$BIN" run --dump-go "$D/$prog/main.gom" > "$go" 2>/dev/null
  if grep -q '^package main' "$go"; then
    out=$(python3 "$D/check_selectors.py" "$go" "$prog" 2>&1) || { echo "WRONG: $out" | head -3; st=1; }
  else echo "$prog: no Go emitted"; fi
  rm -f "$go"
done
[ $st = 0 ] && echo "ok: every selector names a declared field"
exit $st
