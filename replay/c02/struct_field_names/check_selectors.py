import re, sys
text = open(sys.argv[1]).read()
prog = sys.argv[2]
structs = {}
for m in re.finditer(r'^type (\w+) struct \{\n((?:    .*\n)*)\}', text, re.M):
    structs[m.group(1)] = {l.split()[0] for l in m.group(2).splitlines() if l.strip()}
bad = []
for fm in re.finditer(r'^func (\w+)\((.*?)\) .*?\{\n(.*?)^\}', text, re.M | re.S):
    fname, params, body = fm.groups()
    var_ty = {}
    for p in params.split(', '):
        if ' ' in p:
            n, t = p.split(' ', 1)
            var_ty[n] = t
    for vm in re.finditer(r'^\s*var (\w+) (\w+)', body, re.M):
        var_ty[vm.group(1)] = vm.group(2)
    for sm in re.finditer(r'\b(\w+)\.(\w+)\b', body):
        v, f = sm.groups()
        ty = var_ty.get(v)
        if ty in structs and f not in structs[ty]:
            bad.append(f"{fname}: {v}.{f} undefined (type {ty} has no field or method {f}; declared: {sorted(structs[ty])})")
if bad:
    print(f"FAIL {prog}: goml accepted the program, the emitted Go does not compile:")
    for b in bad:
        print("   ", b)
    sys.exit(1)
print(f"PASS {prog}")
