#!/bin/sh
# witness for C02 / U-DCEBLK effect_stmt (fix 855bea1): `vec_push(v, 1);`, `vec_len(v);` and `let _ = vec_push(v, 2);` — Go rejects `append(v, 1)`,
# `int32(len(v))` standing alone (value not used).  exit 1 when the emitted Go has such a bare statement.   usage: bare_builtin_stmt.sh [compiler]
BIN=${1:-/repo/target/debug/compiler}
D=$(cd "$(dirname "$0")/bare_builtin_stmt" && pwd)
go=$("$BIN" run --dump-go "$D/main.gom" 2>/dev/null)
printf '%s\n' "$go" | grep -q '^package main$' || { echo "no Go emitted"; exit 0; }
bad=$(printf '%s\n' "$go" | grep -E '^[[:space:]]+(append|len|cap|int8|int16|int32|int64|uint8|uint16|uint32|uint64|float32|float64|string)\(' | head -3)
if [ -n "$bad" ]; then echo "WRONG: a value-only builtin / conversion stands alone as a statement: $bad"; exit 1; fi
echo "ok: no bare builtin call or conversion statement"; exit 0
