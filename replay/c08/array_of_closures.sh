#!/bin/sh
# witness for the C08 known finding (a closure stored in an ARRAY — likewise a Vec or a Ref — does not keep its meaning):
#   let a = [|x: int32| x + k, |x: int32| x * k]; let f = array_get(a, 1); f(3)
# The array keeps its pre-lifting type `[2]func(int32) int32`, the closure environments (two different struct types) are stored in it, the
# element is called as a Go func, and no apply function — the closures' bodies — is emitted.   exit 1 while that is so.
# usage: array_of_closures.sh [compiler]
BIN=${1:-/repo/target/debug/compiler}
D=$(cd "$(dirname "$0")/array_of_closures" && pwd)
go=$("$BIN" run --dump-go "$D/main.gom" 2>/dev/null)
printf '%s\n' "$go" | grep -q '^func main0(' || { echo "no Go emitted"; exit 0; }
if printf '%s\n' "$go" | grep -q '\]func(int32) int32{t[0-9]*, t[0-9]*}' && ! printf '%s\n' "$go" | grep -q '^func _goml_inherent_closure_env_.*_apply('; then
  echo "WRONG: closure environments stored in $(printf '%s\n' "$go" | grep -m1 -o '\[2\]func(int32) int32{t[0-9]*, t[0-9]*}'), element called as a Go func, no apply function emitted"; exit 1
fi
echo "ok: the array of closures is typed by its lifted items"; exit 0
