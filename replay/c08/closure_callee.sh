#!/bin/sh
# replay for C08 (a closure can be called from any position a function type allows): `make_adder(3)(10)` (callee = a call result) and
# `t.0(10)` (callee = a tuple projection) must call the closure's apply function with the closure value first.
# exit 1 if the closure environment (a struct) is "called" directly and the apply function — the closure's body — is missing.
# usage: closure_callee.sh [path-to-compiler-binary]
BIN=${1:-/repo/target/debug/compiler}
D=$(dirname "$0")
rc=0
for p in call_on_call_result call_on_tuple_proj; do
  go=$("$BIN" run --dump-go "$D/$p/main.gom" 2>/dev/null)
  printf '%s\n' "$go" | grep -q '^func main0(' || { echo "no Go emitted for $p"; continue; }
  line=$(printf '%s\n' "$go" | grep -m1 'var r__[0-9]* int32 =')
  if printf '%s\n' "$line" | grep -q '_apply(t[0-9]*, 10)' && printf '%s\n' "$go" | grep -q '^func _goml_inherent_closure_env_.*_apply('; then
    echo "ok $p: $line"
  else echo "WRONG $p: the closure value is called as if it were a Go func: $line"; rc=1; fi
done
exit $rc
