#!/bin/sh
# replay for C08 (U-CLOSTY: a function type whose RESULT is a closure environment holds a closure): `fn pick() -> (int32) -> (int32) -> int32 { make_adder }`
# must be declared with make_adder's lifted type (its result is the closure environment), else Go rejects the program.
# exit 1 if pick keeps its pre-lifting signature.   usage: returned_fn.sh [compiler-binary]
BIN=${1:-/repo/target/debug/compiler}
D=$(dirname "$0")
OUT=$("$BIN" run --dump-go "$D/returned_fn/main.gom" 2>/dev/null)
if ! printf '%s\n' "$OUT" | grep -q '^func pick('; then echo "no Go emitted"; exit 0; fi
if printf '%s\n' "$OUT" | grep -q '^func pick() func(int32) closure_env_make_adder_0 {'; then echo "ok: pick returns make_adder's lifted type"; exit 0; fi
echo "WRONG: pick is declared as"; printf '%s\n' "$OUT" | grep '^func pick('; echo "but returns make_adder (func(int32) closure_env_make_adder_0)"; exit 1
