#!/bin/sh
# replay for C08 (a closure keeps its meaning wherever it flows): a closure put into a NESTED tuple and destructured out of it again
# must still be called through its apply function.   exit 1 if `add(k)` is emitted as a plain Go call on a func-typed variable.
# usage: nested_tuple.sh [path-to-compiler-binary]
BIN=${1:-/repo/target/debug/compiler}
D=$(dirname "$0")
go=$("$BIN" run --dump-go "$D/nested_tuple/main.gom" 2>/dev/null)
printf '%s\n' "$go" | grep -q '^func make_pair(' || { echo "no Go emitted"; exit 0; }
apply=_goml_inherent_closure_env_add_0_closure_env_add_0_apply
if printf '%s\n' "$go" | grep -q "func $apply(" && printf '%s\n' "$go" | grep -q "$apply(add__" && ! printf '%s\n' "$go" | grep -q "Tuple2_TFunc_int32_int32_int32"; then
  echo "ok: add(k) goes through $apply"; exit 0
fi
echo "WRONG: the closure taken out of the nested tuple lost its environment type: $(printf '%s\n' "$go" | grep -m2 'var add__\|add__[0-9]*(' | tr '\n' ' ')"
exit 1
