#!/bin/sh
# replay for C08 (a closure keeps its meaning wherever it flows): `let nested = ((add, 1), 2);` — a closure inside a tuple LITERAL nested in another
# tuple literal — taken out again by a destructuring let and by projections, then called.  All three uses must go through the closure's
# apply function; no tuple field or local may have the bare Go func type.   exit 1 otherwise.   usage: nested_tuple_literal.sh [compiler]
BIN=${1:-/repo/target/debug/compiler}
D=$(cd "$(dirname "$0")/nested_tuple_literal" && pwd)
out=$("$BIN" run --dump-go "$D/main.gom" 2>&1)
echo "$out" | grep -q '^func main0(' || { echo "no Go emitted"; exit 0; }
n=$(printf '%s\n' "$out" | grep -c -F '_goml_inherent_closure_env_add_0_closure_env_add_0_apply(')
bad=$(printf '%s\n' "$out" | grep -c -E 'Tuple2_TFunc|func\(int32\) int32 =')
if [ "$n" -eq 3 ] && [ "$bad" -eq 0 ]; then echo "ok: both calls go through the apply function"; exit 0; fi
echo "WRONG: $n lines mention the apply function (expected 3), $bad lines have a bare func-typed closure: $(printf '%s\n' "$out" | grep -m1 -E 'Tuple2_TFunc|func\(int32\) int32 =')"; exit 1
