#!/bin/sh
# replay for C08 (closure environment layout): in the emitted Go every apply function must read each captured variable back from
# the environment field it was stored in (fields are named <variable>_<index>, Go locals <variable>__<id>).
# exit 1 if a captured variable is read from another variable's field.   usage: run.sh [path-to-compiler-binary]
BIN=${1:-/repo/target/debug/compiler}
D=$(dirname "$0")
out=$("$BIN" run --dump-go "$D/env_order/main.gom" 2>/dev/null)
rebinds=$(printf '%s\n' "$out" | grep -E '^ +var [A-Za-z0-9_]+__[0-9]+ .* = env[0-9]+\.[A-Za-z0-9_]+$')
[ -z "$rebinds" ] && { echo "no env re-binding lines found"; exit 2; }
status=0
while IFS= read -r line; do
    var=$(printf '%s\n' "$line" | sed -E 's/^ +var ([A-Za-z0-9_]+)__[0-9]+ .*/\1/')
    field=$(printf '%s\n' "$line" | sed -E 's/.* = env[0-9]+\.([A-Za-z0-9_]+)_[0-9]+$/\1/')
    if [ "$var" != "$field" ]; then echo "WRONG: $line"; status=1; fi
done <<EOT
$rebinds
EOT
[ $status -eq 0 ] && echo "ok: every captured variable is read back from its own field"
exit $status
