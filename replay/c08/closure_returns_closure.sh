#!/bin/sh
# replay for C08 (nested closures; a closure can be returned): `let curry = |a: int32| |b: int32| a + b; let add1 = curry(1); add1(2)`.
# The outer closure's apply function used to keep the declared `func(int32) int32` result type and return a struct as a func; the caller then
# called `add1(2)` directly and the inner apply function (`a + b`) was not emitted.   exit 1 unless both apply functions exist and add1 is
# called through the inner one.   usage: closure_returns_closure.sh [compiler]
BIN=${1:-/repo/target/debug/compiler}
D=$(cd "$(dirname "$0")/closure_returns_closure" && pwd)
go=$("$BIN" run --dump-go "$D/main.gom" 2>/dev/null)
printf '%s\n' "$go" | grep -q '^func main0(' || { echo "no Go emitted"; exit 0; }
n=$(printf '%s\n' "$go" | grep -c '^func _goml_inherent_closure_env_curry_[01]_.*_apply(')
if [ "$n" -eq 2 ] && printf '%s\n' "$go" | grep -q 'curry_0_apply(add1__[0-9]*, 2)'; then echo "ok: add1(2) goes through the inner closure's apply function"; exit 0; fi
echo "WRONG: $n apply functions emitted; $(printf '%s\n' "$go" | grep -m1 'var add1__')"; exit 1
