#!/bin/sh
# witness search for C08 / U-ENVNAME: two functions that each bind a closure to `let f` — every closure must get an environment struct and an apply function
# of its own (the counter behind `closure_env_<hint>_<n>` runs over the whole file).   exit 1 when a lifted function is declared twice.   usage: env_names.sh [compiler]
BIN=${1:-/repo/target/debug/compiler}
D=$(cd "$(dirname "$0")/env_names" && pwd)
out=$("$BIN" run --dump-lift "$D/main.gom" 2>&1)
printf '%s\n' "$out" | grep -q '^fn ' || { echo "no Lift IR dumped"; exit 0; }
dups=$(printf '%s\n' "$out" | grep -oE '^fn [^(]+' | sort | uniq -d | tr '\n' ';')
if [ -n "$dups" ]; then echo "WRONG: declared more than once in the Lift IR: $dups"; exit 1; fi
echo "ok: every closure has its own environment struct and apply function"; exit 0
