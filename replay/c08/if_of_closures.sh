#!/bin/sh
# witness for the C08 known finding (two closures flowing into ONE variable through the branches of an `if` do not keep their meaning):
#   let f = if c { |x: int32| x + 1 } else { |x: int32| x + 2 }; f(1)
# The `if` keeps its pre-lifting type `func(int32) int32`, the two closure environments (two different struct types) are assigned to a variable
# of that type, the variable is called as a Go func, and no apply function — the closures' bodies — is emitted.   exit 1 while that is so.
# usage: if_of_closures.sh [compiler]
BIN=${1:-/repo/target/debug/compiler}
D=$(cd "$(dirname "$0")/if_of_closures" && pwd)
go=$("$BIN" run --dump-go "$D/main.gom" 2>/dev/null)
printf '%s\n' "$go" | grep -q '^func main0(' || { echo "no Go emitted"; exit 0; }
if printf '%s\n' "$go" | grep -q 'var f__[0-9]* func(int32) int32$' && printf '%s\n' "$go" | grep -q 'f__[0-9]* = closure_env_main_[0-9]*{}' && ! printf '%s\n' "$go" | grep -q '^func _goml_inherent_closure_env_.*_apply('; then
  echo "WRONG: $(printf '%s\n' "$go" | grep -m1 -o 'var f__[0-9]* func(int32) int32') is assigned $(printf '%s\n' "$go" | grep -m1 -o 'closure_env_main_[0-9]*{}') and called as a Go func, no apply function emitted"; exit 1
fi
echo "ok: the if over two closures is typed by its lifted branches"; exit 0
