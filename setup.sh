#!/bin/sh
# offline setup: nothing to fetch; warm the Verus cache and check the tools exist.
set -e
cd "$(dirname "$0")"
command -v verus >/dev/null
command -v python3 >/dev/null
mkdir -p out evidence
cat > out/_warm.rs <<'EOT'
use vstd::prelude::*;
verus! { proof fn warm() ensures 1 + 1 == 2int {} }
fn main() {}
EOT
verus out/_warm.rs >/dev/null 2>&1 || true
echo setup ok
