"""U-DECOMP: compile_match::{decompose_struct_type, decompose_enum_type}, typer::unify::decompose_struct_type (whole, recursive) — C06, C03."""
import re
from vlib.gen import Unit, Fn, Adt, Raw

CM = "crates/compiler/src/compile_match.rs"
UN = "crates/compiler/src/typer/unify.rs"
RW = [(re.compile(r"TastIdent\(name\.clone\(\)\)"), "TastIdent(string_clone(name))", "*"), (re.compile(r"(\w+)\.extend\((\w+)\.iter\(\)\.cloned\(\)\);"), r"extend_cloned(&mut \1, \2);", "*"), (re.compile(r"\b(\w+)\.clone\(\)"), r"vclone(\1)", "*")]


def fn(file, name, rename, want_struct):
    return Fn(file=file, name=name, rename=rename, ret="r", rewrites=RW + [(re.compile(r"\b" + name + r"\("), rename + "(", "*")] if rename != name else RW,
              obligation="the head constructor's name and ALL type arguments, innermost application first, in order; None for any other type",
              contract=f"ensures decomp_result(r, decomp(*ty, {str(want_struct).lower()})),\n decreases *ty,")


UNIT = Unit(
    name="U-DECOMP",
    properties=["C06", "C03"],
    rules=["attrs", ("strip", "tast::")],
    describe="compile_match::{decompose_struct_type, decompose_enum_type} and typer::unify::decompose_struct_type (whole, recursive): a struct / enum type — bare, or applied to "
             "type arguments — is read as (constructor name, type arguments in order); a struct type is not read as an enum nor the other way round; anything else is None. "
             "The match compiler instantiates field and payload types with these arguments; the solver looks fields up with them",
    trusted=["derived Clone is an identical copy; `v.extend(xs.iter().cloned())` appends xs in order (stub extend_cloned)"],
    items=[
        Adt(file="crates/compiler/src/tast.rs", kw="enum", name="Ty", rules=["attrs"]),
        Raw(path="contracts/concrete.shim.rs"),
        Raw(path="contracts/decomp.shim.rs"),
        fn(CM, "decompose_struct_type", "decompose_struct_type", True),
        fn(CM, "decompose_enum_type", "decompose_enum_type", False),
        fn(UN, "decompose_struct_type", "unify_decompose_struct_type", True),
    ],
)
