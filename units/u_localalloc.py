"""U-LOCALALLOC: hir::HirTable::{fallback_owner, fresh_local, alloc_ast_local} (whole) — C19, C05."""
import re
from vlib.gen import Unit, Fn, Adt, Raw

H = "crates/compiler/src/hir.rs"
OWNER = ("self.current_owner.unwrap_or_else(|| self.fallback_owner())", "(match self.current_owner { Some(__o) => __o, None => self.fallback_owner() })", 1)
RW = [(re.compile(r"\.clone\(\)"), ".vclone()", "*"), ("hint.to_string()", "str_to_string(hint)", "*")]

UNIT = Unit(
    name="U-LOCALALLOC",
    properties=["C19", "C05"],
    rules=["attrs"],
    describe="hir::HirTable::{fresh_local, alloc_ast_local} (whole): a new local — a compiler temporary, or a source binder met for the first time — gets the NEXT FREE index of its "
             "package's table of locals (so no two locals share an index: with U-LOCALNAME, no two share a name), its hint is stored at that index and nothing before it "
             "changes; a source binder met again gets the index it was given the first time and the table stays as it is. Representation invariant: every index handed out "
             "lies inside the table",
    trusted=["HashMap<LocalKey, LocalId> is a finite map; derived Clone / PartialEq / Hash on LocalKey are structural; ASSUMED: fewer than 2^32 - 1 locals and temporaries per package "
             "(the index and the serial number are u32)"],
    items=[
        Raw(path="contracts/localalloc.shim.rs"),
        Adt(file=H, kw="enum", name="LocalKey", rules=["attrs"]),
        Fn(file=H, name="fallback_owner", container="HirTable", ret="r", obligation="the owner used outside any definition", contract="ensures r == owner_outside(self.package),"),
        Fn(file=H, name="fresh_local", container="HirTable", ret="r", pre_rewrites=[OWNER], rewrites=RW,
           obligation="a temporary gets the next free index; the table grows by exactly its entry",
           contract="requires wf(*old(self)), old(self).local_info@.len() < u32::MAX, old(self).local_counter < u32::MAX,\n"
                    "ensures wf(*final(self)), appended(*old(self), *final(self), r, hint@),"),
        Fn(file=H, name="alloc_ast_local", container="HirTable", ret="r",
           pre_rewrites=[OWNER, (re.compile(r"if let Some\(&id\) = self\.local_interner\.get\(&key\) \{\s*return id;\s*\}"), "if let Some(__id) = self.local_interner.get(&key) { return *__id; }", "*")],
           rewrites=RW,
           obligation="a source binder met for the first time gets the next free index; met again, the index it has, and the table is unchanged",
           contract="requires wf(*old(self)), old(self).local_info@.len() < u32::MAX,\n"
                    "ensures wf(*final(self)), (r.idx as int) < final(self).local_info@.len(),\n"
                    "  old(self).local_interner@.contains_key(binder_key(*old(self), ptr)) ==> r == old(self).local_interner@[binder_key(*old(self), ptr)],      // met again: the index it has\n"
                    "  final(self).local_interner@.contains_key(binder_key(*old(self), ptr)) && final(self).local_interner@[binder_key(*old(self), ptr)] == r,\n"
                    "  (r.idx as int) < old(self).local_info@.len() ==> final(self).local_info@ =~= old(self).local_info@ && final(self).local_interner@ == old(self).local_interner@,\n"
                    "  (r.idx as int) >= old(self).local_info@.len() ==> appended(*old(self), *final(self), r, hint@),"),
        Fn(file=H, name="alloc_def", container="HirTable", ret="r", rewrites=RW,
           obligation="a new definition gets the next free index; its data and its path are stored at that index",
           contract="requires defs_wf(*old(self)), old(self).def_data@.len() < u32::MAX,\nensures defs_wf(*final(self)), def_appended(*old(self), *final(self), r, def, Path::of_ident(name@)),"),
        Fn(file=H, name="alloc_def_with_path", container="HirTable", ret="r", rewrites=RW,
           obligation="the same with a given path",
           contract="requires defs_wf(*old(self)), old(self).def_data@.len() < u32::MAX,\nensures defs_wf(*final(self)), def_appended(*old(self), *final(self), r, def, path),"),
        Fn(file=H, name="def", container="HirTable", ret="r", rewrites=[("assert_eq!(id.pkg, self.package);", "same_package(id.pkg, self.package);", 1)],
           obligation="the definition stored at the id's index",
           contract="requires id.pkg == self.package, (id.idx as int) < self.def_data@.len(),\nensures *r == self.def_data@[id.idx as int],"),
        Fn(file=H, name="def_path", container="HirTable", ret="r", rewrites=[("assert_eq!(id.pkg, self.package);", "same_package(id.pkg, self.package);", 1)],
           obligation="the path stored at the id's index",
           contract="requires id.pkg == self.package, (id.idx as int) < self.def_paths@.len(),\nensures *r == self.def_paths@[id.idx as int],"),
    ],
)
