"""U-MTRAITCALL: the ETraitCall arm of mono::mono_expr (fragment) — C07, C17."""
import re
from vlib.gen import Unit, Fn, Adt, Raw

M = "crates/compiler/src/mono.rs"
CLONE = (re.compile(r"\b([a-z_][\w]*(?:\.[a-z_]\w*)*)\.clone\(\)"), r"clone_of(&\1)", "*")


def loops(k, header, kw):
    mt = re.search(r"while\s+__fk(\d+)\s*<\s*args\.len\(\)", header)
    if mt:   # the arguments, translated in order behind the receiver
        i = "__fk" + mt.group(1)
        return (f"invariant {i} <= args.len(), all_args@.len() == {i} + 1, is_mono(recv0, s@, all_args@[0]),\n"
                f"  forall|j: int| 0 <= j < {i} ==> is_mono(#[trigger] args@[j], s@, all_args@[j + 1]),\n decreases args.len() - {i},")
    mt = re.search(r"while\s+__mi(\d+)\s*<\s*all_args\.len\(\)", header)
    if mt:   # the parameter types of the callee's function type: the types of the translated operands
        i = mt.group(1)
        return (f"invariant __mi{i} <= all_args.len(), __mo{i}@.len() == __mi{i}, forall|j: int| 0 <= j < __mi{i} ==> #[trigger] __mo{i}@[j] == mono_ty(all_args@[j]),\n"
                f" decreases all_args.len() - __mi{i},")
    return None


UNIT = Unit(
    name="U-MTRAITCALL",
    properties=["C07", "C17"],
    rules=["attrs", ("strip", "core::"), ("strip", "common_defs::"), ("strip", "tast::"), "iter_map_collect", "for_index"],
    describe="mono::mono_expr, ETraitCall arm (fragment): a trait-method call made through a `T: Tr` bound is resolved, once the receiver is translated at the instance's "
             "substitution, to the impl function of (that trait, the TRANSLATED receiver's type, that method) — the function the static form `Tr::m(x)` on a concrete "
             "receiver names — called with the receiver first and the arguments in order, each translated once, at the call's substituted type",
    trusted=["FRAGMENT mono_trait_call: the ETraitCall arm of mono::mono_expr; the recursive calls of mono_expr are a stub (is_mono: SOME translation of its argument under "
             "the given substitution); names::trait_impl_fn_name is a stub (uninterpreted impl_fn_name of its three arguments: what the name is made of is U-IMPLNAME's); "
             "subst_ty is opaque (U-MSUBST); core::Expr is opaque; an argument list is shorter than usize::MAX"],
    items=[
        Adt(file="crates/compiler/src/tast.rs", kw="enum", name="Ty", rules=["attrs"]),
        Adt(file="crates/compiler/src/tast.rs", kw="struct", name="TastIdent", rules=["attrs"]),
        Raw(path="contracts/munify.shim.rs"),
        Raw(path="contracts/msubst.spec.rs"),
        Adt(file=M, kw="enum", name="MonoExpr", rules=["attrs", ("strip", "common_defs::"), ("strip", "tast::")]),
        Adt(file=M, kw="struct", name="MonoArm", rules=["attrs"]),
        Adt(file="crates/compiler/src/core.rs", kw="struct", name="Fn", rules=["attrs"]),
        Adt(file=M, kw="struct", name="Ctx", rules=["attrs", "pubfields", ("strip", "core::")],
            rewrites=[(re.compile(r"\bIndexMap<"), "AnyMap<", "*")]),
        Raw(path="contracts/mcall.shim.rs"),
        Raw(path="contracts/box.shim.rs"),
        Raw(path="contracts/mtraitcall.shim.rs"),
        Fn(file=M, name="get_ty", container="MonoExpr", ret="r", rewrites=[(re.compile(r"=> ty\.clone\(\),"), "=> clone_of(ty),", "*")],
           contract="ensures r == mono_ty(*self),", obligation="get_ty returns the carried type"),
        Fn(file=M, name="mono_expr", rename="mono_trait_call", ret="r", attrs="#[verifier::loop_isolation(false)]",
           cut_from=re.compile(r"let receiver = mono_expr\(ctx, &receiver, s\);(?=\s*let mut all_args)"), cut_before="@block-end", cut_tail="",
           sig="fn mono_trait_call(ctx: &mut Ctx, trait_name: TastIdent, method_name: TastIdent, receiver: Box<Expr>, args: Vec<Expr>, ty: Ty, s: &Subst) -> MonoExpr",
           rewrites=[CLONE],
           obligation="the call becomes impl_fn(trait, type of the translated receiver, method)(receiver, args..) at the substituted type",
           contract="requires args@.len() < usize::MAX,\n"
                    "ensures trait_call_ok(trait_name, method_name.0@, *receiver, args@, ty, s@, r),",
           ghost=[("@entry", "", "let ghost recv0: Expr = *receiver;")],
           loop_fn=loops),
    ],
)
