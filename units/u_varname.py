"""U-VARNAME: go::compile::variant_struct_name (whole function) — C19, distinct enums that share a variant name get distinct Go struct names."""
import re
from vlib.gen import Unit, Fn, Raw

GC = "crates/compiler/src/go/compile.rs"


def loops(k, header, kw):
    if "__ei <" in header:
        return ("invariant __ei <= __es@.len(), __es@ == env_enums(goenv), count <= __ei,\n"
                "  count <= 1 ==> count as nat == count_decl(__es@.take(__ei as int), variant_name@),\n"
                "  count >= 2 ==> count_decl(__es@.take(__ei as int), variant_name@) >= 2,\n"
                "decreases __es@.len() - __ei,")
    mn = re.search(r"while\s+(__i\d+)\s*<\s*(__en|__sn)\.len\(\)", header)
    if mn:
        i, v = mn.group(1), mn.group(2)
        r = i.replace("__i", "__r")
        return (f"invariant {i} <= {v}@.len(), !{r} ==> forall|j: int| 0 <= j < {i} ==> (#[trigger] {v}@[j]).0@ != variant_name@,\n"
                f"  {r} ==> exists|j: int| 0 <= j < {v}@.len() && (#[trigger] {v}@[j]).0@ == variant_name@,\n"
                f"decreases {v}@.len() - {i},")
    if re.search(r"__i0\s*<", header):
        return ("invariant __i0 <= edef.variants@.len(),\n"
                "  !__r0 ==> forall|j: int| 0 <= j < __i0 ==> (#[trigger] edef.variants@[j]).0.0@ != variant_name@,\n"
                "  __r0 ==> declares(*edef, variant_name@),\n"
                "decreases edef.variants@.len() - __i0,")
    return None


UNIT = Unit(
    name="U-VARNAME",
    properties=["C19", "C02"],
    rules=["attrs"],
    describe="go::compile::variant_struct_name: when a variant name is declared by more than one enum the Go struct name is the mangled FULL name of the "
             "owning enum, a separator, and the mangled variant name — so `Lamp::State::On` and `Valve::State::On` (two packages, the same enum and variant "
             "names) cannot both become `State_On`. Both the definition site and every use site call this one function",
    trusted=["go_ident is the deterministic function gi of its argument's text (verified separately by U-GOIDENT for legality; its injectivity is NOT "
             "claimed — `#` in generated names, see DESIGN §5)",
             "GlobalGoEnv::enums() is the stub goenv_enum_defs (the definitions, in iteration order; the contract does not depend on the order)",
             "`format!(\"{}LIT{}\", a, b)` is the stub str_join3: the two strings with the literal between them",
             "the counter `count` (an inferred i32 in the source) is given the type usize, so that `count <= number of enums visited` rules out overflow with or "
             "without the early `break`",
             "rule iter_any: std's Iterator::any on a slice iterator (assumed semantics)",
             "distinctness of two such names additionally needs the mangled enum names to differ and the separator to be one literal (it is: a single "
             "format! site, shown in the generated text)"],
    items=[
        Raw(path="contracts/varname.shim.rs"),
        Fn(file=GC, name="variant_struct_name", ret="r", attrs="#[verifier::loop_isolation(false)]", rules=["attrs", "iter_any"],
           pre_rewrites=[(re.compile(r"for \(_\w+, (\w+)\) in goenv\.enums\(\) \{"),
                          r"let __es = goenv_enum_defs(goenv); let mut __ei: usize = 0; while __ei < __es.len() { let \1 = &__es[__ei]; __ei += 1;", 1),
                         (re.compile(r"\s*\n\s*\.(?=\w)"), ".", "*"),
                         (re.compile(r"\.any\(\|\((\w+), _\)\|\s*\1\.0\.as_str\(\) == (\w+)\)"), r".any(|__p| str_eq(tast_ident_str(&__p.0), \2))", 1),
                         (re.compile(r"let names_a_type = "), "let __en = goenv_enum_names(goenv); let __sn = goenv_struct_names(goenv); let names_a_type = ", "*"),
                         (re.compile(r"goenv\.enums\(\)\.any\(\|\(n, _\)\| n\.0 == variant_name\)"), "__en.iter().any(|n| str_eq(tast_ident_str(n), variant_name))", "*"),
                         (re.compile(r"goenv\.structs\(\)\.any\(\|\(n, _\)\| n\.0 == variant_name\)"), "__sn.iter().any(|n| str_eq(tast_ident_str(n), variant_name))", "*"),
                         (re.compile(r"format!\(\s*\"\{\}([^\"{}]*)\{\}\",\s*(go_ident\([^()]*\)),\s*(go_ident\([^()]*\)),?\s*\)"), r'str_join3(&\2, "\1", &\3)', 1),
                         ("let mut count = 0;", "let mut count: usize = 0;")],
           obligation="a variant name declared by at least two enums, or equal to the name of an enum or struct type, is emitted as <mangled full enum name><separator><mangled variant name>",
           contract="ensures shared_variant(goenv, variant_name@) ==> qualified(r@, enum_name@, variant_name@),\n"
                    "        names_a_type(goenv, variant_name@) ==> qualified(r@, enum_name@, variant_name@),",
           ghost=[("@loop-body:__ei <", "", "proof { lemma_count_take_step(__es@, __ei as int, variant_name@); }"),
                  ("@after-loop:__ei <", "", "proof { lemma_count_mono(__es@, __ei as int, variant_name@); assert(__es@.take(__es@.len() as int) =~= __es@); }")],
           loop_fn=loops),
    ],
)
