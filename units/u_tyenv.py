"""U-TYENV: typer::localenv::LocalTypeEnv::{new, push_scope, pop_scope, lookup_var} (whole) — C05."""
import re
from vlib.gen import Unit, Fn, Adt, Raw

E = "crates/compiler/src/typer/localenv.rs"


def rev_loop(mt):
    """`for (depth, scope) in self.scopes.iter().enumerate().rev() {` -> an index loop from the last scope down to the first, `depth` being the index (std's enumerate + rev of a slice iterator)"""
    return "let mut __ri: usize = self.scopes.len(); while __ri > 0 { __ri -= 1; let depth = __ri; let scope = &self.scopes[__ri];"


UNIT = Unit(
    name="U-TYENV",
    properties=["C05"],
    rules=["attrs", "pubfields"],
    describe="typer::localenv::LocalTypeEnv::{new, push_scope, pop_scope, lookup_var} (whole), the environment the type checker binds locals in, against its abstract view (a stack of "
             "maps, innermost last): a new environment has one empty scope; push_scope puts an EMPTY scope on top (the `top_fresh` U-INFERCTRL's contracts rest on); pop_scope "
             "removes the top scope; lookup_var answers with the type of the INNERMOST scope that binds the local — a binder that shadows an outer one wins "
             "exactly while its scope is there",
    trusted=["im::HashMap is a finite map; the `.iter().enumerate().rev()` loop is read as a descending index loop; the capture bookkeeping inside lookup_var (let-chain over "
             "`capture_stack.last_mut()` + entry API) is ONE call of the stub note_capture on the capture stack (U-CAPT's subject); insert_var (`last_mut()`) stays assumed in "
             "U-INFERCTRL / U-LOCALCALL; derived Clone is an identical copy"],
    items=[
        Raw(path="contracts/tyenv.shim.rs"),
        Adt(file=E, kw="struct", name="LocalTypeEnv", rules=["attrs", "pubfields", ("strip", "tast::")]),
        Fn(file=E, name="new", container="LocalTypeEnv", ret="r",
           rewrites=[("vec![ImHashMap::new()]", "{ let mut __v: Vec<ImHashMap<LocalId, Ty>> = Vec::new(); __v.push(ImHashMap::new()); __v }", 1), ("IndexMap::new()", "index_map_new()", "*")],
           obligation="a new environment: one empty scope", contract="ensures scopes_of(r) =~= seq![Map::<LocalId, Ty>::empty()],"),
        Fn(file=E, name="push_scope", container="LocalTypeEnv", obligation="an EMPTY scope on top; the others untouched",
           contract="ensures scopes_of(*final(self)) =~= scopes_of(*old(self)).push(Map::<LocalId, Ty>::empty()),"),
        Fn(file=E, name="pop_scope", container="LocalTypeEnv", obligation="the top scope removed (above the base scope)",
           contract="ensures old(self).scopes@.len() > 1 ==> scopes_of(*final(self)) =~= scopes_of(*old(self)).drop_last(),"),      # a pop without a matching push (the base scope) is an internal error either way: not claimed
        Fn(file=E, name="lookup_var", container="LocalTypeEnv", ret="r", attrs="#[verifier::loop_isolation(false)]",
           rules=["attrs", ("strip", "tast::")],
           pre_rewrites=[(re.compile(r"for \(depth, scope\) in self\.scopes\.iter\(\)\.enumerate\(\)\.rev\(\) \{"), rev_loop, "*"),
                         (re.compile(r"if depth \+ 1 < self\.scopes\.len\(\)\s*&& let Some\(captures\) = self\.capture_stack\.last_mut\(\)\s*\{\s*captures\.entry\(name\)\.or_insert_with\(\|\| ty\.clone\(\)\);\s*\}"),
                          "note_capture(&mut self.capture_stack, depth, self.scopes.len(), name, ty);", "*"),
                         ("return Some(ty.clone());", "return Some(ty_clone(ty));", "*")],
           obligation="the type of the innermost scope that binds the local; the scopes untouched",
           contract="ensures r == lookup(scopes_of(*old(self)), old(self).scopes@.len() as int, name), scopes_of(*final(self)) =~= scopes_of(*old(self)),",
           loop_fn=lambda k, header, kw: ("invariant __ri <= self.scopes.len(), self.scopes == old(self).scopes, lookup(scopes_of(*old(self)), old(self).scopes@.len() as int, name) == lookup(scopes_of(*old(self)), __ri as int, name),\n decreases __ri,"
                                          if "__ri" in header else None)),
    ],
)
