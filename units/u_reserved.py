"""U-RESERVED: hir::BuiltinId::from_name (whole) and the reservation test in NameResolution::resolve_files_with_env (fragment) — C19."""
import re
from vlib.gen import Unit, Fn, Adt, Raw

H = "crates/compiler/src/hir.rs"
N = "crates/compiler/src/typer/name_resolution.rs"


def str_match(mt):
    """`match NAME { "a" => E1, "b" => E2, .. _ => D, }` on a &str -> `if str_eq(NAME, "a") { E1 } else if .. else { D }` (the meaning of string-literal patterns tried in order)"""
    name, body = mt.group(1), mt.group(2)
    arms = re.findall(r'"([^"]*)"\s*=>\s*([^,]+),', body)
    dflt = re.search(r'_\s*=>\s*([^,]+),', body).group(1)
    out = ""
    for lit, e in arms:
        out += f'if str_eq({name}, "{lit}") {{ {e.strip()} }} else '
    return out + f"{{ {dflt.strip()} }}"


UNIT = Unit(
    name="U-RESERVED",
    properties=["C19"],
    rules=["attrs", "fmtmsg", ("strip", "hir::")],
    describe="the nine builtins that the typer and the Go backend recognise by the callee's NAME (ref, ref_get, ref_set, array_get, array_set, vec_new, "
             "vec_push, vec_get, vec_len): hir::BuiltinId::from_name answers Some exactly for them, and name resolution reports an error for every "
             "top-level function (outside package Builtin) whose global name is one of them — so no user function can take such a builtin's place; the same for `missing`, the runtime function the match compiler calls by name",
    trusted=["FRAGMENT reserve_builtin_names: the reservation test at the head of the `ast::Item::Fn` arm of resolve_files_with_env's first loop (from the "
             "computation of the function's global name to the allocation of its definition); the rest of the resolver is not in this unit",
             "NameResolution is a shim with an error counter; `format!(\"{}::{}\", ..)` is the shim join_colons; that the nine names ARE the ones special-cased in "
             "check.rs / compile.rs is read off the code, not proved (name_keyed_builtin lists them)"],
    items=[
        Adt(file=H, kw="enum", name="BuiltinId", rules=["attrs"]),
        Raw(path="contracts/reserved.shim.rs"),
        Fn(file=H, name="from_name", container="BuiltinId", ret="r",
           pre_rewrites=[(re.compile(r"match (\w+) \{((?:\s*\"[^\"]*\"\s*=>[^,]+,)+\s*_\s*=>[^,]+,\s*)\}", re.S), str_match, 1)],
           obligation="Some exactly for the nine name-keyed builtins",
           contract="ensures r is Some == name_keyed_builtin(name@),"),
        Fn(file=N, name="full_def_name", ret="r",
           pre_rewrites=[('format!("{}::{}", package, name)', "join_colons(package, name)", 1), ("name.to_string()", "str_to_string(name)", 1),
                         (re.compile(r'\bpackage == ("[A-Za-z]*")'), r"str_eq(package, \1)", "*")],
           obligation="the global name of a definition: the bare name in packages Main and Builtin, `Pkg::name` elsewhere",
           contract="ensures r@ == full_name_of(package@, name@),"),
        Fn(file=N, name="resolve_files_with_env", container="NameResolution", as_method_of="NameResolution", rename="reserve_builtin_names", ret="r",
           cut_from=re.compile(r"let full_name = full_def_name\(package_name, &func\.name\.0\);(?!\s*let resolved_fn)"), cut_before="let path = full_def_path(package_name, &func.name.0);", cut_tail="    full_name",
           sig="pub fn reserve_builtin_names(&mut self, package_name: &str, func_name: &String) -> String",
           rewrites=[("&func.name.0", "string_as_str(func_name)", "*"), ('package_name != "Builtin"', 'str_ne(package_name, "Builtin")', "*"),
                     (re.compile(r'package_name == ("[A-Za-z]*")'), r"str_eq(package_name, \1)", "*"),
                     ("BuiltinId::from_name(&full_name)", "BuiltinId::from_name(string_as_str(&full_name))", "*"),
                     (re.compile(r"\bfull_name == (\"[a-z_]*\")"), r"string_is(&full_name, \1)", "*")],
           ghost=[("let full_name = full_def_name(", "line-after", "proof { lemma_builtin_names_unqualified(package_name@, func_name@); }")],
           obligation="a top-level function (outside package Builtin) whose global name is a name-keyed builtin's is an error of name resolution",
           contract="""ensures r@ == full_name_of(package_name@, func_name@),
            (package_name@ != "Builtin"@ && (name_keyed_builtin(r@) || runtime_called_by_name(r@))) ==> final(self).errors() > old(self).errors(),
            final(self).errors() >= old(self).errors(),"""),
    ],
)
