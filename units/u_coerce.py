"""U-COERCE: typer::tast_builder::apply_coercions (whole) — C17: every recorded coercion to `dyn Trait` is in the typed tree."""
import re
from vlib.gen import Unit, Fn, Adt, Raw
from units.u_localcall import UNIT as LC

B = "crates/compiler/src/typer/tast_builder.rs"
R = "crates/compiler/src/typer/results.rs"
base = [it for it in LC.items if not isinstance(it, Fn)]

SPEC = """
// ---- specification for U-COERCE ----
#[verifier::external_body] pub struct TypeckResults { _p: u64 }
impl TypeckResults {
    pub uninterp spec fn coercions_of(&self, e: ExprId) -> Seq<Coercion>;
    #[verifier::external_body] pub fn coercions(&self, e: ExprId) -> (r: &Vec<Coercion>) ensures r@ == self.coercions_of(e) { unimplemented!() }
}
impl VClone for TastIdent { #[verifier::external_body] fn vclone(&self) -> (r: Self) { unimplemented!() } }
// the expression with the first n recorded coercions applied: each one wraps what is there so far in the coercion node it describes (trait, source type, dyn type, position)
pub open spec fn coerced(cs: Seq<Coercion>, n: int, e: Expr) -> Expr
    decreases n,
{
    if n <= 0 || n > cs.len() { e } else {
        match cs[n - 1] { Coercion::ToDyn { trait_name, for_ty, ty, astptr } => Expr::EToDyn { trait_name, for_ty, expr: Box::new(coerced(cs, n - 1, e)), ty, astptr } }
    }
}
"""

UNIT = Unit(
    name="U-COERCE",
    properties=["C17"],
    rules=["attrs", ("strip", "tast::"), ("strip", "hir::"), "for_index"],
    describe="typer::tast_builder::apply_coercions (whole): the typed tree the later stages compile holds EVERY coercion to `dyn Trait` the type checker recorded for an expression, "
             "in the order they were recorded (the first innermost), each with the trait, the concrete source type and the dyn type it was recorded with — a coercion the checker "
             "decided on cannot get lost, or get another vtable, on the way into the tree",
    trusted=["TypeckResults::coercions is a stub (the recorded list, an uninterpreted function of the expression id); derived Clone is an identical copy; that build_expr calls "
             "this function for every expression is not part of the unit"],
    items=base + [
        Adt(file=R, kw="enum", name="Coercion", rules=["attrs", ("strip", "tast::")]),
        Raw(text=SPEC),
        Fn(file=B, name="apply_coercions", ret="r", attrs="#[verifier::loop_isolation(false)]",
           pre_rewrites=[("mut expr: tast::Expr,", "expr: tast::Expr,", 1), (re.compile(r"for coercion in results\.coercions\(expr_id\) \{"), "let ghost __e0 = expr; let mut expr = expr; let __cs = results.coercions(expr_id);\n    for coercion in __cs {", 1)],
           rewrites=[(re.compile(r"\.clone\(\)"), ".vclone()", "*")],
           obligation="every recorded coercion wraps the expression, first recorded innermost, with the recorded trait / types / position",
           contract="ensures r == coerced(results.coercions_of(expr_id), results.coercions_of(expr_id).len() as int, expr),",
           loop_fn=lambda k, header, kw: (lambda mt: (f"invariant {mt.group(1)} <= __cs.len(), __cs@ == results.coercions_of(expr_id), expr == coerced(__cs@, {mt.group(1)} as int, __e0),\n decreases __cs.len() - {mt.group(1)},") if mt else None)(
               re.search(r"while\s+(__fk\d+)\s*<\s*__cs\.len\(\)", header))),
    ],
)
