"""U-COREFLOAT: the float constants of a .core file (C14, C10) — the assumed contract of the JSON library holds only with the feature the manifest must enable."""
import os
import re
from vlib.gen import Unit, Fn, Adt, Raw


def _manifest():
    """how the workspace builds serde_json, read from /repo's Cargo.toml on every run"""
    repo = os.environ.get("VERIF_REPO", "/repo")
    txt = open(os.path.join(repo, "Cargo.toml")).read()
    line = next((l for l in txt.splitlines() if re.match(r"\s*serde_json\s*=", l)), "")
    feats = re.findall(r'"([^"]+)"', (re.search(r"features\s*=\s*\[([^\]]*)\]", line) or [None, ""])[1] if "features" in line else "")
    on = "float_roundtrip" in feats
    return ("// derived from /repo/Cargo.toml on every run:\n"
            f"//   {line.strip() or '(no serde_json entry found in [workspace.dependencies])'}\n"
            f"pub open spec fn serde_json_float_roundtrip() -> bool {{ {'true' if on else 'false'} }}\n")


SPEC = r'''
// ---- C14 / C10: a float constant of a package's Core IR is the same f64 after `build` wrote it to a .core file and `link` read it back ----
// what serde_json::to_string writes for an f64, and what serde_json::from_str reads from a decimal text (both outside the verifier's reach)
pub uninterp spec fn json_print(x: f64) -> Seq<char>;
pub uninterp spec fn json_parse(s: Seq<char>) -> f64;
// ASSUMED contract of the dependency, as its documentation states it: printing is shortest-round-trip (ryu); parsing returns the nearest f64 ONLY with the
// feature `float_roundtrip` ("use sufficient precision when parsing fixed precision floats from JSON to ensure that they maintain accuracy when
// round-tripped through JSON"); without it the fast path may be one unit in the last place off.
#[verifier::external_body]
pub proof fn axiom_serde_json_f64_roundtrip(x: f64)
    requires serde_json_float_roundtrip(),
    ensures json_parse(json_print(x)) == x,
{ }
// the obligation: every float constant survives the .core file (so `link` emits the literal the whole-program driver emits)
pub proof fn lemma_core_float_constants_survive(x: f64)
    ensures json_parse(json_print(x)) == x,
{
    axiom_serde_json_f64_roundtrip(x);
}
'''

UNIT = Unit(
    name="U-COREFLOAT",
    properties=["C14", "C10"],
    rules=["attrs"],
    describe="a float constant of a package's Core IR is the same f64 after `build` wrote it to a .core file and `link` read it back: the JSON library's round-trip "
             "guarantee is an ASSUMED contract with a precondition — the feature `float_roundtrip` — and the obligation checks that precondition against the "
             "workspace manifest of the tree under check",
    trusted=["ASSUMED (dependency): serde_json prints the shortest text that reads back as the same f64, and with `float_roundtrip` parses to the nearest f64 "
             "(axiom_serde_json_f64_roundtrip); no code of serde_json is under contract",
             "the manifest line is read textually from /repo/Cargo.toml ([workspace.dependencies] serde_json) on every run and turned into the spec constant "
             "serde_json_float_roundtrip; that every crate of the workspace inherits that entry (`serde_json.workspace = true`) is not checked",
             "no function of goml is extracted in this unit: the (de)serialisation of CoreUnit is derived code (serde), outside the verifier's reach"],
    items=[
        Raw(text=_manifest, item="Cargo.toml::serde_json"),
        Raw(text=SPEC),
    ],
)
