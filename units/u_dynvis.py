import re
from vlib.gen import Unit, Fn, Adt, Raw

C = "crates/compiler/src/typer/check.rs"
T = "crates/compiler/src/tast.rs"
CLONE = (re.compile(r"\.clone\(\)"), ".vclone()", "*")


def loop_inv(k, header, kw):
    mt = re.search(r"while\s+__i(\d+)\s*<\s*([\w\.\(\)]+)\.len\(\)", header)     # the `deps.values().any(..)` loop (rule iter_any)
    if not mt:
        return None
    i, r = "__i" + mt.group(1), "__r" + mt.group(1)
    return (f"invariant {i} <= genv.deps.vals().len(), __dv@.len() == genv.deps.vals().len(),\n"
            f"  !{r} ==> forall|j: int| 0 <= j < {i} ==> !(#[trigger] genv.deps.vals()[j]).trait_env.trait_impls.has(key.0@, key.1),\n"
            f"  {r} ==> exists|j: int| 0 <= j < genv.deps.vals().len() && (#[trigger] genv.deps.vals()[j]).trait_env.trait_impls.has(key.0@, key.1),\n"
            f"decreases genv.deps.vals().len() - {i},")


UNIT = Unit(
    name="U-DYNVIS",
    properties=["C17", "C04", "C03"],
    # C04 only claims the clause whose violation crashes the backend (the table type of a coerced expression)
    clause_scope={"C04": {"only": ["table_type_ok("]}},
    rules=["attrs", "fmtmsg", ("strip", "tast::"), ("strip", "common_defs::"), ("strip", "hir::"), ("strip", "super::util::"), "iter_any"],
    describe="Typer::coerce_to_expected_dyn + has_visible_trait_impl: a value is wrapped into `EToDyn { trait, for_ty, .. }` only if the "
             "expected type is a dyn type, for_ty is exactly the value's type, and an `impl trait for for_ty` is in the package being "
             "checked or in one it imports; otherwise the expression is returned unchanged. has_visible_trait_impl answers exactly that "
             "visibility question; the tail of Typer::check_expr records the coerced expression's OWN type in the typing table",
    trusted=["PackageTypeEnv / GlobalTypeEnv / TraitEnv / Typer are partial shims (only the fields the two functions read); "
             "trait_impls is modelled by key membership",
             "resolve_trait_name and is_concrete_dyn_target are stubs without contracts (the clause does not depend on them)",
             "`v.get_mut(i)` is rewritten to a bounds test + `&mut v[i]` (std semantics of get_mut assumed)",
             "derived Clone is an identical copy (trait VClone); str::to_string copies the text",
             "FRAGMENT check_expr_tail: the arms of check_expr are dropped; ASSUMED (precondition): the expression they produce is not itself a dyn wrapper — "
             "EToDyn has one construction site in check.rs, inside coerce_to_expected_dyn; record_expr_result / record_expr_ty / push_constraint are stubs "
             "(the table entry of the expression is all that is modelled)"],
    items=[
        Adt(file=T, kw="enum", name="Ty", rules=["attrs"]),
        Adt(file=T, kw="struct", name="TastIdent", rules=["attrs"]),
        Adt(file=T, kw="enum", name="UnaryResolution", rules=["attrs"]),
        Adt(file=T, kw="enum", name="BinaryResolution", rules=["attrs"]),
        Adt(file=T, kw="enum", name="Expr", rules=["attrs", ("strip", "common_defs::")]),
        Adt(file=T, kw="struct", name="Arm", rules=["attrs"]),
        Adt(file=T, kw="enum", name="Pat", rules=["attrs"]),
        Adt(file="crates/compiler/src/typer/results.rs", kw="enum", name="Coercion", rules=["attrs", ("strip", "tast::")]),
        Raw(path="contracts/parser.shim.rs"),
        Raw(path="contracts/dynvis.shim.rs"),
        Fn(file=T, name="get_ty", container="Expr", ret="r", rewrites=[CLONE],
           contract="ensures r == expr_ty(*self),", obligation="get_ty returns the carried type"),
        Fn(file="crates/compiler/src/typer/results.rs", name="push_coercion", container="TypeckResultsBuilder",
           rewrites=[(re.compile(r"if let Some\(slot\) = self\.results\.coercions\.get_mut\(expr\.idx as usize\) \{"),
                      "if (expr.idx as usize) < self.results.coercions.len() { let slot = &mut self.results.coercions[expr.idx as usize];", 1)],
           contract="""requires coercions_wf(*old(self)),
        ensures coercions_wf(*final(self)), final(self).results.coercions@.len() == old(self).results.coercions@.len(),
            forall|i: int| 0 <= i < old(self).results.coercions@.len() && i != expr.idx ==> final(self).results.coercions@[i] == old(self).results.coercions@[i],
            (expr.idx as int) < old(self).results.coercions@.len() ==> final(self).results.coercions@[expr.idx as int]@ == seq![coercion],""",
           obligation="recording a coercion keeps `at most one coercion per expression` (re-checking an expression must not stack coercions)"),
        Fn(file=C, name="has_visible_trait_impl", ret="r", attrs="#[verifier::loop_isolation(false)]",
           obligation="true exactly when an impl of the trait for the type is in the current package or an imported one",
           pre_rewrites=[(re.compile(r"genv\.deps\s*\.values\(\)\s*\.any\("), "let __dv = genv.deps.values_vec();\n    __dv.iter().any(", "*")],
           rewrites=[("trait_name.to_string()", "str_to_string(trait_name)"), CLONE],
           contract="ensures r == visible(*genv, trait_name@, *for_ty),",
           loop_fn=loop_inv),
        Fn(file=C, name="coerce_to_expected_dyn", container="Typer", ret="r",
           obligation="the value is wrapped into EToDyn only for a dyn expected type, with for_ty its own type, and only if an impl is visible",
           rewrites=[CLONE, ("matches!(expr.get_ty(), Ty::TDyn { .. })", "(match expr.get_ty() { Ty::TDyn { .. } => true, _ => false })")],
           contract="""requires coercions_wf(old(self).results),
        ensures coercions_wf(final(self).results),
            r == expr || (r matches Expr::EToDyn { trait_name, for_ty, expr: inner, ty, astptr }
                && *inner == expr && for_ty == expr_ty(expr) && ty == *expected && *expected is TDyn
                && visible(*genv, trait_name.0@, for_ty)),"""),
        Fn(file=C, name="check_expr", container="Typer", as_method_of="Typer", rename="check_expr_tail", ret="r",
           cut_from=re.compile(r"(?:let uncoerced_ty = expr_tast\.get_ty\(\);\s*)?let expr_tast = self\.coerce_to_expected_dyn\("), cut_tail="",
           sig="pub fn check_expr_tail(&mut self, genv: &PackageTypeEnv, diagnostics: &mut Diagnostics, e: ExprId, expr_tast: Expr, expected: &Ty) -> Expr",
           rewrites=[CLONE, (re.compile(r"Constraint::TypeEqual\("), "constraint_type_equal(", "*"),
                     (re.compile(r"matches!\((\w+), Expr::EToDyn \{ \.\. \}\)"), r"(match \1 { Expr::EToDyn { .. } => true, _ => false })", "*")],
           obligation="the typing table records, for an expression that check_expr wraps into a dyn value, the expression's OWN type (the wrapper is added "
                      "by the recorded coercion), never the dyn type",
           contract="""requires coercions_wf(old(self).results), !(expr_tast is EToDyn),
        ensures coercions_wf(final(self).results), table_type_ok(r, final(self).results.ty_at(e)),"""),
    ],
)
