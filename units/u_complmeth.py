"""U-COMPLMETH: the inherent-method half of query::completions_for_type (fragment) and query::colon_colon_inherent_methods (whole but the sort) — C20."""
import re
from vlib.gen import Unit, Fn, Adt, Raw

Q = "crates/compiler/src/query.rs"


def extend_map(mt):
    """`V.extend(M.iter().map(|(a, b)| E));` over a map -> push E for every entry, in the map's order"""
    v, m, a, b, e = mt.groups()
    n = extend_map.n = getattr(extend_map, "n", 0) + 1
    return (f"{{ let __en{n} = {m}.entries(); let mut __ek{n}: usize = 0; while __ek{n} < __en{n}.len() {{ let {a} = &__en{n}[__ek{n}].0; let {b} = &__en{n}[__ek{n}].1; "
            f"let __it = {e}; {v}.push(__it); __ek{n} += 1; }} }}")


EXTEND = (re.compile(r"(\w+)\.extend\(([\w\.]+)\.iter\(\)\.map\(\|\((\w+), (\w+)\)\| \{?\s*(\w+ \{(?:[^{}]|\{[^{}]*\})*\})\s*\}?\)\);", re.S), extend_map, "*")
PRE = [EXTEND,
       (re.compile(r"crate::env::"), "", "*"), (re.compile(r"tast::"), "", "*")]
RW = [(re.compile(r"\b(ty|receiver_ty)\.clone\(\)"), r"ty_clone(&\1)", "*"), (re.compile(r"\b(method_name)\.clone\(\)"), r"string_clone(\1)", "*")]


def loops(vec, ty0):
    def f(k, header, kw):
        mt = re.search(r"while\s+(__ek\d+)\s*<\s*(__en\d+)\.len\(\)", header)
        if not mt:
            return None
        i, en = mt.group(1), mt.group(2)
        return (f"invariant {i} <= {en}.len(), forall|j: int| 0 <= j < {en}@.len() ==> impl_def.methods@.dom().contains((#[trigger] {en}@[j]).0@),\n"
                f"  forall|j: int| 0 <= j < {vec}@.len() ==> method_exists(genv.trait_env.inherent_impls, {ty0}, (#[trigger] {vec}@[j]).name@),\n decreases {en}.len() - {i},")
    return f


UNIT = Unit(
    name="U-COMPLMETH",
    properties=["C20"],
    rules=["attrs", "let_chain_rev", "let_chain"],
    describe="query::completions_for_type (fragment: the inherent methods offered after `x.`) and query::colon_colon_inherent_methods (the methods offered after `T::`): every "
             "method name offered is one env::TraitEnv::lookup_inherent_method finds for that receiver type — defined by an impl written for exactly that type, or by a generic impl "
             "of the constructor of that (applied) type — never a method of another instance of the same constructor",
    trusted=["FRAGMENT dot_methods: completions_for_type from `let mut methods` to the sort (the struct fields before it, the sort and the merge are dropped); "
             "colon_colon_inherent_methods: everything but the final sort",
             "InherentTable::get / SchemeMap::entries / Ty::constr_name / Ty::to_pretty are stubs (uninterpreted exact / constr / cname); `V.extend(M.iter().map(|(a, b)| E))` is a push "
             "loop over the map's entries in its order; derived Clone is an identical copy"],
    items=[
        Adt(file="crates/compiler/src/tast.rs", kw="enum", name="Ty", rules=["attrs"]),
        Adt(file="crates/compiler/src/env.rs", kw="enum", name="InherentImplKey", rules=["attrs", ("strip", "tast::")]),
        Adt(file=Q, kw="enum", name="DotCompletionKind", rules=["attrs"]),
        Adt(file=Q, kw="struct", name="DotCompletionItem", rules=["attrs"]),
        Adt(file=Q, kw="enum", name="ColonColonCompletionKind", rules=["attrs"]),
        Adt(file=Q, kw="struct", name="ColonColonCompletionItem", rules=["attrs"]),
        Raw(path="contracts/complmeth.shim.rs"),
        Fn(file=Q, name="completions_for_type", rename="dot_methods", ret="r", attrs="#[verifier::loop_isolation(false)]",
           cut_from="let mut methods: Vec<DotCompletionItem> = Vec::new();", cut_before="methods.sort_by(", cut_tail="    methods",
           sig="fn dot_methods(genv: &GlobalTypeEnv, ty: &Ty) -> Vec<DotCompletionItem>",
           pre_rewrites=PRE, rewrites=RW,
           obligation="every method offered after `x.` exists for the type of x",
           contract="ensures forall|j: int| 0 <= j < r@.len() ==> method_exists(genv.trait_env.inherent_impls, *ty, (#[trigger] r@[j]).name@),",
           ghost=[("@entry", "", "let ghost ty0: Ty = *ty;")],
           loop_fn=loops("methods", "ty0")),
        Fn(file=Q, name="colon_colon_inherent_methods", ret="r", attrs="#[verifier::loop_isolation(false)]",
           cut_before="items.sort_by(", cut_tail="    items",
           pre_rewrites=PRE + [("let mut items = Vec::new();", "let mut items: Vec<ColonColonCompletionItem> = Vec::new(); let ghost rty0 = receiver_ty;", 1)],
           rewrites=RW,
           obligation="every method offered after `T::` exists for the type T",
           contract="ensures forall|j: int| 0 <= j < r@.len() ==> method_exists(genv.trait_env.inherent_impls, receiver_ty, (#[trigger] r@[j]).name@),",
           loop_fn=loops("items", "rty0")),
    ],
)
