"""U-FIELDNAMES: go::compile — the three places that spell a struct's fields (fragments) — C02."""
import re
from vlib.gen import Unit, Fn, Adt, Raw
from units.u_gopkgs import types

GC = "crates/compiler/src/go/compile.rs"
RW = [(re.compile(r"\bgoast::"), "", "*"), (re.compile(r"\bgoty::"), "", "*"), (re.compile(r"\btast::"), "", "*")]

UNIT = Unit(
    name="U-FIELDNAMES",
    properties=["C02"],
    rules=["attrs"],
    describe="the three places of the Go back end that spell the fields of a struct — its definition (gen_type_definition), the composite literal that builds a value "
             "(compile_cexpr, EConstr of a struct) and the selector that reads a field (compile_cexpr, EConstrGet of a struct) — all use go_ident(field name): a field "
             "called `len` or `range` is declared `_goml_len`, so a literal key or a selector spelled differently is rejected by Go",
    trusted=["FRAGMENTS: the field vector of the struct definition; the field vector of the struct literal (the `.iter().zip(..).map(..).collect()` is rewritten to an index "
             "loop over the common prefix, std semantics); the selector of a field read",
             "go_ident / tast_ty_to_go_type / compile_imm are stubs (deterministic functions of their arguments; go_ident is verified by U-GOIDENT)"],
    items=types + [
        Raw(path="contracts/dynvt.shim.rs"),
        Raw(text="#[verifier::external_body] pub struct ImmExpr { _p: u64 }\n#[verifier::external_body] pub struct GlobalGoEnv { _p: u64 }\n"
                 "#[verifier::external_body] pub fn compile_imm(goenv: &GlobalGoEnv, a: &ImmExpr) -> (r: Expr) { unimplemented!() }\n"
                 "pub struct StructDef { pub name: TastIdent, pub generics: Vec<TastIdent>, pub fields: Vec<(TastIdent, Ty)> }\n"),
        Fn(file=GC, name="gen_type_definition", rename="struct_def_fields", ret="r", attrs="#[verifier::loop_isolation(false)]", rules=["attrs", "iter_map_collect"],
           cut_from=re.compile(r"let fields = def\s*\.fields\s*\.iter\(\)\s*\.map\(\|\(fname, fty\)\| goast::Field \{"), cut_before="defs.push(goast::Item::Struct(goast::Struct {", cut_tail="    fields",
           sig="fn struct_def_fields(def: &StructDef) -> Vec<Field>",
           pre_rewrites=[(re.compile(r"\s*\n\s*\.(?=\w)"), ".", "*")],
           rewrites=RW + [(re.compile(r"let mut (__mo\d+) = Vec::new\(\);"), r"let mut \1: Vec<Field> = Vec::new();", "*"), ("let fields = {", "let fields: Vec<Field> = {")],
           obligation="the Go struct declares one field per goml field, in order, each named go_ident(field name)",
           contract="ensures r@.len() == def.fields@.len(), forall|i: int| 0 <= i < r@.len() ==> (#[trigger] r@[i]).name@ == gi(def.fields@[i].0.0@),",
           loop_fn=lambda k, header, kw: (lambda mt: (f"invariant {mt.group(1)} <= def.fields.len(), __mo{mt.group(1)[4:]}@.len() == {mt.group(1)},\n"
                                                      f"  forall|i: int| 0 <= i < {mt.group(1)} ==> (#[trigger] __mo{mt.group(1)[4:]}@[i]).name@ == gi(def.fields@[i].0.0@),\n"
                                                      f"decreases def.fields.len() - {mt.group(1)},") if mt else None)(re.search(r"while\s+(__mi\d+)\s*<", header))),
        Fn(file=GC, name="compile_cexpr", rename="struct_literal_fields", ret="r", attrs="#[verifier::loop_isolation(false)]",
           cut_from=re.compile(r"let fields = struct_def\s*\.fields\s*\.iter\(\)\s*\.zip\(args\.iter\(\)\)"), cut_before="goast::Expr::StructLiteral { ty: go_ty, fields }", cut_tail="    fields",
           sig="fn struct_literal_fields(goenv: &GlobalGoEnv, struct_def: &StructDef, args: &Vec<ImmExpr>) -> Vec<(String, Expr)>",
           pre_rewrites=[(re.compile(r"let fields = struct_def\s*\.fields\s*\.iter\(\)\s*\.zip\(args\.iter\(\)\)\s*\.map\(\|\(\(fname, _\), arg\)\| (.*?)\)\s*\.collect\(\);", re.S),
                          r"let mut fields: Vec<(String, Expr)> = Vec::new(); let mut __zi: usize = 0; while __zi < struct_def.fields.len() && __zi < args.len() { "
                          r"let fname = &struct_def.fields[__zi].0; let arg = &args[__zi]; let __e = \1; fields.push(__e); __zi += 1; }", 1)],
           rewrites=RW,
           obligation="the literal has one key per field the struct declares (as many as there are arguments), in order, each key go_ident(field name)",
           contract="requires struct_def.fields@.len() == args@.len(),\n"
                    "ensures r@.len() == struct_def.fields@.len(), forall|i: int| 0 <= i < r@.len() ==> (#[trigger] r@[i]).0@ == gi(struct_def.fields@[i].0.0@),",
           loop_fn=lambda k, header, kw: ("invariant __zi <= struct_def.fields.len(), fields@.len() == __zi,\n"
                                          "  forall|i: int| 0 <= i < __zi ==> (#[trigger] fields@[i]).0@ == gi(struct_def.fields@[i].0.0@),\n"
                                          "decreases struct_def.fields.len() - __zi,") if "__zi <" in header else None),
        Fn(file=GC, name="compile_cexpr", rename="struct_field_selector", ret="r",
           cut_from="let (field_name, field_ty) = &fields[*field_index];", cut_before="@block-end",
           sig="fn struct_field_selector(obj: Expr, fields: &Vec<(String, Ty)>, field_index: &usize) -> Expr",
           rewrites=RW,
           obligation="a field read selects go_ident(name of the field at that index)",
           contract="requires *field_index < fields@.len(),\nensures r matches Expr::FieldAccess { field, .. } && field@ == gi(fields@[*field_index as int].0@),"),
    ],
)
