"""U-SEPDIAG: separate::typecheck_single_package and its whole-program twin pipeline::typecheck_package (whole) — C14: `check` / `build` see the name-resolution errors as well as the typer's."""
import re
from vlib.gen import Unit, Fn, Adt, Raw

S = "crates/compiler/src/pipeline/separate.rs"

UNIT = Unit(
    name="U-SEPDIAG",
    properties=["C14"],
    rules=["attrs"],
    describe="separate::typecheck_single_package (whole), the type-checking step `check` and `build` share: the diagnostics it returns hold the errors of name resolution / "
             "lowering AND those of the type checker run on the lowered package — so a package the whole-program driver rejects for a resolver-only error (a type of a "
             "package that this file does not import, a function named like a builtin) is not accepted by the separate driver (U-CHKBUILD: errors => Err)",
    trusted=["hir::lower_to_hir_files_with_env, typer::check_file_with_env, PackageInterface::from_hir are stubs: their error counts are uninterpreted functions of their inputs; "
             "Diagnostics is its number of errors, `append` adds the counts; derived Clone is an identical copy; the whole-program side of the comparison is U-STAGEGATE's"],
    items=[
        Raw(path="contracts/sepdiag.shim.rs"),
        Fn(file=S, name="typecheck_single_package", ret="r",
           pre_rewrites=[("files: Vec<hir::SourceFileAst>", "files: SourceFiles", 1), ("deps_interfaces: &HashMap<String, hir::PackageInterface>", "deps_interfaces: &IfaceMap", 1),
                         ("deps_envs: HashMap<String, GlobalTypeEnv>", "deps_envs: EnvMap", 1), ("crate::tast::File", "TastFile", 1), ("hir::PackageInterface,", "PackageInterface,", 1),
                         ("diagnostics::Diagnostics,", "Diagnostics,", 1), ("hir::lower_to_hir_files_with_env(", "lower_to_hir_files_with_env(", 1),
                         ("hir::PackageInterface::from_hir(", "interface_from_hir(", 1), ("crate::typer::check_file_with_env(", "check_file_with_env(", 1),
                         ("GlobalTypeEnv::new()", "global_type_env_new()", 1), (re.compile(r"\.clone\(\)"), ".vclone()", "*")],
           obligation="the returned diagnostics hold the resolver's errors and the typer's",
           contract="ensures r.3.errors() >= hir_errors(files, *deps_interfaces) + typer_errors(lowered(files, *deps_interfaces).0, lowered(files, *deps_interfaces).1, package@, deps_envs),"),
        Fn(file="crates/compiler/src/pipeline/pipeline.rs", name="typecheck_package", ret="r",
           pre_rewrites=[("package_id: hir::PackageId,", "package_id: PackageId,", 1), ("package: &packages::PackageUnit,", "package: &PackageUnit,", 1),
                         ("deps_envs: HashMap<String, GlobalTypeEnv>,", "deps_envs: EnvMap,", 1), ("deps_interfaces: &HashMap<String, hir::PackageInterface>,", "deps_interfaces: &IfaceMap,", 1),
                         ("hir::lower_to_hir_files_with_env(", "lower_to_hir_files_with_env(", 1), ("hir::PackageInterface::from_hir(", "interface_from_hir(", 1),
                         ("typer::check_file_with_env(", "check_file_with_env(", 1), ("GlobalTypeEnv::new()", "global_type_env_new()", 1), ("&package.name,", "string_as_str(&package.name),", 1),
                         ("interface: PackageInterface {", "interface: PkgInterface {", 1), (re.compile(r"\.clone\(\)"), ".vclone()", "*")],
           obligation="the whole-program driver's per-package step returns the resolver's errors and the typer's — the same statement as for the separate driver",
           contract="ensures r.diagnostics.errors() >= hir_errors(package.files, *deps_interfaces) + typer_errors(lowered(package.files, *deps_interfaces).0, lowered(package.files, *deps_interfaces).1, package.name@, deps_envs),"),
    ],
)
