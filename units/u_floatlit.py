"""U-FLOATLIT: the Float32Expr / Float64Expr arms of ast::lower::lower_expr_with_args (fragments) — C10, C11."""
import re
from vlib.gen import Unit, Fn, Adt, Raw
from units.u_strlit import UNIT as STR, LW

base = []
for it in STR.items:
    if isinstance(it, Fn):
        break
    base.append(it)
STRIP = (re.compile(r"\b(\w+)\.strip_suffix\((\"[^\"]*\")\)\.unwrap_or\(&\1\)\.to_string\(\)"), r"str_to_string(str_without_suffix(&\1, \2))", "*")


def arm(width):
    return Fn(file=LW, name="lower_expr_with_args", rename=f"lower_float{width}_expr", ret="r",
              cut_from=f"cst::Expr::Float{width}Expr(it) => {{", cut_inside=True, cut_before="@block-end", cut_tail="",
              sig=f"fn lower_float{width}_expr(ctx: &mut LowerCtx, it: CstNode, trailing_args: &Vec<TrailingArg>) -> Option<ast::Expr>",
              pre_rewrites=[STRIP],
              obligation=f"the digits of an f{width} literal are the token's text without ONE trailing `f{width}`, nothing else removed",
              contract=f"""ensures r matches Some(e) ==> (e matches ast::Expr::EFloat{width} {{ value, .. }} && it.tok() is Some && value@ == without_suffix(it.tok()->0.text(), "f{width}"@)),
            (it.tok() is Some && trailing_args@.len() == 0) ==> r is Some,""")


UNIT = Unit(
    name="U-FLOATLIT",
    properties=["C10", "C11"],
    rules=STR.rules,
    describe="ast::lower, suffixed float literals (fragments of lower_expr_with_args): the text handed on as the value of `1.32f32` / `0.64f64` is the token's text "
             "without exactly one trailing `f32` / `f64` — no digit of the fraction is lost with the suffix — and a literal without trailing arguments is accepted",
    trusted=["FRAGMENTS: the two arms only; `text.strip_suffix(S).unwrap_or(&text).to_string()` is read as ONE shim call (std semantics of strip_suffix + unwrap_or assumed)",
             "the contract is stated for every token text, not only for texts the lexer produces (digits, one suffix): a rewrite that differs from strip_suffix only on "
             "texts the lexer never produces (`trim_end_matches(\"f32\")`) would be reported although harmless",
             "how the digits are parsed later (typer, Go printer) is not part of this unit: float parsing and printing stay C10's residual"],
    items=base + [Raw(path="contracts/floatlit.shim.rs"), arm(32), arm(64)],
)
