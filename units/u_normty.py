"""U-NORMTY: typer::unify::Typer::subst_ty_silent (whole) — C20: the recorded types the editor queries read carry no bound inference variable."""
import re
from vlib.gen import Unit, Fn, Adt, Raw

U = "crates/compiler/src/typer/unify.rs"
T = "crates/compiler/src/tast.rs"


def loops(k, header, kw):
    mt = re.search(r"while\s+__mi(\d+)\s*<\s*(\w+)\.len\(\)", header)
    if not mt:
        return None
    i, c = mt.group(1), mt.group(2)
    return (f"invariant __mi{i} <= {c}.len(), __mo{i}@.len() == __mi{i}, self.uni@ == old(self).uni@,\n"
            f"  forall|j: int| 0 <= j < __mi{i} ==> is_norm(old(self).uni@, ty_rank(__t0), #[trigger] {c}@[j], __mo{i}@[j]),\n"
            f"decreases {c}.len() - __mi{i},")


def list_hint(c):
    return (f"proof {{ lemma_list_rank({c}@, {c}@.len() as int, __IDX as int); }}")


# PROOF HINTS at the recursive calls (ghost only: the call's value is bound to a name so that a lemma can speak about it; nothing executable changes)
def _box(mt):
    """`Box::new(self.subst_ty_silent(X))` -> `Box::new({ let __b = <the same call>; proof { .. } __b })`: the child's result, normalised within the child's own bound, is normalised within the parent's (lemma_norm_mono)"""
    x = mt.group(1)
    return (f"Box::new({{ let __b = self.subst_ty_silent({x}); proof {{ lemma_norm_mono(old(self).uni@, ty_rank(**{x}), ty_rank(__t0), **{x}, __b); }} __b }})")


def _var(mt):
    """`Some(value) => Some(self.subst_ty_silent(value))` (the bound-variable arm) -> the same with the call's value bound to a name and lemma_norm_mono applied: the binding's rank lies below the variable's (acyclicity)"""
    return ("Some(value) => Some({ let __b = self.subst_ty_silent(value); proof { lemma_norm_mono(old(self).uni@, ty_rank(*value), rank(*v), *value, __b); } __b })")


def _elem(mt):
    """loop body `let X = &LIST[i]; let __e = self.subst_ty_silent(X); OUT.push(__e);` -> the same with lemma_list_rank in front of the call (the element's rank is at most the list's) and lemma_norm_mono behind it"""
    x, lst, i, out = mt.group(1), mt.group(2), mt.group(3), mt.group(4)
    return (f"let {x} = &{lst}[{i}]; proof {{ lemma_list_rank({lst}@, {lst}@.len() as int, {i} as int); }} let __e = self.subst_ty_silent({x}); "
            f"proof {{ lemma_norm_mono(old(self).uni@, ty_rank(*{x}), ty_rank(__t0), *{x}, __e); }} {out}.push(__e);")


HINT_BOX = (re.compile(r"Box::new\(self\.subst_ty_silent\((\w+)\)\)"), _box, "*")
HINT_VAR = (re.compile(r"Some\(value\) => Some\(self\.subst_ty_silent\(value\)\)"), _var, "*")
HINT_ELEM = (re.compile(r"let (\w+) = &(\w+)\[(__mi\d+)\]; let __e = self\.subst_ty_silent\(\1\); (__mo\d+)\.push\(__e\);"), _elem, "*")


UNIT = Unit(
    name="U-NORMTY",
    properties=["C20"],
    rules=["attrs", ("strip", "tast::"), "opt_map", "iter_map_collect"],
    describe="typer::unify::Typer::subst_ty_silent — the substitution TypeckResultsBuilder::finalize_types applies to every expression / pattern / local type before the "
             "editor queries (hover, completion) read them: the result is the type with every BOUND inference variable replaced by its binding all the way down "
             "(`is_norm`), at every depth of tuples, applications, arrays, vectors, references and function types; so no variable the compiler has assigned a type to "
             "is reported (lemma_norm_resolved); terminates on an acyclic table",
    trusted=["ena's InPlaceUnificationTable is the shim UniTable: a finite map from variables to the types they are bound to; probe_value answers from it and does not "
             "change it (path compression aside)",
             "ASSUMED precondition: the table is ACYCLIC — there is a rank under which every variable of a bound type lies below the variable it is bound to. That is what "
             "the occurs check (U-OCCURS) is for; the step from the occurs check to this rank is not proved",
             "derived Clone on String is an identical copy (string_clone); `.as_ref().map(|value| ..)` on the probed Option is a match (rule opt_map)",
             "that finalize_types applies this function to every recorded type (typer::results) is not part of the unit"],
    items=[
        Adt(file=T, kw="struct", name="TypeVar", rules=["attrs", "pubfields"], attrs="#[derive(Clone, Copy, PartialEq, Eq, Structural)]"),
        Adt(file=T, kw="enum", name="Ty", rules=["attrs"]),
        Raw(path="contracts/normty.spec.rs"),
        Fn(file=U, name="subst_ty_silent", container="Typer", ret="r", attrs="#[verifier::loop_isolation(false)]",
           rewrites=[(re.compile(r"\b(name|trait_name): \1\.clone\(\)"), r"\1: string_clone(\1)", "*"), HINT_BOX, HINT_VAR, HINT_ELEM],
           obligation="r is ty with every bound inference variable replaced by its binding, all the way down; the table is unchanged",
           contract="requires acyclic(old(self).uni@),\nensures is_norm(old(self).uni@, ty_rank(*ty), *ty, r), final(self).uni@ == old(self).uni@,\n        decreases ty_rank(*ty), *ty,",
           loop_fn=loops,
           ghost=[("@entry", "", "let ghost __t0 = *ty;")]),
    ],
)
