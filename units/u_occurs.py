from vlib.gen import Unit, Fn, Adt, Raw

U = "crates/compiler/src/typer/unify.rs"


import re

SAME = "diagnostics.view() == old(diagnostics).view()"


def loop_inv(k, header, kw):
    """invariants chosen from the loop HEADER (which list is walked), not from the loop's ordinal"""
    mt = re.search(r"while\s+(__fk\d+)\s*<\s*(\w+)\.len\(\)", header)      # `for x in LIST.iter()` (rule for_index)
    if mt:
        i, c = mt.group(1), mt.group(2)
        return f"invariant {i} <= {c}.len(), !tv_in_list(var, {c}@, {i} as int), {SAME},\n decreases {c}.len() - {i},"
    mt = re.search(r"while\s+__j(\d+)\s*<\s*(\w+)\.len\(\)", header)        # `LIST.iter().all(..)` (rule iter_all)
    if mt:
        j, q, c = "__j" + mt.group(1), "__q" + mt.group(1), mt.group(2)
        return (f"invariant {j} <= {c}.len(), {q} ==> (!tv_in_list(var, {c}@, {j} as int) && {SAME}),\n"
                f"  !{q} ==> (tv_in_list(var, {c}@, {c}@.len() as int) && diagnostics.view().len() > old(diagnostics).view().len()),\n"
                f" decreases {c}.len() - {j},")
    return None


UNIT = Unit(
    name="U-OCCURS",
    properties=["C04"],
    rules=["attrs", "fmtmsg", ("strip", "tast::"), "for_index", "iter_all", "box_as_ref"],
    describe="typer::unify::occurs (the occurs check guarding every binding of a type variable): returns true exactly when the variable does "
             "NOT occur anywhere in the type (tuples, applications, arrays, vectors, references, function parameters AND result), so no "
             "cyclic type is ever bound (a cyclic binding makes norm()/subst recurse until the stack overflows); a rejected binding always "
             "comes with a diagnostic; terminates",
    trusted=["the step from `no variable is bound to a type containing itself` to termination of Typer::norm / the substitution passes is "
             "not proved here (ena's unification table is outside the unit)",
             "occurs() is called on normalised types (unify normalises both sides first): occurrence through already-bound variables is the caller's concern"],
    items=[
        Raw(path="contracts/parser.shim.rs"),
        Adt(file="crates/compiler/src/tast.rs", kw="struct", name="TypeVar", rules=["attrs", "pubfields"],
            attrs="#[derive(Clone, Copy, PartialEq, Eq, Structural)]"),
        Adt(file="crates/compiler/src/tast.rs", kw="enum", name="Ty", rules=["attrs"]),
        Raw(path="contracts/box.shim.rs"),
        Raw(path="contracts/occurs.spec.rs"),
        Fn(file=U, name="occurs", ret="r", attrs="#[verifier::loop_isolation(false)]",
           obligation="r == !(var occurs in ty); rejected => a diagnostic is pushed, accepted => none",
           contract="""ensures r == !tv_in(var, *ty),
            r ==> final(diagnostics).view() == old(diagnostics).view(),
            !r ==> final(diagnostics).view().len() > old(diagnostics).view().len(),
        decreases *ty,""",
           ghost=[("@entry", "", "proof { reveal_with_fuel(tv_in, 2); reveal_with_fuel(tv_in_list, 2); broadcast use lemma_tv_list_any; }")],
           loop_fn=loop_inv),
    ],
)
