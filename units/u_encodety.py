"""U-ENCODETY: go::mangle::encode_ty, the arm for tuple types (fragment) — C19, C02."""
import re
from vlib.gen import Unit, Fn, Adt, Raw

MG = "crates/compiler/src/go/mangle.rs"

def derived():
    """the fixed text in front of the arity, read from the tuple arm's format string on every run; the shape `<text>{}_{}` with the arguments (typs.len(), inner) is required"""
    from vlib import gen
    from vlib.rsitems import AnchorLost
    src = gen.load_source(MG)
    s0, b0, e0 = src.find_fn("encode_ty", None)
    body = src.text[b0:e0]
    i = body.find("tast::Ty::TTuple { typs } =>")
    j = body.find("tast::Ty::TEnum", i)
    arm = body[i:j]
    hits = re.findall(r'format!\(\s*"([^"\\{}]*)\{\}_\{\}"\s*,\s*typs\.len\(\)\s*,\s*inner\s*\)', arm)
    if i >= 0 and len(hits) != 1:
        # the shape before fix 5b85282 — the components directly behind a fixed text, NO arity: the fragment is checked against the same statement and fails it
        hits = re.findall(r'format!\(\s*"([^"\\{}]*)\{\}"\s*,\s*inner\s*\)', arm)
    if i < 0 or len(hits) != 1:
        raise AnchorLost("encode_ty, tuple arm: `format!(\"<text>{}_{}\", typs.len(), inner)` not found (the arity directly behind a fixed text, then `_`, then the components)")
    return ("// DERIVED from the tuple arm's format string on every run: the fixed text in front of the arity\n"
            f'pub open spec fn tuple_pre() -> Seq<char> {{ "{hits[0]}"@ }}\n')


UNIT = Unit(
    name="U-ENCODETY",
    properties=["C19", "C02"],
    rules=["attrs", ("strip", "tast::"), "fmt_concat"],
    describe="go::mangle::encode_ty, the arm for tuple types (fragment): the spelling of a tuple type — part of the names of dyn vtable constructors and wrappers "
             "(`dyn__Tr__vtable__<spelling>`) and of the array / reference runtime helpers — is `Tuple`, the NUMBER of components, `_`, the components' spellings; lemma: two "
             "tuple spellings are equal only for the same number of components, so `((a, b), c, d)` and `((a, b, c), d)` no longer share a vtable constructor (two Go "
             "functions of one name: the defect repaired by the fix of round 7)",
    trusted=["FRAGMENT tuple_code_of: one arm of encode_ty; `typs.iter().map(encode_ty).collect::<Vec<_>>().join(\"_\")` is the stub join_encoded (an uninterpreted function of the "
             "component list); `format!` with plain `{}` placeholders is concatenation (rule fmt_concat; the Display text of a usize: decimal digits, no `_`, injective — std, ASSUMED)",
             "NOT claimed: injectivity of encode_ty as a whole (a user type named `Opt_int32` and `Opt[int32]` still coincide; U-INSTNAME keeps treating encode_ty as not injective)"],
    items=[
        Adt(file="crates/compiler/src/tast.rs", kw="enum", name="Ty", rules=["attrs"]),
        Raw(path="contracts/fmt.shim.rs"),
        Raw(text=derived, item="crates/compiler/src/go/mangle.rs::encode_ty tuple arm format string (tuple_pre)"),
        Raw(path="contracts/encodety.shim.rs"),
        Fn(file=MG, name="encode_ty", rename="tuple_code_of", ret="r",
           cut_from=re.compile(r"tast::Ty::TTuple \{ typs \} => \{"), cut_inside=True, cut_before="@block-end", cut_tail="",
           sig="fn tuple_code_of(typs: &Vec<Ty>) -> String",
           pre_rewrites=[(re.compile(r"typs\.iter\(\)\.map\(encode_ty\)\.collect::<Vec<_>>\(\)\.join\(\"_\"\)"), "join_encoded(typs)", 1)],
           obligation="the tuple spelling is `Tuple`, the number of components, `_`, the components",
           contract="ensures r@ =~= tuple_code(typs@.len() as int, joined(typs@)),"),
    ],
)
