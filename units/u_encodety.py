"""U-ENCODETY: go::mangle::encode_ty, the arm for tuple types (fragment) — C19, C02."""
import re
from vlib.gen import Unit, Fn, Adt, Raw

MG = "crates/compiler/src/go/mangle.rs"

UNIT = Unit(
    name="U-ENCODETY",
    properties=["C19", "C02"],
    rules=["attrs", ("strip", "tast::"), "fmt_concat"],
    describe="go::mangle::encode_ty, the arm for tuple types (fragment): the spelling of a tuple type — part of the names of dyn vtable constructors and wrappers "
             "(`dyn__Tr__vtable__<spelling>`) and of the array / reference runtime helpers — is `Tuple`, the NUMBER of components, `_`, the components' spellings; lemma: two "
             "tuple spellings are equal only for the same number of components, so `((a, b), c, d)` and `((a, b, c), d)` no longer share a vtable constructor (two Go "
             "functions of one name: the defect repaired by the fix of round 7)",
    trusted=["FRAGMENT tuple_code_of: one arm of encode_ty; `typs.iter().map(encode_ty).collect::<Vec<_>>().join(\"_\")` is the stub join_encoded (an uninterpreted function of the "
             "component list); `format!` with plain `{}` placeholders is concatenation (rule fmt_concat; the Display text of a usize: decimal digits, no `_`, injective — std, ASSUMED)",
             "NOT claimed: injectivity of encode_ty as a whole (a user type named `Opt_int32` and `Opt[int32]` still coincide; U-INSTNAME keeps treating encode_ty as not injective)"],
    items=[
        Adt(file="crates/compiler/src/tast.rs", kw="enum", name="Ty", rules=["attrs"]),
        Raw(path="contracts/fmt.shim.rs"),
        Raw(path="contracts/encodety.shim.rs"),
        Fn(file=MG, name="encode_ty", rename="tuple_code_of", ret="r",
           cut_from=re.compile(r"tast::Ty::TTuple \{ typs \} => \{"), cut_inside=True, cut_before="@block-end", cut_tail="",
           sig="fn tuple_code_of(typs: &Vec<Ty>) -> String",
           pre_rewrites=[(re.compile(r"typs\.iter\(\)\.map\(encode_ty\)\.collect::<Vec<_>>\(\)\.join\(\"_\"\)"), "join_encoded(typs)", 1)],
           obligation="the tuple spelling is `Tuple`, the number of components, `_`, the components",
           contract="ensures r@ =~= tuple_code(typs@.len() as int, joined(typs@)),"),
    ],
)
