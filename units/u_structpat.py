"""U-STRUCTPAT: typer::check::Typer::check_pat_constructor, struct arm: the loop that elaborates a struct pattern field by field (fragment) — C06."""
import re
from vlib.gen import Unit, Fn, Adt, Raw

C = "crates/compiler/src/typer/check.rs"
R = "crates/compiler/src/typer/results.rs"

INV = ("invariant __fk0 <= struct_fields@.len(), args_tast@.len() == __fk0, elab_args@.len() == __fk0, distinct_names(struct_fields@),\n"
       "  field_map@ == without_first(written0, struct_fields@, __fk0 as int),\n"
       "  forall|i: int| 0 <= i < __fk0 ==> field_ok(struct_fields@, written0, param_tys@, i, #[trigger] elab_args@[i], args_tast@[i]),\n"
       "decreases struct_fields@.len() - __fk0,")

UNIT = Unit(
    name="U-STRUCTPAT",
    properties=["C06"],
    rules=["attrs", ("strip", "tast::"), ("strip", "hir::")],
    describe="typer::check::Typer::check_pat_constructor, struct arm, the elaboration loop (fragment): position i of the elaborated pattern (StructPatElab.args, from which "
             "tast_builder rebuilds the pattern the match compiler pairs POSITIONALLY with the declared fields) holds the sub-pattern written for the NAME of declared field i, "
             "checked at that field's type — or a wildcard when the pattern does not mention the field — whatever order the pattern lists its fields in",
    trusted=["FRAGMENT: the loop only; the map of written sub-patterns (built just before, duplicates reported) is a parameter; declared field names are assumed distinct",
             "check_pat / check_pat_wild are stubs (uninterpreted typed pattern of a sub-pattern at a type); `param_tys.get(idx).cloned().unwrap_or_else(fresh)` is the stub param_ty_at; "
             "HashMap<String, PatId> is the shim FieldMap; the diagnostic text is dropped",
             "`for (idx, (field_name, _)) in X.iter().enumerate()` is read as an index loop"],
    items=[
        Raw(path="contracts/structpat.shim.rs"),
        Adt(file=R, kw="enum", name="StructPatArgElab", rules=["attrs", ("strip", "tast::"), ("strip", "hir::")]),
        Fn(file=C, name="check_pat_constructor", container="Typer", rename="elaborate_struct_fields", ret="r", as_method_of="Typer", attrs="#[verifier::loop_isolation(false)]",
           cut_from="let mut args_tast = Vec::with_capacity(struct_fields.len());", cut_before="if !field_map.is_empty() {", cut_tail="    (args_tast, elab_args)",
           sig="fn elaborate_struct_fields(&mut self, genv: &GlobalTypeEnv, local_env: &mut LocalTypeEnv, diagnostics: &mut Diagnostics, struct_fields: &Vec<(TastIdent, Ty)>, "
               "field_map: &mut FieldMap, param_tys: &Vec<Ty>, name_display: &String) -> (Vec<Pat>, Vec<StructPatArgElab>)",
           pre_rewrites=[(re.compile(r"for \(idx, \(field_name, _\)\) in struct_fields\.iter\(\)\.enumerate\(\) \{"),
                          "let mut __fk0: usize = 0; while __fk0 < struct_fields.len() { let idx = __fk0; let field_name = &struct_fields[__fk0].0; __fk0 += 1;", 1),
                         (re.compile(r"let expected_ty = param_tys\s*\.get\(idx\)\s*\.cloned\(\)\s*\.unwrap_or_else\(\|\| self\.fresh_ty_var\(\)\);"), "let expected_ty = param_ty_at(param_tys, idx, self);", "*"),
                         (re.compile(r"super::util::push_error\(\s*diagnostics,\s*format!\([^;]*?\),\s*\);", re.S), "push_error_msg(diagnostics);", "*"),
                         (re.compile(r"Vec::with_capacity\([^()]*(?:\([^()]*\))?[^()]*\)"), "Vec::new()", "*"),
                         ("let mut args_tast = Vec::new();", "let mut args_tast: Vec<Pat> = Vec::new();", "*"), ("let mut elab_args = Vec::new();", "let mut elab_args: Vec<StructPatArgElab> = Vec::new();", "*")],
           ghost=[("@entry", "", "let ghost written0 = field_map@;"),
                  ("?let pat_id = field_map.remove(", "line-before", "proof { lemma_without_keeps(written0, struct_fields@, idx as int, idx as int); }")],
           loop_fn=lambda k, header, kw: INV if "__fk0 <" in header else None,
           obligation="elaborated position i = the sub-pattern written for declared field i's name (or a wildcard), for every order of the written fields",
           contract="requires distinct_names(struct_fields@),\n ensures r.1@.len() == struct_fields@.len() && r.0@.len() == struct_fields@.len(),\n"
                    "  forall|i: int| 0 <= i < struct_fields@.len() ==> field_ok(struct_fields@, old(field_map)@, param_tys@, i, #[trigger] r.1@[i], r.0@[i]),"),
    ],
)
