import re
from vlib.gen import Unit, Fn, Adt, Raw

A = "crates/compiler/src/artifact.rs"
S = "crates/compiler/src/pipeline/separate.rs"

TYPE_RW = [("crate::hir::PackageInterface", "PackageInterface"), ("BTreeMap<String, String>", "DepMap")]

UNIT = Unit(
    name="U-ART",
    properties=["C15", "C04"],
    rules=["attrs", "fmtmsg"],
    describe="artifact.rs: the interface hash covers all six components (format_version, compiler_abi, package, exports, hir_interface, deps); "
             "new() stores it; validate()/validate_hash() accept only unaltered units of the current format version; loaders "
             "(load_interface_from_paths, read_core) return Ok only for usable units of the requested package, Err otherwise (never panic); "
             "CoreUnit::validate accepts EXACTLY the usable units; lemma_altered_core_ir_rejected (a two-unit lemma over that contract: a unit that differs "
             "from an accepted one only in its Core IR is rejected) FAILS on the pinned tree — recorded as a known finding",
    trusted=["serde_json::to_vec / Sha256::digest / hex::encode are modelled as the uninterpreted deterministic functions json_of_view / sha_hex; "
             "collision-freedom and serde field coverage are assumed, not verified",
             "fs::read_to_string / serde_json::from_str return arbitrary values (that is the quantifier over artifact contents)"],
    items=[
        Adt(file=A, kw="const", name="FORMAT_VERSION"),
        Adt(file=A, kw="const", name="COMPILER_ABI"),
        Raw(text="pub struct __Fwd; // (types below are extracted from artifact.rs)\n"),
        Adt(file=A, kw="struct", name="InterfaceUnit", rewrites=TYPE_RW),
        Adt(file=A, kw="struct", name="InterfaceHashView", rewrites=[("&'a crate::hir::PackageInterface", "&'a PackageInterface"), ("&'a BTreeMap<String, String>", "&'a DepMap")]),
        Adt(file=A, kw="struct", name="CoreUnit", rewrites=[("crate::core::File", "CoreFile"), ("BTreeMap<String, String>", "DepMap")]),
        Raw(path="contracts/art.shim.rs"),
        Raw(path="contracts/art.spec.rs"),
        Raw(path="contracts/art.lemmas.rs"),
        Fn(file=A, name="compute_hash", container="InterfaceUnit", ret="r",
           obligation="the hash is the digest of all six components",
           rewrites=[('serde_json::to_vec(&view).expect("InterfaceUnit hash view must serialize")', "serde_json_to_vec_expect(&view)"),
                     ("sha2::Sha256::digest(bytes)", "sha256_digest(bytes)"), ("hex::encode(digest)", "hex_encode(digest)")],
           contract="ensures r@ == self.hash_spec(),",
           ghost=[("@entry", "", "proof { broadcast use digest_of_def; }")]),
        Fn(file=A, name="new", container="InterfaceUnit", ret="r",
           obligation="a freshly built interface carries the current versions and its own hash",
           rewrites=[(": crate::hir::PackageInterface", ": PackageInterface"), ("BTreeMap<String, String>", "DepMap")],
           contract="ensures r.usable(), r.package == package, r.exports == exports, r.hir_interface == hir_interface, r.deps == deps,"),
        Fn(file=A, name="validate_hash", container="InterfaceUnit", ret="r",
           rewrites=[("self.interface_hash == self.compute_hash()", "string_eq(&self.interface_hash, &self.compute_hash())")],
           contract="ensures r == (self.interface_hash@ == self.hash_spec()),"),
        Fn(file=A, name="validate", container="InterfaceUnit", ret="r",
           obligation="InterfaceUnit::validate accepts exactly the usable interfaces (current format version and ABI, unaltered hash)",
           contract="ensures r == self.usable(),"),
        Fn(file=A, name="new", container="CoreUnit", ret="r",
           rewrites=[("crate::core::File", "CoreFile")],
           contract="requires interface.usable(), package@ == interface.package@,\n ensures r.usable(), r.interface == interface, r.core_ir == core_ir,"),
        Fn(file=A, name="validate", container="CoreUnit", ret="r",
           obligation="validate() accepts only usable core units (current versions incl. the embedded interface's, matching package, unaltered hash, same deps)",
           rewrites=[("self.package == self.interface.package", "string_eq(&self.package, &self.interface.package)"),
                     ("self.deps == self.interface.deps", "self.deps.eq(&self.interface.deps)")],
           contract="ensures r == self.usable(),"),
        Fn(file=S, name="read_core", ret="r", rules=["attrs", "fmtmsg", "map_err_q"],
           obligation="read_core returns Ok only for a usable core unit; every failure is an Err",
           rewrites=[("path: &Path", "path: &PathBuf"), ("fs::read_to_string(path)", "fs_read_to_string(path)"),
                     ("serde_json::from_str(&json)", "json_core_from_str(&json)")],
           contract="ensures r matches Ok(u) ==> u.usable(),"),
        Fn(file=S, name="load_interface_from_paths", ret="r", rules=["attrs", "fmtmsg", "map_err_q", "for_index", ("strip", "crate::artifact::")],
           obligation="load_interface_from_paths returns Ok only for a usable interface of the requested package",
           rewrites=[("interface_paths: &[PathBuf]", "interface_paths: &Vec<PathBuf>"),
                     ("fs::read_to_string(&candidate)", "fs_read_to_string(&candidate)"),
                     ("serde_json::from_str(&json)", "json_interface_from_str(&json)"),
                     ("if unit.package != package {", "if str_ne(&unit.package, package) {"),
                     ],
           contract="ensures r matches Ok(u) ==> u.usable() && u.package@ == package@,",
           loops={0: "invariant __fk0 <= interface_paths.len(), decreases interface_paths.len() - __fk0,"}),
    ],
)
