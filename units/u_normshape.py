"""U-NORMSHAPE: typer::unify::Typer::norm (whole; the recursive calls as the stub norm_sub) — C03."""
import re
from vlib.gen import Unit, Fn, Adt, Raw

U = "crates/compiler/src/typer/unify.rs"


def loops(k, header, kw):
    mt = re.search(r"while\s+__mi(\d+)\s*<\s*(\w+)\.len\(\)", header)
    if not mt:
        return None
    i, c = mt.group(1), mt.group(2)
    return (f"invariant __mi{i} <= {c}.len(), __mo{i}@.len() == __mi{i},\n"
            f"  forall|j: int| 0 <= j < __mi{i} ==> normed(#[trigger] {c}@[j], __mo{i}@[j]),\n decreases {c}.len() - __mi{i},")


UNIT = Unit(
    name="U-NORMSHAPE",
    properties=["C03"],
    rules=["attrs", ("strip", "tast::"), "iter_map_collect"],
    describe="typer::unify::Typer::norm (whole) — the normal form unification compares: a type that is not an inference variable keeps its constructor, its enum / struct / "
             "trait / parameter name and its array length, and its i-th component is the normal form of the i-th component (same count, same position: tuple items, head and "
             "arguments of an application, element types, parameters and result); a bound variable is replaced by its binding's normal form, an unbound one stays a variable",
    trusted=["the recursive calls are the stub norm_sub (`normed`, uninterpreted: the induction hypothesis is only WHICH component the call was made on); ena's probe_value / "
             "find are stubs; derived Clone is an identical copy; termination is not claimed (acyclicity: U-OCCURS / U-NORMTY)"],
    items=[
        Adt(file="crates/compiler/src/tast.rs", kw="enum", name="Ty", rules=["attrs"]),
        Raw(path="contracts/concrete.shim.rs"),
        Raw(path="contracts/normshape.shim.rs"),
        Fn(file=U, name="norm", container="Typer", ret="r", attrs="#[verifier::loop_isolation(false)]",
           pre_rewrites=[(re.compile(r"self\.norm\("), "self.norm_sub(", "*"),
                         (re.compile(r"if let Some\(value\) = self\.uni\.probe_value\(\*v\) \{"), "if let Some(value) = self.probe(v) {", 1),
                         (re.compile(r"self\.uni\.find\(\*v\)"), "self.find(v)", "*")],
           rewrites=[(re.compile(r"\b(\w+)\.clone\(\)"), r"vclone(\1)", "*"),
                     (re.compile(r"let mut (__mo\d+) = Vec::new\(\);"), r"let mut \1: Vec<Ty> = Vec::new();", "*")],
           obligation="norm keeps constructor, names, lengths and component positions; only variables are looked through",
           contract="ensures norm_level(*ty, r),",
           loop_fn=loops),
    ],
)
