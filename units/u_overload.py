"""U-OVERLOAD: Typer::solve, Overloaded constraint with a concrete receiver type (fragment) — C17, C16."""
import re
from vlib.gen import Unit, Fn, Adt, Raw

U = "crates/compiler/src/typer/unify.rs"
CLONE = (re.compile(r"\b([a-z_][\w]*(?:\.[a-z_]\w*)*)\.clone\(\)"), r"clone_of(&\1)", "*")


def loops(k, header, kw):
    mt = re.search(r"while\s+(__fk\d+)\s*<\s*__dv\.len\(\)", header)
    if not mt:
        return None
    i = mt.group(1)
    A = "*genv, trait_ident.0@, *self_ty, op.0@"
    return (f"invariant {i} <= __dv.len(), __dv@.len() == genv.deps.vals().len(), forall|j: int| 0 <= j < __dv@.len() ==> *(#[trigger] __dv@[j]) == genv.deps.vals()[j],\n"
            f"  impls@.len() == __n0 + dep_count(genv.deps.vals(), trait_ident.0@, *self_ty, op.0@, {i} as int),\n"
            f"  forall|k: int| 0 <= k < impls@.len() ==> visible_impl({A}, #[trigger] impls@[k]),\n"
            f"  *diagnostics == *old(diagnostics), *still_pending == *old(still_pending), trait_ident.0@ == resolved_name(*genv, trait_name.0@),\n"
            f" decreases __dv.len() - {i},")


def slice_arms(mt):
    """`match V.as_slice() {` .. `[x] =>` / `[] =>`: the slice-pattern match is read through slice_shape (Zero / One(&x) / Many)"""
    return f"match slice_shape(&{mt.group(1)}) {{"


UNIT = Unit(
    name="U-OVERLOAD",
    properties=["C17", "C16"],
    rules=["attrs", "fmtmsg", ("strip", "tast::"), ("strip", "super::util::"), "for_index"],
    describe="Typer::solve, `Overloaded` constraint whose receiver type is concrete (fragment): the implementations looked at are the package's own and those of the packages it "
             "imports, for exactly (resolved trait, receiver type, method); with exactly ONE the call's function type is equated with an instance of that implementation's type and "
             "nothing is reported; with none or with several an error is reported and nothing is equated — an ambiguity is never resolved by picking one",
    trusted=["FRAGMENT overload_concrete: the arm `ty if is_concrete(ty) => {..}` of the Overloaded case of Typer::solve; the enclosing loops, the other constraint kinds and "
             "the deferral of non-concrete receivers are dropped; live variables become parameters (`changed`, `still_pending` by mutable reference)",
             "GlobalTypeEnv::get_trait_impl, util::resolve_type_name, Typer::inst_ty are stubs (uninterpreted impl_of / resolved_name / is_inst: U-INST proves what inst_ty does); "
             "`deps.values()` is the vector values_vec() (the map's values in SOME order); `match v.as_slice() { [x] / [] / _ }` is read through slice_shape (Zero / One / Many)"],
    items=[
        Adt(file="crates/compiler/src/tast.rs", kw="enum", name="Ty", rules=["attrs"]),
        Adt(file="crates/compiler/src/tast.rs", kw="struct", name="TastIdent", rules=["attrs"]),
        Adt(file="crates/compiler/src/env.rs", kw="enum", name="Constraint", rules=["attrs", ("strip", "tast::")]),
        Raw(path="contracts/parser.shim.rs"),
        Raw(path="contracts/overload.shim.rs"),
        Fn(file=U, name="solve", container="Typer", as_method_of="Typer", rename="overload_concrete", attrs="#[verifier::loop_isolation(false)]",
           cut_from=re.compile(r"let \(resolved, _env\) =\s*super::util::resolve_type_name\(genv, &trait_name\.0\);"), cut_before="@block-end", cut_tail="",
           sig="pub fn overload_concrete(&mut self, genv: &PackageTypeEnv, diagnostics: &mut Diagnostics, still_pending: &mut Vec<Constraint>, changed: &mut bool, "
               "op: TastIdent, trait_name: TastIdent, self_ty: &Ty, ty: &Ty, norm_arg_types: Vec<Ty>, norm_ret_ty: Box<Ty>)",
           pre_rewrites=[(re.compile(r"for (\w+) in genv\.deps\.values\(\) \{"), r"let ghost __n0 = impls@.len(); let __dv = genv.deps.values_vec();\nfor \1 in __dv.iter() {", "*"),
                         (re.compile(r"match (\w+)\.as_slice\(\) \{"), slice_arms, "*"),
                         (re.compile(r"\[(\w+)\](\s+if\b|\s*=>)"), r"SliceShape::One(\1)\2", "*"), (re.compile(r"\[\](\s+if\b|\s*=>)"), r"SliceShape::Zero\1", "*"),
                         (re.compile(r"\[(\w+), \.\.\](\s+if\b|\s*=>)"), r"SliceShape::One(\1) | SliceShape::Many(\1)\2", "*"),
                         (re.compile(r"(?<![\w\*])changed = true;"), "*changed = true;", "*"),
                         (re.compile(r"let mut impls = Vec::new\(\);"), "let mut impls: Vec<Ty> = Vec::new();", "*")],
           rewrites=[CLONE],
           obligation="exactly one visible implementation => the call type is equated with an instance of it; none or several => an error, nothing equated",
           contract="requires ty == self_ty,\n"
                    "ensures overload_ok(*genv, trait_name, op, *self_ty, norm_arg_types@, *norm_ret_ty, old(diagnostics)@, final(diagnostics)@, old(still_pending)@, final(still_pending)@, *final(changed)),\n"
                    "  final(diagnostics)@.len() >= old(diagnostics)@.len(), final(still_pending)@.len() >= old(still_pending)@.len(),\n"
                    "  final(diagnostics)@.len() + final(still_pending)@.len() == old(diagnostics)@.len() + old(still_pending)@.len() + 1,   // accounted (U-SOLVELOOP rests on it)\n",
           ghost=[(r"@after-loop:__fk\d+\s*<\s*__dv", "", "let ghost __imp1 = impls@;"),
                  ("match slice_shape(&impls) {", "line-before",
                   "proof { assert forall|k: int| 0 <= k < impls@.len() implies visible_impl(*genv, trait_ident.0@, *self_ty, op.0@, #[trigger] impls@[k]) by { "
                   "if k < __imp1.len() { assert(impls@[k] == __imp1[k]); } } }")],
           loop_fn=loops),
    ],
)
