"""U-DYNPAYLOAD: go::compile::{dyn_payload, go_numeric_type_name} (whole) — C17."""
import re
from vlib.gen import Unit, Fn, Adt, Raw
from units.u_gopkgs import types

GC = "crates/compiler/src/go/compile.rs"
RW = [(re.compile(r"\bgoast::"), "", "*"), (re.compile(r"\bgoty::"), "", "*"), (re.compile(r"\btast::"), "", "*"), (re.compile(r"\banf::"), "", "*"),
      (re.compile(r"\bgo_ty\.clone\(\)"), "gotype_clone(&go_ty)", "*"), (re.compile(r"\bname\.to_string\(\)"), "str_to_string(name)", "*"),
      (re.compile(r"!matches!\(expr, ImmExpr::ImmPrim \{ \.\. \}\)"), "(match expr { ImmExpr::ImmPrim { .. } => false, _ => true })", "*")]

UNIT = Unit(
    name="U-DYNPAYLOAD",
    properties=["C17", "C10"],
    rules=["attrs"],
    describe="go::compile::dyn_payload: the value stored in the `data any` field of a dyn value is the compiled operand itself, except that a numeric LITERAL is wrapped in "
             "a conversion to the Go type of the type it was checked at (`int32(5)`): an untyped constant in an interface gets Go's default type (`int`, `float64`) and "
             "the generated wrapper's type assertion — `self.(int32)` — would fail at run time, so `Show::show(5)` through dyn would disagree with the direct call",
    trusted=["compile_imm / tast_ty_to_go_type are stubs; anf::ImmExpr is a shim with its three variants",
             "Go's rule for constants stored in interfaces, and that the wrapper asserts tast_ty_to_go_type(for_ty), are read off the Go spec / gen_dyn_wrap_fn"],
    items=types + [
        Adt(file="crates/compiler/src/tast.rs", kw="enum", name="Ty", rules=["attrs"]),
        Raw(path="contracts/dynpayload.shim.rs"),
        Fn(file=GC, name="go_numeric_type_name", ret="r", rewrites=RW, optional=True,
           obligation="the Go spelling of a numeric goml type, None for any other type",
           contract="ensures (r is Some) == (go_num_name(*ty) is Some), r is Some ==> r->0@ == go_num_name(*ty)->0,"),
        Fn(file=GC, name="dyn_payload", ret="r", rewrites=RW, optional=True,
           obligation="a numeric literal is stored converted to its own type, anything else as it is",
           contract="ensures payload_ok(r, *expr, *for_ty),"),
        Fn(file=GC, name="compile_cexpr", rename="to_dyn_value", ret="r",
           cut_from=re.compile(r"let dyn_struct_ty = tast_ty_to_go_type\(ty\);"), cut_before="@block-end",
           sig="fn to_dyn_value(goenv: &GlobalGoEnv, trait_name: &TastIdent, for_ty: &Ty, expr: &ImmExpr, ty: &Ty) -> Expr",
           rewrites=RW + [(re.compile(r"\bvtable_ptr_ty\.clone\(\)"), "gotype_clone(&vtable_ptr_ty)", "*"), (re.compile(r'"(data|vtable)"\.to_string\(\)'), r'str_to_string("\1")', "*")],
           obligation="a dyn value is the struct literal { data: <payload>, vtable: <constructor call> } whose payload is stored as dyn_payload stores it",
           contract="ensures r matches Expr::StructLiteral { fields, .. } && fields@.len() == 2 && fields@[0].0@ == \"data\"@ && payload_ok(fields@[0].1, *expr, *for_ty) && fields@[1].0@ == \"vtable\"@,"),
    ],
)
