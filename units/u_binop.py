"""U-BINOP: the EBinary arm of compile_match::compile_expr (typed AST -> Core), as a fragment."""
import re
from vlib.gen import Unit, Fn, Adt, Raw
from units.u_rows import UNIT as ROWS

CM = "crates/compiler/src/compile_match.rs"
base = []
for it in ROWS.items:
    base.append(it)
    if isinstance(it, Raw) and getattr(it, "path", None) == "contracts/rows.shim.rs":
        break

UNIT = Unit(
    name="U-BINOP",
    properties=["C09"],
    rules=["attrs", ("strip", "tast::"), ("strip", "common_defs::")],
    describe="compile_match::compile_expr, EBinary arm (fragment): the builtin `&&` / `||` are SHORT-CIRCUIT — `a && b` becomes `if a { b } else { false }`, "
             "`a || b` becomes `if a { true } else { b }`, so the right operand is evaluated only when the left one does not decide the result "
             "(every later pass names both operands of an EBinary before the operation, so an `&&` left as EBinary evaluates both); every other "
             "builtin operator keeps its operands in order; an overloaded operator becomes a call with the operands as arguments in order",
    trusted=["FRAGMENT: one arm of compile_expr; the recursive calls compile_expr are stubs with an uninterpreted result (core_of); trait_impl_fn_name, "
             "BinaryOp::method_name, core::ebool are stubs"],
    items=base + [
        Raw(path="contracts/binop.shim.rs"),
        Fn(file=CM, name="compile_expr", rename="compile_binary", ret="r",
           cut_from=re.compile(r"\n        EBinary \{\s*op,\s*lhs,\s*rhs,\s*ty,\s*resolution,\s*\} => \{"), cut_inside=True, cut_before="@block-end", cut_tail="",
           sig="fn compile_binary(op: &BinaryOp, lhs: &Box<Expr>, rhs: &Box<Expr>, ty: &Ty, resolution: &BinaryResolution, genv: &GlobalTypeEnv, gensym: &Gensym, diagnostics: &mut Diagnostics) -> core::Expr",
           rewrites=[(re.compile(r"\.clone\(\)"), ".vclone()", "*"), ("op: *op,", "op: op.vclone(),", "*"), (re.compile(r"match \*op \{"), "match op {", "*"), ("op.method_name()", "binop_method_name(op)", "*"),
                     ("let param_tys = vec![lhs_expr.get_ty(), rhs_expr.get_ty()];", "let param_tys = vec_two_ty(lhs_expr.get_ty(), rhs_expr.get_ty());", "*"),
                     ("args: vec![lhs_expr, rhs_expr],", "args: vec_two_core(lhs_expr, rhs_expr),", "*"),
                     ("core::ebool(", "core_ebool(", "*")],
           obligation="builtin && / || become conditionals on the left operand (short-circuit); other builtin operators keep (op, left, right); overloaded "
                      "operators become a call f(left, right)",
           contract="ensures binary_ok(r, *op, core_of(**lhs), core_of(**rhs), *ty, *resolution),"),
    ],
)
