"""U-GOPKGS: go::dce::{collect_packages_in_expr, collect_packages_in_stmt, collect_packages_in_block} — C02, the import pruning sees every reference."""
import re
from vlib.gen import Unit, Fn, Adt, Raw
from units.u_dcefx import UNIT as DCEFX

G = "crates/compiler/src/go/"
types = [it for it in DCEFX.items if isinstance(it, Adt)]
for _n, _kw in [("File", "struct"), ("Item", "enum"), ("Package", "struct"), ("ImportDecl", "struct"), ("ImportSpec", "struct"), ("Struct", "struct"),
                ("TypeAlias", "struct"), ("Interface", "struct"), ("MethodElem", "struct"), ("Field", "struct"), ("Fn", "struct"), ("Receiver", "struct"),
                ("Method", "struct")]:
    types.append(Adt(file=G + "goast.rs", kw=_kw, name=_n, rules=["attrs", ("strip", "goty::")]))

# `for (a, b) in PLACE {` -> `for __pe in PLACE { let a = &__pe.0; let b = &__pe.1;` (iteration by shared reference over a Vec of pairs)
PAIR = (re.compile(r"\bfor \((\w+), (\w+)\) in (&?[\w\.]+) \{"), r"for __pe in \3 { let \1 = &__pe.0; let \2 = &__pe.1;", "*")


def snap():
    n = [0]
    def f(mt):
        """a ghost snapshot `__uN` of the `used` set in front of the N-th `for` loop (textual order) — proof-only"""
        k = n[0]
        n[0] += 1
        return f"let ghost __u{k} = used@; " + mt.group(0)
    return f


def elem_refs(place, body):
    x = f"{place}@[j]"
    if place.endswith("stmts"):
        return f"stmt_refs(#[trigger] {x}, p)"
    if place == "fields":
        return f"expr_refs((#[trigger] {x}).1, p)"
    if place == "cases":
        if "collect_packages_in_expr" in body:
            return f"(expr_refs((#[trigger] {x}).0, p) || stmts_refs({x}.1.stmts@, p))"
        return f"stmts_refs((#[trigger] {x}).1.stmts@, p)"
    return f"expr_refs(#[trigger] {x}, p)"


def loops(k, header, kw, body):
    if re.search(r"while\s+__fk\d+\s*<\s*s\.methods\.len\(\)", header):
        n = re.search(r"__fk(\d+)", header).group(1)
        return (f"invariant __fk{n} <= s.methods.len(),\n"
                f"  forall|p: Seq<char>| imports@.contains(p) ==> (#[trigger] used@.contains(p) <==> (__u{n}.contains(p) || exists|j: int| 0 <= j < __fk{n} && stmts_refs((#[trigger] s.methods@[j]).body.stmts@, p))),\n"
                f"decreases s.methods.len() - __fk{n},")
    if re.search(r"while\s+__fk\d+\s*<\s*file\.toplevels\.len\(\)", header) and "collect_packages_in_item" in body:
        n = re.search(r"__fk(\d+)", header).group(1)
        return (f"invariant __fk{n} <= file.toplevels.len(),\n"
                f"  forall|p: Seq<char>| imports@.contains(p) ==> (#[trigger] used@.contains(p) <==> exists|j: int| 0 <= j < __fk{n} && item_refs(#[trigger] file.toplevels@[j], p)),\n"
                f"decreases file.toplevels.len() - __fk{n},")
    mt = re.search(r"while\s+__fk(\d+)\s*<\s*([\w\.]+)\.len\(\)", header)
    if not mt:
        return None
    n, place = mt.group(1), mt.group(2)
    return (f"invariant __fk{n} <= {place}.len(),\n"
            f"  forall|p: Seq<char>| imports@.contains(p) ==> (#[trigger] used@.contains(p) <==> (__u{n}.contains(p) || exists|j: int| 0 <= j < __fk{n} && {elem_refs(place, body)})),\n"
            f"decreases {place}.len() - __fk{n},")


FOR = (re.compile(r"\bfor \w+ in &?[\w\.]+ \{"), None, "*")
RULES = [("strip", "ast::"), "let_chain_rev", "box_as_ref", "for_index"]
PRE = [PAIR, (re.compile(r"\bname\.split_once\('\.'\)"), "str_split_once_dot(name)", "*"), (re.compile(r"\bpkg\.to_string\(\)"), "str_to_string(pkg)", "*")]
POST = "ensures forall|p: Seq<char>| imports@.contains(p) ==> (#[trigger] final(used)@.contains(p) <==> (old(used)@.contains(p) || {R})),"


def fn(name, r, dec, extra_pre=()):
    return Fn(file=G + "dce.rs", name=name, attrs="#[verifier::loop_isolation(false)]", rules=RULES,
              pre_rewrites=PRE + list(extra_pre) + [(FOR[0], snap(), "*")],
              obligation="for every IMPORTED name: it is in `used` afterwards iff it was before or some call inside the visited code is qualified with it — every child "
                         "is visited, no imported name is added without a reference, none is removed (names that are not imported are never asked for)",
              contract=POST.replace("{R}", r) + f"\n decreases {dec},",
              ghost=[("@entry", "", "proof { reveal_with_fuel(expr_refs, 2); reveal_with_fuel(stmts_refs, 2); reveal_with_fuel(stmt_refs, 2); }")],
              loop_fn=loops)


def gather_loops(k, header, kw, body):
    if re.search(r"__fk\d+\s*<\s*file\.toplevels\.len\(\)", header):
        n = re.search(r"__fk(\d+)", header).group(1)
        return (f"invariant __fk{n} <= file.toplevels.len(),\n"
                f"  forall|i: int, j: int| 0 <= i < __fk{n} && #[trigger] is_spec(file.toplevels@, i, j) ==> names@.contains(import_binding(spec_at(file.toplevels@, i, j))),\n"
                f"  forall|p: Seq<char>| #[trigger] names@.contains(p) ==> binds(file.toplevels@, p),\n"
                f"decreases file.toplevels.len() - __fk{n},")
    if re.search(r"__fk\d+\s*<\s*decl\.specs\.len\(\)", header):
        n = re.search(r"__fk(\d+)", header).group(1)
        return (f"invariant __fk{n} <= decl.specs.len(),\n"
                f"  forall|i: int, j: int| 0 <= i < __gi && #[trigger] is_spec(file.toplevels@, i, j) ==> names@.contains(import_binding(spec_at(file.toplevels@, i, j))),\n"
                f"  forall|j: int| 0 <= j < __fk{n} ==> names@.contains(import_binding(#[trigger] decl.specs@[j])),\n"
                f"  forall|p: Seq<char>| #[trigger] names@.contains(p) ==> binds(file.toplevels@, p),\n"
                f"decreases decl.specs.len() - __fk{n},")
    return None


END_BLOCK = """proof {
    let pushed = toplevels@.len() == tl0.len() + 1;
    if pushed { assert(toplevels@ =~= tl0.push(toplevels@.last())); }
    assert forall|p: Seq<char>| #[trigger] items_refs(toplevels@, p) <==> items_refs(orig.take(k + 1), p) by {
        lemma_items_refs_push(orig.take(k), orig[k], p);
        if pushed { lemma_items_refs_push(tl0, toplevels@.last(), p); }
    }
    assert forall|i: int, j: int| #[trigger] is_spec(toplevels@, i, j) implies items_refs(orig, import_binding(spec_at(toplevels@, i, j))) by {
        if pushed { lemma_is_spec_push(tl0, toplevels@.last(), i, j); }
    }
    assert forall|i: int, j: int| i < k + 1 && #[trigger] is_spec(orig, i, j) && items_refs(orig, import_binding(spec_at(orig, i, j))) implies has_spec(toplevels@, spec_at(orig, i, j)) by {
        if i < k {
            if pushed { lemma_has_spec_push(tl0, toplevels@.last(), spec_at(orig, i, j)); }
        } else {
            assert(s0[j] == spec_at(orig, i, j));
            let j2 = choose|j2: int| 0 <= j2 < fin.len() && fin[j2] == s0[j];
            lemma_is_spec_push(tl0, toplevels@.last(), tl0.len() as int, j2);
            assert(is_spec(toplevels@, tl0.len() as int, j2));
        }
    }
}"""


def prune_loops(k, header, kw, body):
    if "__cv0.len()" in header:
        return ("invariant __cv0@.len() <= orig.len(), __cv0@ == orig.subrange(orig.len() - __cv0@.len(), orig.len() as int),\n"
                "  forall|p: Seq<char>| #[trigger] items_refs(toplevels@, p) <==> items_refs(orig.take(orig.len() - __cv0@.len()), p),\n"
                "  forall|i: int, j: int| #[trigger] is_spec(toplevels@, i, j) ==> items_refs(orig, import_binding(spec_at(toplevels@, i, j))),\n"
                "  forall|i: int, j: int| i < orig.len() - __cv0@.len() && #[trigger] is_spec(orig, i, j) && items_refs(orig, import_binding(spec_at(orig, i, j))) ==> has_spec(toplevels@, spec_at(orig, i, j)),\n"
                "decreases __cv0@.len(),")
    if "__ro0.len()" in header:
        return ("invariant __ro0@.len() <= s0.len(), __ro0@ == s0.subrange(s0.len() - __ro0@.len(), s0.len() as int),\n"
                "  forall|j: int| 0 <= j < decl.specs@.len() ==> items_refs(orig, import_binding(#[trigger] decl.specs@[j])),\n"
                "  forall|j: int| 0 <= j < s0.len() - __ro0@.len() && items_refs(orig, import_binding(#[trigger] s0[j])) ==> exists|j2: int| 0 <= j2 < decl.specs@.len() && decl.specs@[j2] == s0[j],\n"
                "decreases __ro0@.len(),")
    return None


UNIT = Unit(
    name="U-GOPKGS",
    properties=["C02"],
    rules=RULES,
    describe="go::dce::{collect_packages_in_expr, collect_packages_in_stmt, collect_packages_in_block}: the traversal that decides which imports of the "
             "emitted Go file are used adds to `used` EXACTLY the imported names `p` for which a call `p.Name(..)` occurs anywhere inside the visited "
             "expression / statement / block (all 17 expression forms, all 14 statement forms, nested blocks), so prune_unused_imports neither keeps an "
             "import Go would reject as unused nor drops one the code needs; terminates",
    trusted=["std::collections::HashSet<String> is a shim over a mathematical set (new / insert / contains)",
             "`name.split_once('.')` is the stub str_split_once_dot: the package qualifier of a Go name is an uninterpreted function call_pkg of its text",
             "rules for_index / let_chain_rev / box_as_ref (std semantics assumed); `for (a, b) in v` is rewritten to a loop over the pairs",
             "the NOTION of reference: a call whose callee variable is spelled `pkg.Name`, or a type alias whose target is `pkg.T` (extern types). A type `pkg.T` "
             "written anywhere else (a signature, a field) is not modelled — the back end spells extern types through their alias"],
    items=types + [
        Raw(path="contracts/box.shim.rs"),
        Raw(path="contracts/gopkgs.spec.rs"),
        fn("collect_packages_in_expr", "expr_refs(*expr, p)", "*expr"),
        fn("collect_packages_in_stmt", "stmt_refs(*stmt, p)", "*stmt"),
        fn("collect_packages_in_block", "stmts_refs(block.stmts@, p)", "*block"),
        Fn(file=G + "dce.rs", name="collect_packages_in_item", attrs="#[verifier::loop_isolation(false)]", rules=RULES,
           pre_rewrites=PRE + [(FOR[0], snap(), "*")], rewrites=[(re.compile(r"crate::go::goty::GoType::"), "GoType::", "*")],
           obligation="the bodies of a function item and of every method of a struct item are visited, and the target of a type alias counts as a use of the package it "
                      "names; the other items contain no code",
           contract=POST.replace("{R}", "item_refs(*item, p)"), loop_fn=loops),
        Fn(file=G + "dce.rs", name="gather_import_names", ret="r", attrs="#[verifier::loop_isolation(false)]", rules=RULES,
           obligation="the result is exactly the set of names the file's import specs bind",
           contract="ensures forall|i: int, j: int| #[trigger] is_spec(file.toplevels@, i, j) ==> r@.contains(import_binding(spec_at(file.toplevels@, i, j))),\n"
                    "        forall|p: Seq<char>| #[trigger] r@.contains(p) ==> binds(file.toplevels@, p),",
           ghost=[("@loop-body:file\\.toplevels", "", "let ghost __gi = __fk0 as int;"),
                  ("names.insert(import_spec_binding(spec));", "line-after", "proof { assert(is_spec(file.toplevels@, __gi, __fk1 as int - 1)); }")],
           loop_fn=gather_loops),
        Fn(file=G + "dce.rs", name="prune_unused_imports", ret="r", attrs="#[verifier::loop_isolation(false)]",
           rules=[("strip", "ast::"), ("consume", ["file.toplevels"]), "vec_retain", "for_index"],
           pre_rewrites=[(re.compile(r"ast::Item::Import\(mut (\w+)\) => \{"), r"ast::Item::Import(\1) => { let mut \1 = \1;", 1)],
           obligation="the emitted file imports exactly the packages its code refers to: the code refers to the same packages as before, every import spec "
                      "that is left is referred to by the code (Go rejects an unused import), and every spec the code refers to is still there "
                      "(Go rejects an undefined package)",
           contract="ensures forall|p: Seq<char>| #[trigger] items_refs(r.toplevels@, p) <==> items_refs(file.toplevels@, p),\n"
                    "        forall|i: int, j: int| #[trigger] is_spec(r.toplevels@, i, j) ==> items_refs(r.toplevels@, import_binding(spec_at(r.toplevels@, i, j))),\n"
                    "        forall|i: int, j: int| #[trigger] is_spec(file.toplevels@, i, j) && items_refs(file.toplevels@, import_binding(spec_at(file.toplevels@, i, j))) "
                    "==> has_spec(r.toplevels@, spec_at(file.toplevels@, i, j)),",
           ghost=[("@entry", "", "let ghost orig = file.toplevels@;"),
                  ("@loop-body:__cv0", "", "let ghost k = orig.len() - __cv0@.len(); let ghost tl0 = toplevels@; let ghost mut s0: Seq<ImportSpec> = Seq::empty(); "
                                           "let ghost mut fin: Seq<ImportSpec> = Seq::empty();"),
                  ("let item = __cv0.remove(0);", "after", "proof { assert(item == orig[k]); assert(orig.take(k + 1) =~= orig.take(k).push(orig[k])); }"),
                  ("let mut decl = decl;", "after", "proof { s0 = decl.specs@; }"),
                  ("@loop-body:__ro0", "", "let ghost m = s0.len() - __ro0@.len(); let ghost ds0 = decl.specs@;"),
                  ("let __rx0 = __ro0.remove(0);", "after", "proof { assert(__rx0 == s0[m]); assert(is_spec(orig, k, m)); assert(spec_at(orig, k, m) == s0[m]); }"),
                  ("decl.specs.push(__rx0);", "after", "proof { assert(decl.specs@[ds0.len() as int] == s0[m]); assert forall|j: int| 0 <= j < ds0.len() implies decl.specs@[j] == ds0[j] by {} }"),
                  ("@after-loop:__ro0", "", "proof { fin = decl.specs@; }"),
                  ("@loop:0:end", "", END_BLOCK),
                  ("@after-loop:__cv0", "", "proof { assert(orig.take(orig.len() as int) =~= orig); }")],
           loop_fn=prune_loops),
        Fn(file=G + "dce.rs", name="eliminate_dead_vars", ret="r", rules=[("strip", "ast::")],
           pre_rewrites=[("file.toplevels.into_iter().map(dce_item).collect()", "dce_items(file.toplevels)")],
           obligation="the file handed to the Go printer has no unused import: every import spec in it is referred to by the code IN THAT FILE (the imports "
                      "are pruned last, after dead variables and dead functions are gone)",
           contract="ensures forall|i: int, j: int| #[trigger] is_spec(r.toplevels@, i, j) ==> items_refs(r.toplevels@, import_binding(spec_at(r.toplevels@, i, j))),"),
        Fn(file=G + "dce.rs", name="collect_used_packages", ret="r", attrs="#[verifier::loop_isolation(false)]", rules=RULES,
           obligation="an imported name is in the result iff the file's code refers to it",
           contract="ensures forall|p: Seq<char>| imports@.contains(p) ==> (#[trigger] r@.contains(p) <==> items_refs(file.toplevels@, p)),", loop_fn=loops),
    ],
)
