"""U-SCOPE: lexical scoping in name resolution (C05).  The scoping arms of NameResolution::resolve_expr are verified as FRAGMENTS
(one match arm each), against the rule `leak` (contracts/scope.shim.rs): what an expression leaves in scope for the code after it.
The recursive calls appear as stubs carrying that same contract (induction hypothesis for sub-expressions)."""
import re
from units.common import arm_guard
from vlib.gen import Unit, Fn, Adt, Raw

N = "crates/compiler/src/typer/name_resolution.rs"
A = "crates/ast/src/ast.rs"
NR = "NameResolution"
ARGS = "env: &mut ResolveLocalEnv, ctx: &ResolutionContext, hir_table: &mut HirTable) -> hir::ExprId"
SAME = "env_names(final(env).0@) == env_names(old(env).0@)"
VC = (re.compile(r"\.clone\(\)"), ".vclone()", "*")


def env_var(body):
    mt = re.search(r"self\.resolve_(?:expr|pat|closure_param)\(\s*[^,]+,\s*(?:&mut\s+)?(\w+)\s*,", body)
    return mt.group(1) if mt else None


def seq_loop(coll_leak):
    """loop produced by rule iter_map_collect over a list of sub-expressions resolved one after the other"""
    def f(k, header, kw, body):
        mt = re.search(r"while\s+__mi(\d+)\s*<\s*([\w\.]+)\.len\(\)", header)
        if not mt:
            return None
        i, c = mt.group(1), mt.group(2)
        v = env_var(body)
        if v is None:
            return None
        acc = f"{coll_leak}({c}@, __mi{i} as int)"
        if v == "env":
            names = f"env_names(env.0@) == env_names(old(env).0@) + {acc},"
        else:   # a scope opened with env.enter_scope(): the outer environment is not touched
            names = f"env.0@ == old(env).0@, env_names({v}.0@) == env_names(old(env).0@) + {acc},"
        return f"invariant __mi{i} <= {c}.len(), __mo{i}@.len() == __mi{i}, {names}\ndecreases {c}.len() - __mi{i},"
    return f


def fixed_loop(inv):
    def f(k, header, kw, body):
        mt = re.search(r"while\s+__mi(\d+)\s*<\s*([\w\.]+)\.len\(\)", header)
        if not mt:
            return None
        i, c = mt.group(1), mt.group(2)
        return f"invariant __mi{i} <= {c}.len(), __mo{i}@.len() == __mi{i}, {inv}\ndecreases {c}.len() - __mi{i},"
    return f


def arm(name, header, sig_params, post, loop_fn=None, rewrites=(), obligation=""):
    return Fn(file=N, name="resolve_expr", container=NR, as_method_of=NR, rename=name, ret="r",
              attrs="#[verifier::loop_isolation(false)]",
              cut_from=header, cut_inside=True, cut_before="@block-end", cut_tail="",
              sig=f"pub fn {name}(&mut self, {sig_params}, {ARGS}", rewrites=list(rewrites),
              contract=f"ensures {post},", loop_fn=loop_fn, obligation=obligation,
              ghost=[("@entry", "", "proof { broadcast use vstd::seq::group_seq_axioms; reveal_with_fuel(leak, 2); reveal_with_fuel(leaks, 2); }")])


def ret_expr_only(mt):
    """the function is reduced to the expression that initialises `ret_ty:` in the `hir::Fn { .. }` it returns (everything else — parameters, bounds, body — is dropped or covered by other fragments)"""
    from vlib.rsitems import mask, AnchorLost
    text = mt.group(0)
    m = mask(text)
    h = re.search(r"\n\s*ret_ty: ret_ty\b", m)
    e = re.search(r",\s*\n\s*body: self\.resolve_expr\(", m)
    if not h or not e or e.start() < h.end():
        raise AnchorLost("resolve_fn: `ret_ty: ret_ty.. ,` followed by `body: self.resolve_expr(` not found in the returned hir::Fn")
    expr = text[h.start():e.start()].split("ret_ty:", 1)[1].strip()
    return ("pub fn resolve_fn_ret(&mut self, ret_ty: &Option<ast::TypeExpr>, tparams: &TParamSet, ctx: &ResolutionContext) -> Option<hir::TypeExpr> {\n    " + expr + "\n}")


def PARAM_LOOPS(header, body):
    if "__pi <" in header:
        ids = "param_ids" if "param_ids" in body else None
        inv = ("invariant __pi <= params@.len(), env.0@.len() == __pi, forall|i: int| 0 <= i < __pi ==> (#[trigger] env.0@[i]).0 == params@[i].0,\n"
               "  forall|i: int| 0 <= i < __pi ==> hir_table.issued().contains((#[trigger] env.0@[i]).1),\n"
               "  forall|i: int, j: int| 0 <= i < j < __pi ==> (#[trigger] env.0@[i]).1 != (#[trigger] env.0@[j]).1,\n")
        if ids:
            inv += f"  {ids}@.len() == __pi, forall|i: int| 0 <= i < __pi ==> #[trigger] {ids}@[i] == env.0@[i].1,\n"
        return inv + "decreases params@.len() - __pi,"
    if "__zi <" in header:
        return ("invariant __zi <= params@.len(), new_params@.len() == __zi, forall|i: int| 0 <= i < __zi ==> (#[trigger] new_params@[i]).0 == env.0@[i].1,\n"
                "  forall|i: int| 0 <= i < __zi ==> import_checked((#[trigger] new_params@[i]).1),\n"
                "decreases params@.len() - __zi,")
    if "__mi0 <" in header:
        return ("invariant __mi0 <= params@.len(), __mo0@.len() == __mi0, env.0@.len() == params@.len(), forall|i: int| 0 <= i < params@.len() ==> (#[trigger] env.0@[i]).0 == params@[i].0,\n"
                "decreases params@.len() - __mi0,")
    return None


UNIT = Unit(
    name="U-SCOPE",
    properties=["C05", "C16"],
    # the let-annotation clause (the annotation is lowered by the import-checking lowering) is C16's; everything else is C05's
    clause_scope={"C16": {"only": ["import_checked("]}, "C05": {"except": ["import_checked("]}},
    rules=["attrs", "iter_map_collect"],
    describe="name resolution's scoping: ResolveLocalEnv (new / enter_scope / add) and the six scoping-relevant arms of "
             "NameResolution::resolve_expr (block, match, closure, let, if, while) and six pass-through arms (unary, binary, projection, tuple, array, go) against the rule `leak`: a `let` leaves exactly its "
             "pattern's variables in scope for the code after it; a block, a match arm and a closure body are scopes — nothing bound "
             "inside them is visible afterwards; if/while pass on what their parts leave",
    trusted=["FRAGMENTS: each verified arm is the inside of one `ast::Expr::X {..} => { .. }` block of resolve_expr; the 19 other arms "
             "(which hand the environment to their sub-expressions in order) are NOT verified",
             "the recursive calls resolve_expr / resolve_pat are stubs carrying the contract under proof (induction hypothesis); "
             "resolve_pat's contract (it binds exactly the pattern's variables) is assumed",
             "HIR construction and id allocation are opaque (partial shim module `hir`); im::Vector is a shim (clone = copy, push_back appends)"],
    items=[
        arm_guard("crates/compiler/src/typer/name_resolution.rs", "resolve_expr", 'NameResolution', r"match expr \{",
                  ['ast::Expr::EPath', 'ast::Expr::EUnit', 'ast::Expr::EBool', 'ast::Expr::EInt', 'ast::Expr::EInt8', 'ast::Expr::EInt16', 'ast::Expr::EInt32', 'ast::Expr::EInt64', 'ast::Expr::EUInt8', 'ast::Expr::EUInt16', 'ast::Expr::EUInt32', 'ast::Expr::EUInt64', 'ast::Expr::EFloat', 'ast::Expr::EFloat32', 'ast::Expr::EFloat64', 'ast::Expr::EString', 'ast::Expr::EConstr', 'ast::Expr::EStructLiteral', 'ast::Expr::ETuple', 'ast::Expr::EArray', 'ast::Expr::EClosure', 'ast::Expr::ELet', 'ast::Expr::EMatch', 'ast::Expr::EIf', 'ast::Expr::EWhile', 'ast::Expr::EGo', 'ast::Expr::ECall', 'ast::Expr::EUnary', 'ast::Expr::EBinary', 'ast::Expr::EProj', 'ast::Expr::EField', 'ast::Expr::EBlock']),
        Raw(text="pub mod ast {\nuse vstd::prelude::*;\n"),
        Raw(path="contracts/ast.shim.rs"),
        Adt(file=A, kw="struct", name="AstIdent", rules=["attrs"]),
        Adt(file=A, kw="struct", name="ClosureParam", rules=["attrs"]),
        Adt(file=A, kw="enum", name="Expr", rules=["attrs", ("strip", "common_defs::")]),
        Adt(file=A, kw="struct", name="Arm", rules=["attrs"]),
        Adt(file=A, kw="enum", name="Pat", rules=["attrs"]),
        Raw(text="}\n"),
        Adt(file=N, kw="struct", name="ResolveLocalEnv", rules=["attrs"],
            rewrites=[("struct ResolveLocalEnv(im::Vector<", "pub struct ResolveLocalEnv(pub ImVector<")]),
        Raw(path="contracts/scope.shim.rs"),
        Fn(file=N, name="new", container="ResolveLocalEnv", ret="r", rewrites=[("im::Vector::new()", "ImVector::new()")],
           contract="ensures r.0@ == Seq::<(ast::AstIdent, hir::LocalId)>::empty(),"),
        Fn(file=N, name="enter_scope", container="ResolveLocalEnv", ret="r", rewrites=[VC],
           contract="ensures r.0@ == self.0@,", obligation="a scope starts as a copy of the enclosing environment (and is a separate value)"),
        Fn(file=N, name="add", container="ResolveLocalEnv", rewrites=[("name.clone()", "ident_clone(name)")],
           contract="ensures final(self).0@ == old(self).0@.push((*name, new_name)),",
           obligation="a new binding goes to the END of the environment (rfind searches from the back: innermost first)"),
        Fn(file=N, name="rfind", container="ResolveLocalEnv", ret="r", rules=["attrs", "iter_rfind_map", "iter_find_map"],
           rewrites=[(re.compile(r"if name == key \{"), "if ident_eq(name, key) {", "*")],
           contract="""ensures r is None ==> forall|j: int| 0 <= j < self.0@.len() ==> (#[trigger] self.0@[j]).0.0@ != key.0@,
            r matches Some(id) ==> exists|k: int| 0 <= k < self.0@.len() && (#[trigger] self.0@[k]).0.0@ == key.0@ && self.0@[k].1 == id
                && forall|j: int| k < j < self.0@.len() ==> (#[trigger] self.0@[j]).0.0@ != key.0@,""",
           obligation="lookup finds the LAST (innermost, most recent) binding of the name, or none if there is none",
           loop_fn=lambda k, header, kw: (
               "invariant_except_break __ff0 is None, forall|j: int| 0 <= j < __fk0 ==> (#[trigger] self.0@[j]).0.0@ != key.0@,\n"
               "invariant __fk0 <= self.0@.len(),\n"
               "ensures __ff0 is None ==> forall|j: int| 0 <= j < self.0@.len() ==> (#[trigger] self.0@[j]).0.0@ != key.0@,\n"
               "  __ff0 matches Some(id) ==> (__fk0 < self.0@.len() && self.0@[__fk0 as int].0.0@ == key.0@ && self.0@[__fk0 as int].1 == id),\n"
               "decreases self.0@.len() - __fk0,") if "__fk0" in header else (
               "invariant_except_break __rf0 is None, forall|j: int| __rk0 <= j < self.0@.len() ==> (#[trigger] self.0@[j]).0.0@ != key.0@,\n"
               "invariant __rk0 <= self.0@.len(), forall|j: int| __rk0 < j < self.0@.len() ==> (#[trigger] self.0@[j]).0.0@ != key.0@,\n"
               "ensures __rf0 is None ==> forall|j: int| 0 <= j < self.0@.len() ==> (#[trigger] self.0@[j]).0.0@ != key.0@,\n"
               "  __rf0 matches Some(id) ==> (__rk0 < self.0@.len() && self.0@[__rk0 as int].0.0@ == key.0@ && self.0@[__rk0 as int].1 == id),\n"
               "decreases __rk0,")),
        Fn(file=N, name="resolve_expr", container=NR, as_method_of=NR, rename="path_constructor_gate", ret="r", rules=["attrs", "let_chain", "opt_is_some_and"],
           cut_from="ast::Expr::EPath { path, astptr } => {", cut_inside=True, cut_before="if path.len() == 1 {", cut_tail="    None",
           sig="pub fn path_constructor_gate(&mut self, path: &ast::Path, astptr: &ast::MySyntaxNodePtr, env: &mut ResolveLocalEnv, ctx: &ResolutionContext, hir_table: &mut HirTable) -> Option<hir::ExprId>",
           rewrites=[(re.compile(r"return (self\.alloc_expr_with_ptr\((?:[^;]|\n)*?\));", re.S), r"return Some(\1);", "*"), ("args: Vec::new(),", "args: Vec::<hir::ExprId>::new(),", "*")],
           obligation="a one-segment path that names a binder in scope is never taken for the constructor of the same name (C05: a use refers to the innermost "
                      "enclosing binder — parameter, let, pattern variable, closure parameter)",
           contract="""ensures final(env).0@ == old(env).0@,
            forall|n: Seq<char>| path.is_ident(n) && (exists|k: int| 0 <= k < old(env).0@.len() && (#[trigger] old(env).0@[k]).0.0@ == n) ==> r is None,"""),
        Fn(file=N, name="resolve_expr", container=NR, as_method_of=NR, rename="constr_local_gate", ret="r", rules=["attrs", "let_chain", "opt_is_some_and"],
           cut_from="ast::Expr::EConstr {\n                constructor,\n                args,\n                astptr,\n            } => {", cut_inside=True,
           cut_before=re.compile(r"let new_args = args").pattern, cut_tail="    None",
           sig="pub fn constr_local_gate(&mut self, constructor: &ast::Path, args: &Vec<ast::Expr>, astptr: &ast::MySyntaxNodePtr, env: &mut ResolveLocalEnv, ctx: &ResolutionContext, hir_table: &mut HirTable) -> Option<hir::ExprId>",
           rewrites=[(re.compile(r"return (self\.resolve_expr\(&as_path, env, ctx, hir_table\));"), r"return Some(\1);", "*"), ("constructor.clone()", "path_clone(constructor)", "*")],
           obligation="the lowering's form of a bare identifier that is also a constructor name (`EConstr` without arguments, one segment) is resolved as a plain "
                      "name when a binder of that name is in scope — the local wins there too",
           contract="""ensures forall|n: Seq<char>| constructor.is_ident(n) && args@.len() == 0 && (exists|k: int| 0 <= k < old(env).0@.len() && (#[trigger] old(env).0@[k]).0.0@ == n) ==> r is Some,"""),
        Fn(file=N, name="resolve_expr", container=NR, as_method_of=NR, rename="resolve_ident_use", ret="r",
           cut_from="let name_str = &ident.0;", cut_before="@block-end", cut_tail="",
           sig=f"pub fn resolve_ident_use(&mut self, ident: &ast::AstIdent, astptr: &ast::MySyntaxNodePtr, {ARGS}",
           rewrites=[(re.compile(r"Some\(&(def_id|builtin_id)\) = ctx\.(def_names|builtin_names)\.get\("), r"Some(\1) = ctx.\2.get_copied(", 2), VC,
                     ("ctx.builtin_names.get_copied(name_str)", "ctx.builtin_names.get_copied(name_str)")],
           obligation="a use of a name that has a binder in scope resolves to the LAST (innermost, most recent) binder of that name; without a "
                      "binder it is never a local; the environment is not changed by a use",
           contract="""ensures final(env).0@ == old(env).0@,
            final(hir_table).expr_of(r) matches hir::Expr::ENameRef { res, .. } && (
                ((exists|k: int| 0 <= k < old(env).0@.len() && (#[trigger] old(env).0@[k]).0.0@ == ident.0@) ==>
                    (res matches hir::NameRef::Local(id) && exists|k: int| 0 <= k < old(env).0@.len() && (#[trigger] old(env).0@[k]).0.0@ == ident.0@ && old(env).0@[k].1 == id
                        && forall|j: int| k < j < old(env).0@.len() ==> (#[trigger] old(env).0@[j]).0.0@ != ident.0@))
                && ((forall|j: int| 0 <= j < old(env).0@.len() ==> (#[trigger] old(env).0@[j]).0.0@ != ident.0@) ==> !(res is Local))),"""),
        arm("resolve_block", "ast::Expr::EBlock { exprs, astptr } => {", "exprs: &Vec<ast::Expr>, astptr: &ast::MySyntaxNodePtr",
            SAME, seq_loop("leaks"), obligation="a block is a scope: the environment after it is the environment before it"),
        arm("resolve_match", "ast::Expr::EMatch { expr, arms, astptr } => {", "expr: &Box<ast::Expr>, arms: &Vec<ast::Arm>, astptr: &ast::MySyntaxNodePtr",
            "env_names(final(env).0@) == env_names(old(env).0@) + leak(**expr)",
            fixed_loop("env_names(env.0@) == env_names(old(env).0@) + leak(**expr),"),
            rewrites=[(re.compile(r"self\.resolve_pat\(&arm\.pat, &mut (\w+), ctx, hir_table\)"), r"self.resolve_arm_pat(&arm.pat, &mut \1, Ghost(env_names(env.0@)), ctx, hir_table)", "*")],
            obligation="a match arm is a scope: pattern variables and bindings of the arm body are not visible after the match, nor in a LATER arm (each arm's pattern is "
                       "resolved in a scope holding exactly the names visible where the match stands)"),
        arm("resolve_closure", "ast::Expr::EClosure {\n                params,\n                body,\n                astptr,\n            } => {",
            "params: &Vec<ast::ClosureParam>, body: &Box<ast::Expr>, astptr: &ast::MySyntaxNodePtr",
            SAME, fixed_loop("env.0@ == old(env).0@,"),
            obligation="a closure body is a scope: parameters and inner bindings are not visible after the closure"),
        arm("resolve_let", "ast::Expr::ELet {\n                pat,\n                annotation,\n                value,\n                astptr,\n            } => {",
            "pat: &ast::Pat, annotation: &Option<ast::TypeExpr>, value: &Box<ast::Expr>, astptr: &ast::MySyntaxNodePtr",
            "env_names(final(env).0@) == env_names(old(env).0@) + leak(**value) + pat_names(*pat),\n"
            "        let_annotation_import_checked(final(hir_table).expr_of(r))",
            rewrites=[("annotation.as_ref().map(|t| t.into())", "conv_annotation(annotation)", "*"),
                      (re.compile(r"annotation\.as_ref\(\)\.map\(\|t\| \{\s*self\.lower_type_expr\(t, &HashSet::new\(\), ctx\.current_package, ctx\.imports\)\s*\}\)"),
                       "(match annotation { Some(t) => Some(self.lower_type_expr(t, &empty_tparams(), ctx.current_package, ctx.imports)), None => None })", "*")],
            obligation="a let makes exactly its pattern's variables visible to the code after it (the value is resolved BEFORE the pattern binds)"),
        arm("resolve_if", "ast::Expr::EIf {\n                cond,\n                then_branch,\n                else_branch,\n                astptr,\n            } => {",
            "cond: &Box<ast::Expr>, then_branch: &Box<ast::Expr>, else_branch: &Box<ast::Expr>, astptr: &ast::MySyntaxNodePtr",
            "env_names(final(env).0@) == env_names(old(env).0@) + (leak(**cond) + leak(**then_branch) + leak(**else_branch))"),
        arm("resolve_while", "ast::Expr::EWhile { cond, body, astptr } => {",
            "cond: &Box<ast::Expr>, body: &Box<ast::Expr>, astptr: &ast::MySyntaxNodePtr",
            "env_names(final(env).0@) == env_names(old(env).0@) + (leak(**cond) + leak(**body))"),
        # arms that only hand the environment on to their sub-expressions, in evaluation order
        arm("resolve_unary", "ast::Expr::EUnary { op, expr, astptr } => {", "op: &ast::UnaryOp, expr: &Box<ast::Expr>, astptr: &ast::MySyntaxNodePtr",
            "env_names(final(env).0@) == env_names(old(env).0@) + leak(**expr)"),
        arm("resolve_binary", "ast::Expr::EBinary {\n                op,\n                lhs,\n                rhs,\n                astptr,\n            } => {",
            "op: &ast::BinaryOp, lhs: &Box<ast::Expr>, rhs: &Box<ast::Expr>, astptr: &ast::MySyntaxNodePtr",
            "env_names(final(env).0@) == env_names(old(env).0@) + (leak(**lhs) + leak(**rhs))",
            obligation="the left operand is resolved before the right one: what it binds is visible to the right operand, not the other way round"),
        arm("resolve_proj", "ast::Expr::EProj {\n                tuple,\n                index,\n                astptr,\n            } => {",
            "tuple: &Box<ast::Expr>, index: &usize, astptr: &ast::MySyntaxNodePtr",
            "env_names(final(env).0@) == env_names(old(env).0@) + leak(**tuple)"),
        arm("resolve_tuple", "ast::Expr::ETuple { items, astptr } => {", "items: &Vec<ast::Expr>, astptr: &ast::MySyntaxNodePtr",
            "env_names(final(env).0@) == env_names(old(env).0@) + leaks(items@, items@.len() as int)", seq_loop("leaks"),
            obligation="tuple items are resolved left to right, each seeing what the earlier ones bound"),
        arm("resolve_array", "ast::Expr::EArray { items, astptr } => {", "items: &Vec<ast::Expr>, astptr: &ast::MySyntaxNodePtr",
            "env_names(final(env).0@) == env_names(old(env).0@) + leaks(items@, items@.len() as int)", seq_loop("leaks")),
        arm("resolve_go", "ast::Expr::EGo { expr, astptr } => {", "expr: &Box<ast::Expr>, astptr: &ast::MySyntaxNodePtr",
            "env_names(final(env).0@) == env_names(old(env).0@) + leak(**expr)"),
        Fn(file=N, name="resolve_fn", container=NR, as_method_of=NR, rename="resolve_fn_params", ret="r", attrs="#[verifier::loop_isolation(false)]",
           rules=["attrs", "fmtmsg", "iter_map_collect"],
           cut_from="let mut env = ResolveLocalEnv::new();", cut_before="let new_generic_bounds", cut_tail="    (env, new_params)",
           sig="pub fn resolve_fn_params(&mut self, params: &Vec<(ast::AstIdent, ast::TypeExpr)>, generics: &Vec<ast::AstIdent>, ctx: &ResolutionContext, hir_table: &mut HirTable) -> (ResolveLocalEnv, Vec<(hir::LocalId, hir::TypeExpr)>)",
           pre_rewrites=[
               ("for param in params {", "let mut __pi: usize = 0; while __pi < params.len() { let param = &params[__pi]; __pi += 1;"),
               # `params.iter().zip(ids).map(|(param, local_id)| E).collect()`: pairwise, in order (std)
               (re.compile(r"let new_params = params\s*\.iter\(\)\s*\.zip\((\w+)\)\s*\.map\(\|\(param, local_id\)\| \{(.*?)\n            \}\)\s*\.collect\(\);", re.S),
                r"let mut new_params: Vec<(hir::LocalId, hir::TypeExpr)> = Vec::new(); let mut __zi: usize = 0; while __zi < params.len() && __zi < \1.len() { let param = &params[__zi]; let local_id = \1[__zi]; __zi += 1; let __e = {\2\n            }; new_params.push(__e); }", "*"),
               # the shape before fix (ids looked up again by NAME): `.map(|param| { let local_id = env.rfind(..).unwrap_or_else(..); (..) })`
               (re.compile(r"let local_id = env\.rfind\(&param\.0\)\.unwrap_or_else\(\|\| \{.*?\}\);", re.S),
                "let local_id = match env.rfind(&param.0) { Some(__id) => __id, None => { self.ice(rt_msg()); self.fresh_name(string_as_str(&param.0.0), hir_table) } };", "*"),
           ],
           rewrites=[(re.compile(r"let mut (\w+) = Vec::with_capacity\(params\.len\(\)\);"), r"let mut \1: Vec<hir::LocalId> = Vec::new();", "*"),
                     (re.compile(r"self\.fresh_name\(&param\.0\.0, hir_table\)"), "self.fresh_name(string_as_str(&param.0.0), hir_table)", "*"),
                     (re.compile(r"let new_params = \{ let mut __mo0 = Vec::new\(\);"), "let new_params = { let mut __mo0: Vec<(hir::LocalId, hir::TypeExpr)> = Vec::new();", "*"),
                     (re.compile(r"\(&(\w+(?:\.\w+)*)\)\.into\(\)"), r"type_expr_into(&\1)", "*")],
           obligation="every parameter gets a binder of its own (a fresh id, also when two parameters share a name) and is entered into the environment in order",
           contract="ensures params_bound(params@, r.0.0@, r.1@),\n  params_import_checked(r.1@),",      # one clause per line: the verifier names the failed clause by its line, and clause_scope tells C05 from C16 by it
           loop_fn=lambda k, header, kw, body: PARAM_LOOPS(header, body)),
        Fn(file=N, name="resolve_fn", container=NR, as_method_of=NR, rename="resolve_fn_ret", ret="r", rules=["attrs", "opt_map"],
           pre_rewrites=[(re.compile(r"(?s)\A.*\Z"), ret_expr_only, 1)],
           rewrites=[(re.compile(r"\b(\w+)\.into\(\)"), r"type_expr_into(\1)", "*")],      # the plain conversion (no import gate), should the code use it
           obligation="the declared result type of a function goes through the import-checking lowering",
           contract="ensures (r is Some) == (ret_ty is Some), r matches Some(t) ==> import_checked(t),"),
        Fn(file=N, name="resolve_pat", container=NR, as_method_of=NR, rename="resolve_ident_pat", ret="r",
           cut_from="ast::Pat::PVar { name, astptr } => {", cut_inside=True, cut_before="@block-end", cut_tail="",
           sig="pub fn resolve_ident_pat(&mut self, name: &ast::AstIdent, astptr: &ast::MySyntaxNodePtr, env: &mut ResolveLocalEnv, ctx: &ResolutionContext, hir_table: &mut HirTable) -> hir::PatId",
           rewrites=[("name.clone()", "ident_clone(name)", "*"), ("self.fresh_name(&name.0, hir_table)", "self.fresh_name(string_as_str(&name.0), hir_table)", "*"),
                     ("args: Vec::new(),", "args: Vec::<hir::PatId>::new(),", "*")],
           obligation="an identifier pattern that names a constructor of the package (looked up package-wide, not per file) is a nullary constructor "
                      "pattern and binds nothing; any other identifier pattern is a new binder, added at the end of the environment",
           contract="ensures ident_pat_ok(*name, ctx, old(env).0@, final(env).0@, final(hir_table).pat_of(r)),",
           ghost=[("env.add(name, newname);", "line-after", "proof { assert(env.0@.subrange(0, old(env).0@.len() as int) =~= old(env).0@); }")]),
    ],
)
