"""U-SCOPE: lexical scoping in name resolution (C05).  The scoping arms of NameResolution::resolve_expr are verified as FRAGMENTS
(one match arm each), against the rule `leak` (contracts/scope.shim.rs): what an expression leaves in scope for the code after it.
The recursive calls appear as stubs carrying that same contract (induction hypothesis for sub-expressions)."""
import re
from vlib.gen import Unit, Fn, Adt, Raw

N = "crates/compiler/src/typer/name_resolution.rs"
A = "crates/ast/src/ast.rs"
NR = "NameResolution"
ARGS = "env: &mut ResolveLocalEnv, ctx: &ResolutionContext, hir_table: &mut HirTable) -> hir::ExprId"
SAME = "env_names(final(env).0@) == env_names(old(env).0@)"
VC = (re.compile(r"\.clone\(\)"), ".vclone()", "*")


def env_var(body):
    mt = re.search(r"self\.resolve_(?:expr|pat|closure_param)\(\s*[^,]+,\s*(?:&mut\s+)?(\w+)\s*,", body)
    return mt.group(1) if mt else None


def seq_loop(coll_leak):
    """loop produced by rule iter_map_collect over a list of sub-expressions resolved one after the other"""
    def f(k, header, kw, body):
        mt = re.search(r"while\s+__mi(\d+)\s*<\s*([\w\.]+)\.len\(\)", header)
        if not mt:
            return None
        i, c = mt.group(1), mt.group(2)
        v = env_var(body)
        if v is None:
            return None
        acc = f"{coll_leak}({c}@, __mi{i} as int)"
        if v == "env":
            names = f"env_names(env.0@) == env_names(old(env).0@) + {acc},"
        else:   # a scope opened with env.enter_scope(): the outer environment is not touched
            names = f"env.0@ == old(env).0@, env_names({v}.0@) == env_names(old(env).0@) + {acc},"
        return f"invariant __mi{i} <= {c}.len(), __mo{i}@.len() == __mi{i}, {names}\ndecreases {c}.len() - __mi{i},"
    return f


def fixed_loop(inv):
    def f(k, header, kw, body):
        mt = re.search(r"while\s+__mi(\d+)\s*<\s*([\w\.]+)\.len\(\)", header)
        if not mt:
            return None
        i, c = mt.group(1), mt.group(2)
        return f"invariant __mi{i} <= {c}.len(), __mo{i}@.len() == __mi{i}, {inv}\ndecreases {c}.len() - __mi{i},"
    return f


def arm(name, header, sig_params, post, loop_fn=None, rewrites=(), obligation=""):
    return Fn(file=N, name="resolve_expr", container=NR, as_method_of=NR, rename=name, ret="r",
              attrs="#[verifier::loop_isolation(false)]",
              cut_from=header, cut_inside=True, cut_before="@block-end", cut_tail="",
              sig=f"pub fn {name}(&mut self, {sig_params}, {ARGS}", rewrites=list(rewrites),
              contract=f"ensures {post},", loop_fn=loop_fn, obligation=obligation,
              ghost=[("@entry", "", "proof { broadcast use vstd::seq::group_seq_axioms; reveal_with_fuel(leak, 2); reveal_with_fuel(leaks, 2); }")])


UNIT = Unit(
    name="U-SCOPE",
    properties=["C05"],
    rules=["attrs", "iter_map_collect"],
    describe="name resolution's scoping: ResolveLocalEnv (new / enter_scope / add) and the six scoping-relevant arms of "
             "NameResolution::resolve_expr (block, match, closure, let, if, while) and six pass-through arms (unary, binary, projection, tuple, array, go) against the rule `leak`: a `let` leaves exactly its "
             "pattern's variables in scope for the code after it; a block, a match arm and a closure body are scopes — nothing bound "
             "inside them is visible afterwards; if/while pass on what their parts leave",
    trusted=["FRAGMENTS: each verified arm is the inside of one `ast::Expr::X {..} => { .. }` block of resolve_expr; the 19 other arms "
             "(which hand the environment to their sub-expressions in order) are NOT verified",
             "the recursive calls resolve_expr / resolve_pat are stubs carrying the contract under proof (induction hypothesis); "
             "resolve_pat's contract (it binds exactly the pattern's variables) is assumed",
             "HIR construction and id allocation are opaque (partial shim module `hir`); im::Vector is a shim (clone = copy, push_back appends)"],
    items=[
        Raw(text="pub mod ast {\nuse vstd::prelude::*;\n"),
        Raw(path="contracts/ast.shim.rs"),
        Adt(file=A, kw="struct", name="AstIdent", rules=["attrs"]),
        Adt(file=A, kw="struct", name="ClosureParam", rules=["attrs"]),
        Adt(file=A, kw="enum", name="Expr", rules=["attrs", ("strip", "common_defs::")]),
        Adt(file=A, kw="struct", name="Arm", rules=["attrs"]),
        Adt(file=A, kw="enum", name="Pat", rules=["attrs"]),
        Raw(text="}\n"),
        Adt(file=N, kw="struct", name="ResolveLocalEnv", rules=["attrs"],
            rewrites=[("struct ResolveLocalEnv(im::Vector<", "pub struct ResolveLocalEnv(pub ImVector<")]),
        Raw(path="contracts/scope.shim.rs"),
        Fn(file=N, name="new", container="ResolveLocalEnv", ret="r", rewrites=[("im::Vector::new()", "ImVector::new()")],
           contract="ensures r.0@ == Seq::<(ast::AstIdent, hir::LocalId)>::empty(),"),
        Fn(file=N, name="enter_scope", container="ResolveLocalEnv", ret="r", rewrites=[VC],
           contract="ensures r.0@ == self.0@,", obligation="a scope starts as a copy of the enclosing environment (and is a separate value)"),
        Fn(file=N, name="add", container="ResolveLocalEnv", rewrites=[("name.clone()", "ident_clone(name)")],
           contract="ensures final(self).0@ == old(self).0@.push((*name, new_name)),",
           obligation="a new binding goes to the END of the environment (rfind searches from the back: innermost first)"),
        Fn(file=N, name="rfind", container="ResolveLocalEnv", ret="r", rules=["attrs", "iter_rfind_map", "iter_find_map"],
           rewrites=[(re.compile(r"if name == key \{"), "if ident_eq(name, key) {", "*")],
           contract="""ensures r is None ==> forall|j: int| 0 <= j < self.0@.len() ==> (#[trigger] self.0@[j]).0.0@ != key.0@,
            r matches Some(id) ==> exists|k: int| 0 <= k < self.0@.len() && (#[trigger] self.0@[k]).0.0@ == key.0@ && self.0@[k].1 == id
                && forall|j: int| k < j < self.0@.len() ==> (#[trigger] self.0@[j]).0.0@ != key.0@,""",
           obligation="lookup finds the LAST (innermost, most recent) binding of the name, or none if there is none",
           loop_fn=lambda k, header, kw: (
               "invariant_except_break __ff0 is None, forall|j: int| 0 <= j < __fk0 ==> (#[trigger] self.0@[j]).0.0@ != key.0@,\n"
               "invariant __fk0 <= self.0@.len(),\n"
               "ensures __ff0 is None ==> forall|j: int| 0 <= j < self.0@.len() ==> (#[trigger] self.0@[j]).0.0@ != key.0@,\n"
               "  __ff0 matches Some(id) ==> (__fk0 < self.0@.len() && self.0@[__fk0 as int].0.0@ == key.0@ && self.0@[__fk0 as int].1 == id),\n"
               "decreases self.0@.len() - __fk0,") if "__fk0" in header else (
               "invariant_except_break __rf0 is None, forall|j: int| __rk0 <= j < self.0@.len() ==> (#[trigger] self.0@[j]).0.0@ != key.0@,\n"
               "invariant __rk0 <= self.0@.len(), forall|j: int| __rk0 < j < self.0@.len() ==> (#[trigger] self.0@[j]).0.0@ != key.0@,\n"
               "ensures __rf0 is None ==> forall|j: int| 0 <= j < self.0@.len() ==> (#[trigger] self.0@[j]).0.0@ != key.0@,\n"
               "  __rf0 matches Some(id) ==> (__rk0 < self.0@.len() && self.0@[__rk0 as int].0.0@ == key.0@ && self.0@[__rk0 as int].1 == id),\n"
               "decreases __rk0,")),
        Fn(file=N, name="resolve_expr", container=NR, as_method_of=NR, rename="resolve_ident_use", ret="r",
           cut_from="let name_str = &ident.0;", cut_before="@block-end", cut_tail="",
           sig=f"pub fn resolve_ident_use(&mut self, ident: &ast::AstIdent, astptr: &ast::MySyntaxNodePtr, {ARGS}",
           rewrites=[(re.compile(r"Some\(&(def_id|builtin_id)\) = ctx\.(def_names|builtin_names)\.get\("), r"Some(\1) = ctx.\2.get_copied(", 2), VC,
                     ("ctx.builtin_names.get_copied(name_str)", "ctx.builtin_names.get_copied(name_str)")],
           obligation="a use of a name that has a binder in scope resolves to the LAST (innermost, most recent) binder of that name; without a "
                      "binder it is never a local; the environment is not changed by a use",
           contract="""ensures final(env).0@ == old(env).0@,
            final(hir_table).expr_of(r) matches hir::Expr::ENameRef { res, .. } && (
                ((exists|k: int| 0 <= k < old(env).0@.len() && (#[trigger] old(env).0@[k]).0.0@ == ident.0@) ==>
                    (res matches hir::NameRef::Local(id) && exists|k: int| 0 <= k < old(env).0@.len() && (#[trigger] old(env).0@[k]).0.0@ == ident.0@ && old(env).0@[k].1 == id
                        && forall|j: int| k < j < old(env).0@.len() ==> (#[trigger] old(env).0@[j]).0.0@ != ident.0@))
                && ((forall|j: int| 0 <= j < old(env).0@.len() ==> (#[trigger] old(env).0@[j]).0.0@ != ident.0@) ==> !(res is Local))),"""),
        arm("resolve_block", "ast::Expr::EBlock { exprs, astptr } => {", "exprs: &Vec<ast::Expr>, astptr: &ast::MySyntaxNodePtr",
            SAME, seq_loop("leaks"), obligation="a block is a scope: the environment after it is the environment before it"),
        arm("resolve_match", "ast::Expr::EMatch { expr, arms, astptr } => {", "expr: &Box<ast::Expr>, arms: &Vec<ast::Arm>, astptr: &ast::MySyntaxNodePtr",
            "env_names(final(env).0@) == env_names(old(env).0@) + leak(**expr)",
            fixed_loop("env_names(env.0@) == env_names(old(env).0@) + leak(**expr),"),
            obligation="a match arm is a scope: pattern variables and bindings of the arm body are not visible after the match"),
        arm("resolve_closure", "ast::Expr::EClosure {\n                params,\n                body,\n                astptr,\n            } => {",
            "params: &Vec<ast::ClosureParam>, body: &Box<ast::Expr>, astptr: &ast::MySyntaxNodePtr",
            SAME, fixed_loop("env.0@ == old(env).0@,"),
            obligation="a closure body is a scope: parameters and inner bindings are not visible after the closure"),
        arm("resolve_let", "ast::Expr::ELet {\n                pat,\n                annotation,\n                value,\n                astptr,\n            } => {",
            "pat: &ast::Pat, annotation: &Option<ast::TypeExpr>, value: &Box<ast::Expr>, astptr: &ast::MySyntaxNodePtr",
            "env_names(final(env).0@) == env_names(old(env).0@) + leak(**value) + pat_names(*pat)",
            rewrites=[("annotation.as_ref().map(|t| t.into())", "conv_annotation(annotation)")],
            obligation="a let makes exactly its pattern's variables visible to the code after it (the value is resolved BEFORE the pattern binds)"),
        arm("resolve_if", "ast::Expr::EIf {\n                cond,\n                then_branch,\n                else_branch,\n                astptr,\n            } => {",
            "cond: &Box<ast::Expr>, then_branch: &Box<ast::Expr>, else_branch: &Box<ast::Expr>, astptr: &ast::MySyntaxNodePtr",
            "env_names(final(env).0@) == env_names(old(env).0@) + (leak(**cond) + leak(**then_branch) + leak(**else_branch))"),
        arm("resolve_while", "ast::Expr::EWhile { cond, body, astptr } => {",
            "cond: &Box<ast::Expr>, body: &Box<ast::Expr>, astptr: &ast::MySyntaxNodePtr",
            "env_names(final(env).0@) == env_names(old(env).0@) + (leak(**cond) + leak(**body))"),
        # arms that only hand the environment on to their sub-expressions, in evaluation order
        arm("resolve_unary", "ast::Expr::EUnary { op, expr, astptr } => {", "op: &ast::UnaryOp, expr: &Box<ast::Expr>, astptr: &ast::MySyntaxNodePtr",
            "env_names(final(env).0@) == env_names(old(env).0@) + leak(**expr)"),
        arm("resolve_binary", "ast::Expr::EBinary {\n                op,\n                lhs,\n                rhs,\n                astptr,\n            } => {",
            "op: &ast::BinaryOp, lhs: &Box<ast::Expr>, rhs: &Box<ast::Expr>, astptr: &ast::MySyntaxNodePtr",
            "env_names(final(env).0@) == env_names(old(env).0@) + (leak(**lhs) + leak(**rhs))",
            obligation="the left operand is resolved before the right one: what it binds is visible to the right operand, not the other way round"),
        arm("resolve_proj", "ast::Expr::EProj {\n                tuple,\n                index,\n                astptr,\n            } => {",
            "tuple: &Box<ast::Expr>, index: &usize, astptr: &ast::MySyntaxNodePtr",
            "env_names(final(env).0@) == env_names(old(env).0@) + leak(**tuple)"),
        arm("resolve_tuple", "ast::Expr::ETuple { items, astptr } => {", "items: &Vec<ast::Expr>, astptr: &ast::MySyntaxNodePtr",
            "env_names(final(env).0@) == env_names(old(env).0@) + leaks(items@, items@.len() as int)", seq_loop("leaks"),
            obligation="tuple items are resolved left to right, each seeing what the earlier ones bound"),
        arm("resolve_array", "ast::Expr::EArray { items, astptr } => {", "items: &Vec<ast::Expr>, astptr: &ast::MySyntaxNodePtr",
            "env_names(final(env).0@) == env_names(old(env).0@) + leaks(items@, items@.len() as int)", seq_loop("leaks")),
        arm("resolve_go", "ast::Expr::EGo { expr, astptr } => {", "expr: &Box<ast::Expr>, astptr: &ast::MySyntaxNodePtr",
            "env_names(final(env).0@) == env_names(old(env).0@) + leak(**expr)"),
    ],
)
