from vlib.gen import Unit, Fn, Adt, Raw
from units.common import TOKENKIND, TOKEN, IS_TRIVIA, PAR
from units.u_pcore import TYPES, P, PI, RULES

SYN = PAR + "syntax.rs"

UNIT = Unit(
    name="U-TREE",
    properties=["C04", "C12"],
    rules=RULES,
    uses=["use std::mem;"],
    describe="Parser::build_tree: replaying a well-formed, balanced event stream whose Advance count covers the non-trivia tokens emits every token "
             "exactly once, in order, inside a single root node; forward-parent chains terminate; no index/unreachable!/rowan panic; diagnostic ranges are token ranges",
    items=TYPES + [
        Raw(path="contracts/rowan.shim.rs"), Raw(path="contracts/tree.spec.rs"),
        Adt(file=P, kw="struct", name="ParseResult"),
        Fn(file=SYN, name="from", container="From for SyntaxKind", rename="syntax_kind_from", drop_self_impl=True, ret="r",
           rewrites=[("-> Self", "-> SyntaxKind"), ("Self(kind as u16)", "SyntaxKind(kind as u16)")],
           contract="ensures r.0 == kind as u16,"),
        Fn(file=SYN, name="to_syntax_kind", container="ToSyntaxKind for TokenKind", as_method_of="TokenKind", ret="r",
           rewrites=[("rowan::SyntaxKind", "SyntaxKind", 2)],
           contract="ensures r.0 == self as u16,"),
        Fn(file=P, name="build_tree", container="Parser", as_method_of=PI, ret="r", rules=RULES + ["mutself", "closure_inline", "opt_or_else", "opt_map"],
           obligation="lossless: the green tree's leaves are exactly the token vector, in order, each once; rowan never panics; chains terminate",
           rewrites=[
               ("builder.start_node((kind).into())", "builder.start_node(syntax_kind_from(kind))"),
               ("for i in 0..self_.events.len() {", "for i in it: 0..self_.events.len() {"),
               ("for kind in kinds.into_iter().rev() {", "let mut kidx = kinds.len(); while kidx > 0 { kidx -= 1; let kind = kinds[kidx];"),
           ],
           contract="""
    requires
        events_wf(self.events@), balanced(self.events@),
        count_adv(self.events@, self.events@.len() as int) >= nontrivia(self.input.tokens@, self.input.tokens@.len() as int),
        diags_ok(self.input.tokens@, self.diagnostics.view()),
    ensures
        r.green_node.leaves() == tok_view(self.input.tokens@, self.input.tokens@.len() as int),
        diags_ok(self.input.tokens@, r.diagnostics.view()),
""",
           ghost=[
               ("for i in it: 0..", "line-before",
                "let ghost ev0 = self_.events@; let ghost n = ev0.len() as int; let ghost nn = nontrivia(tokens@, tokens@.len() as int);"
                " proof { lemma_nontrivia_mono(tokens@, 0, tokens@.len() as int); assert(tok_view(tokens@, 0) =~= Seq::<(u16, Seq<char>)>::empty()); }"),
               ("@loop:0:body", "",
                "let ghost c0 = self_.events@; proof { lemma_depth_lb(c0, ev0, i as int); lemma_pd_update(c0, i as int, n); lemma_wf_update_tomb(c0, i as int); lemma_count_adv_step(ev0, i as int); assert(pd(ev0, i as int + 1) == pd(ev0, i as int) + delta(ev0[i as int])); }"),
               ("let mut kinds = ", "line-after",
                "proof { assert(kinds@ =~= seq![kind]); assert(count_nt(kinds@, 1) == count_nt(kinds@, 0) + if kind != MySyntaxKind::TombStone { 1int } else { 0int }); assert(fp_ok(c0, i as int)); }"),
               ("idx += ", "line-after", "let ghost c1 = self_.events@;"),
               ("kinds.push(", "line-before",
                "proof { lemma_pd_update(c1, idx as int, n); lemma_wf_update_tomb(c1, idx as int); lemma_rel_update(c1, ev0, i as int + 1, idx as int); lemma_count_nt_push(kinds@, kind); assert(fp_ok(c1, idx as int)); }"),
               ("diagnostics.push(", "line-before",
                "proof { if cursor < tokens.len() { assert(tokens@[cursor as int].range == range->0); } else if tokens.len() > 0 { assert(tokens@[tokens.len() - 1].range == range->0); } }"),
               ("while let Some(token) = tokens.get(cursor)", "line-before",
                "proof { lemma_depth_lb(self_.events@, ev0, i as int + 1); lemma_nontrivia_mono(tokens@, cursor as int, tokens@.len() as int); lemma_count_adv_mono(ev0, i as int + 1, n);"
                " if cursor < tokens.len() && at_boundary(tokens@, cursor as int) { lemma_nontrivia_mono(tokens@, cursor as int + 1, tokens@.len() as int); }"
                " if i as int + 1 == n && i >= 1 { lemma_pd_tombs(self_.events@, n); lemma_boundary_end(tokens@, cursor as int); } }"),
               ("builder.finish()", "line-before",
                "proof { lemma_boundary_end(tokens@, cursor as int); }"),
           ],
           loops={
               0: """invariant
                    n == ev0.len(), n == self_.events.len(), it.iter.end == n, balanced(ev0), events_wf(self_.events@),
                    nn == nontrivia(tokens@, tokens@.len() as int), count_adv(ev0, n) >= nn,
                    tokens@ == self.input.tokens@,
                    cursor <= tokens.len(), builder.toks() == tok_view(tokens@, cursor as int), builder.top_tokens() == 0,
                    diags_ok(tokens@, diagnostics.view()),
                    replay_rel(self_.events@, ev0, i as int),
                    builder.depth() + pd(self_.events@, n) == 0,
                    i >= 1 ==> at_boundary(tokens@, cursor as int),
                    nontrivia(tokens@, cursor as int) == min_int(count_adv(ev0, i as int), nn),
                    i < n ==> builder.top_nodes() == 0,
                    i == n ==> builder.top_nodes() == 1 && builder.depth() == 0,""",
               1: """invariant
                    n == ev0.len(), n == self_.events.len(), events_wf(self_.events@), pd(ev0, n) == 0,
                    i <= idx < n, replay_rel(self_.events@, ev0, i as int + 1),
                    fp matches Some(f) ==> f >= 1 && idx + f < n && self_.events@[idx + f as int] is Open,
                    builder.depth() + pd(self_.events@, n) + count_nt(kinds@, kinds@.len() as int) == 0,
                    kinds@.len() >= 1,
                decreases n - idx,""",
               2: """invariant
                    kidx <= kinds@.len(), n == self_.events.len(),
                    builder.depth() + pd(self_.events@, n) + count_nt(kinds@, kidx as int) == 0,
                    builder.toks() == tok_view(tokens@, cursor as int), builder.top_tokens() == 0, builder.top_nodes() == 0,
                decreases kidx,""",
               3: """invariant
                    cursor <= tokens.len(), builder.toks() == tok_view(tokens@, cursor as int), builder.top_tokens() == 0,
                    nontrivia(tokens@, cursor as int) == min_int(count_adv(ev0, i as int + 1), nn),
                    cursor == tokens.len() || builder.depth() >= 1,
                    builder.depth() + pd(self_.events@, n) == 0,
                    i as int + 1 < n ==> builder.top_nodes() == 0,
                    i as int + 1 == n ==> builder.top_nodes() == 1 && builder.depth() == 0,
                ensures at_boundary(tokens@, cursor as int),
                decreases tokens.len() - cursor,""",
           },
           ),
    ],
)
