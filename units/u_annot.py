"""U-ANNOT: type annotations inside function bodies go through validate_ty (typer::check::{validate_annotation, infer_let_expr, check_let_expr})."""
import re
from vlib.gen import Unit, Fn, Adt, Raw

C = "crates/compiler/src/typer/check.rs"
T = "crates/compiler/src/tast.rs"
CD = "crates/common-defs/src/lib.rs"
VC = (re.compile(r"\.clone\(\)"), ".vclone()", "*")
RW = [VC, ("Ty::from_hir(", "ty_from_hir(", "*"), (re.compile(r"\bself\.check_expr\("), "self.check_expr_a(", "*"),
      ("annotation: &Option<TypeExpr>", "annotation: &Option<TypeExpr>", "*")]


def let_fn(name):
    return Fn(file=C, name=name, container="Typer", ret="r", rules=["attrs", ("strip", "tast::"), ("strip", "hir::"), ("strip", "common_defs::"), "opt_map"],
              rewrites=RW,
              obligation="the type a `let` is annotated with is validated (validate_ty) BEFORE the value is checked against it: an unknown constructor, a wrong "
                         "number of type arguments or a non-dyn-safe `dyn` in a let annotation is a diagnostic, not a panic in a later stage",
              contract="ensures annotation_validated(*annotation, final(diagnostics)),")


UNIT = Unit(
    name="U-ANNOT",
    properties=["C03", "C04"],
    rules=["attrs", ("strip", "tast::"), ("strip", "hir::"), ("strip", "common_defs::")],
    describe="typer::check, `let` with a type annotation (infer_let_expr, check_let_expr: whole functions) and validate_annotation: the written type is "
             "converted (Ty::from_hir) and then handed to typer::util::validate_ty — the validation every signature type gets — before the value is "
             "checked against it (gate: the checker's precondition is that its expected type has been validated)",
    trusted=["validate_ty itself (what it reports) is a stub with a ghost log of the types it has seen; Ty::from_hir is an uninterpreted function of the "
             "type expression; check_expr / infer_expr / check_pat are stubs that keep that log",
             "the two closure-parameter sites (infer_closure_expr, check_closure_expr) call the same validate_annotation but are not under contract"],
    items=[
        Adt(file=T, kw="enum", name="Ty", rules=["attrs"]),
        Adt(file=T, kw="struct", name="TastIdent", rules=["attrs"]),
        Adt(file=T, kw="enum", name="UnaryResolution", rules=["attrs"]),
        Adt(file=T, kw="enum", name="BinaryResolution", rules=["attrs"]),
        Adt(file=CD, kw="enum", name="BinaryOp", rules=["attrs"]),
        Adt(file=CD, kw="enum", name="UnaryOp", rules=["attrs"]),
        Adt(file=T, kw="enum", name="Expr", rules=["attrs", ("strip", "common_defs::")]),
        Adt(file=T, kw="struct", name="Arm", rules=["attrs"]),
        Adt(file=T, kw="enum", name="Pat", rules=["attrs"]),
        Raw(path="contracts/numarms.shim.rs"),
        Raw(path="contracts/annot.shim.rs"),
        Fn(file=C, name="validate_annotation", ret="r", optional=True,
           rewrites=[("tparams_env: &[TastIdent]", "tparams_env: &TparamsEnv"),
                     (re.compile(r"let names = tparams_env\.iter\(\)\.map\(\|t\| t\.0\.clone\(\)\)\.collect\(\);"), "let names = tparam_names(tparams_env);", 1),
                     ("super::util::validate_ty(", "validate_ty(")],
           obligation="validate_annotation hands exactly the given type to validate_ty",
           contract="ensures final(diagnostics).validated() == old(diagnostics).validated().insert(*ty),"),
        let_fn("infer_let_expr"),
        let_fn("check_let_expr"),
    ],
)
