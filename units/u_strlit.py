"""U-STRLIT: how string literals are lowered from the CST to the AST (crates/ast/src/lower.rs), as fragments: the StrExpr and
MultilineStrExpr arms of lower_expr_with_args and the StringPat arm of lower_pat."""
import re
from vlib.gen import Unit, Fn, Adt, Raw

LW = "crates/ast/src/lower.rs"
A = "crates/ast/src/ast.rs"
TOSTR = (re.compile(r"\b(value|rest)\.to_string\(\)"), r"str_to_string(\1)", "*")


def ml_loop(k, header, kw):
    if "__iv0.len()" in header:
        return ("invariant parts@.len() + __iv0@.len() == lines0.len(), __iv0@ == lines0.subrange(parts@.len() as int, lines0.len() as int),\n"
                "  sviews(parts@) == ml_lines(sviews(lines0), parts@.len() as int),\n"
                "  forall|i: int| 0 <= i < parts@.len() ==> ml_line_ok(#[trigger] sviews(lines0)[i]),\n"
                "decreases __iv0@.len(),")
    return None


UNIT = Unit(
    name="U-STRLIT",
    properties=["C11"],
    rules=["attrs", ("strip", "cst::"), "str_methods", "opt_and_then"],
    describe="ast::lower, string literals (fragments of lower_expr_with_args and lower_pat): a single-line string literal / string pattern "
             "denotes exactly the characters strictly between its two delimiting quotes (nothing more is stripped, escapes stay as "
             "written) and a well-formed token is never rejected; a multi-line string denotes its lines, each without its indentation and "
             "its `\\\\\\\\` marker and otherwise unchanged, joined by newlines",
    trusted=["FRAGMENTS: only the three literal arms are verified; token extraction (`it.value()`) and everything else in the two "
             "lowering functions is dropped",
             "std str methods (strip_prefix/suffix, trim_*, lines, join, to_string) are shims carrying std's documented semantics; "
             "`lines` and `join` are uninterpreted",
             "rowan tokens/nodes, LowerCtx and MySyntaxNodePtr are opaque"],
    items=[
        Raw(text="pub mod ast {\nuse vstd::prelude::*;\n"),
        Raw(path="contracts/ast.shim.rs"),
        Adt(file=A, kw="struct", name="AstIdent", rules=["attrs"]),
        Adt(file=A, kw="struct", name="ClosureParam", rules=["attrs"]),
        Adt(file=A, kw="enum", name="Expr", rules=["attrs", ("strip", "common_defs::")]),
        Adt(file=A, kw="struct", name="Arm", rules=["attrs"]),
        Adt(file=A, kw="enum", name="Pat", rules=["attrs"]),
        Raw(text="}\npub use ast::MySyntaxNodePtr;\n"),
        Raw(path="contracts/strlit.shim.rs"),
        Fn(file=LW, name="lower_expr_with_args", rename="lower_str_expr", ret="r",
           cut_from="cst::Expr::StrExpr(it) => {", cut_inside=True, cut_before="@block-end", cut_tail="",
           sig="fn lower_str_expr(ctx: &mut LowerCtx, it: CstNode, trailing_args: &Vec<TrailingArg>) -> Option<ast::Expr>",
           rewrites=[TOSTR],
           obligation="value == the characters strictly between the two quotes; a quoted token without trailing arguments is accepted",
           contract="""ensures r matches Some(e) ==> (e matches ast::Expr::EString { value, .. } && it.tok() is Some && quoted(it.tok()->0.text()) && value@ == content(it.tok()->0.text())),
            (it.tok() is Some && quoted(it.tok()->0.text()) && trailing_args@.len() == 0) ==> r is Some,"""),
        Fn(file=LW, name="lower_pat", rename="lower_str_pat", ret="r",
           cut_from="cst::Pattern::StringPat(it) => {", cut_inside=True, cut_before="@block-end", cut_tail="",
           sig="fn lower_str_pat(ctx: &mut LowerCtx, it: CstNode) -> Option<ast::Pat>",
           rewrites=[TOSTR],
           obligation="a string pattern matches exactly the characters strictly between the two quotes",
           contract="""ensures r matches Some(p) ==> (p matches ast::Pat::PString { value, .. } && it.tok() is Some && quoted(it.tok()->0.text()) && value@ == content(it.tok()->0.text())),
            (it.tok() is Some && quoted(it.tok()->0.text())) ==> r is Some,"""),
        Fn(file=LW, name="lower_expr_with_args", rename="lower_multiline_str", ret="r", attrs="#[verifier::loop_isolation(false)]",
           cut_from="cst::Expr::MultilineStrExpr(it) => {", cut_inside=True, cut_before="@block-end", cut_tail="",
           sig="fn lower_multiline_str(ctx: &mut LowerCtx, it: CstNode, trailing_args: &Vec<TrailingArg>) -> Option<ast::Expr>",
           pre_rewrites=[("let lines: Vec<&str> = text.lines().collect();", "let lines: Vec<&str> = str_lines(&text); let ghost lines0 = lines@;"),
                         ("for line in lines {", "let mut __iv0 = lines; while __iv0.len() > 0 { let line = __iv0.remove(0);"),
                         ('let value = parts.join("\\n");', 'let value = strs_join(&parts, "\\n");')],
           rewrites=[("let mut parts = Vec::with_capacity(lines.len());", "let mut parts: Vec<&str> = Vec::new();")],
           obligation="the value is the token's lines, each without indentation and `\\\\\\\\` marker and otherwise unchanged, joined by newlines",
           contract="""ensures r matches Some(e) ==> (e matches ast::Expr::EString { value, .. } && it.tok() is Some
                && value@ == join_with(ml_lines(lines_of(it.tok()->0.text()), lines_of(it.tok()->0.text()).len() as int), "\\n"@)
                && forall|i: int| 0 <= i < lines_of(it.tok()->0.text()).len() ==> ml_line_ok(#[trigger] lines_of(it.tok()->0.text())[i])),
            (it.tok() is Some && trailing_args@.len() == 0 && forall|i: int| 0 <= i < lines_of(it.tok()->0.text()).len() ==> ml_line_ok(#[trigger] lines_of(it.tok()->0.text())[i])) ==> r is Some,""",
           ghost=[("@loop:0:body", "", "let ghost pv = sviews(parts@);"),
                  ("?let Some(rest) = str_strip_prefix_str(", "line-before",
                   "proof { reveal_strlit(\"\\\\\\\\\"); lemma_prefix2(trimmed@, \"\\\\\\\\\"@, '\\\\', '\\\\'); assert(sviews(lines0)[pv.len() as int] == line@); }"),
                  ("parts.push(rest);", "line-after",
                   "proof { reveal_strlit(\"\\\\\\\\\"); assert(sviews(parts@) =~= pv.push(rest@)); "
                   "assert(sviews(lines0)[pv.len() as int] == line@); assert(\"\\\\\\\\\"@.len() == 2); }")],
           loop_fn=ml_loop),
    ],
)
