from vlib.gen import Unit, Fn, Adt, Raw
from units.u_dcefx import UNIT as DCE

G = "crates/compiler/src/go/"
ANF = "crates/compiler/src/anf.rs"
goast_types = [it for it in DCE.items if isinstance(it, Adt)]

UNIT = Unit(
    name="U-CEFFECT",
    properties=["C09", "C17"],
    rules=[("strip", "anf::"), ("strip", "goast::")],
    describe="go::compile::compile_cexpr_effect: a complex expression in effect position (value discarded) still emits exactly one Go statement "
             "when it is a call, a dyn-trait call or `go`; control-flow forms never reach its panic!",
    trusted=["the precondition `expr is not EMatch/EIf/EWhile` (the panic! arm) is NOT checked at the single call site in compile_aexpr_effect, which is outside the unit", "compile_cexpr / compile_go are external (uninterpreted results); only the fact that a statement carrying their result is emitted is proved"],
    items=goast_types + [
        Adt(file=ANF, kw="enum", name="ImmExpr", rules=["attrs"]),
        Adt(file=ANF, kw="enum", name="CExpr", rules=["attrs"]),
        Adt(file=ANF, kw="enum", name="AExpr", rules=["attrs"]),
        Adt(file=ANF, kw="struct", name="Arm", rules=["attrs"]),
        Raw(path="contracts/ceffect.shim.rs"),
        Fn(file=G + "compile.rs", name="compile_cexpr_effect", ret="r",
           obligation="effectful complex expressions (ECall, EDynCall, EGo) are never emitted as nothing",
           contract="""requires !cexpr_is_control(*expr),
        ensures
            cexpr_is_effect(*expr) ==> r@.len() == 1,
            (*expr is ECall || *expr is EDynCall) ==> r@[0] == Stmt::Expr(go_call_of(goenv, expr)),
            *expr matches CExpr::EGo { closure, .. } ==> r@[0] == go_stmt_of_go(goenv, &*closure),"""),
    ],
)
