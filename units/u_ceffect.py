import re
from vlib.gen import Unit, Fn, Adt, Raw
from units.u_dcefx import UNIT as DCE

G = "crates/compiler/src/go/"
ANF = "crates/compiler/src/anf.rs"
goast_types = [it for it in DCE.items if isinstance(it, Adt)]

UNIT = Unit(
    name="U-CEFFECT",
    properties=["C09", "C17"],
    rules=[("strip", "anf::"), ("strip", "goast::")],
    describe="go::compile::compile_cexpr_effect: a complex expression in effect position (value discarded) still emits exactly one Go statement "
             "when it is a call, a dyn-trait call or `go`; control-flow forms never reach its panic!; compile_go: `go e` is ONE go statement "
             "calling the closure's apply function with the closure as its only argument, or — for a plain function value — the function itself without arguments",
    trusted=["FRAGMENT effect_of_cexpr: the ACExpr arm of compile_aexpr_effect (the single call site of compile_cexpr_effect; its precondition is discharged there); the recursive call, compile_while and compile_match_branches (with its branch closure) are stubs with arbitrary results", "compile_cexpr is external (uninterpreted result); only the fact that a statement carrying its result is emitted is proved",
             "PARTIAL: compile_go's `.expect(..)` (a closure type without an apply function: compiler-internal invariant) is not claimed unreachable (assume(false), listed)"],
    items=goast_types + [
        Adt(file=ANF, kw="enum", name="ImmExpr", rules=["attrs"]),
        Adt(file=ANF, kw="enum", name="CExpr", rules=["attrs"]),
        Adt(file=ANF, kw="enum", name="AExpr", rules=["attrs"]),
        Adt(file=ANF, kw="struct", name="Arm", rules=["attrs"]),
        Raw(path="contracts/ceffect.shim.rs"),
        Fn(file=G + "compile.rs", name="compile_cexpr_effect", ret="r", rewrites=[(re.compile(r"crate::go::dce::effect_stmt\("), "effect_stmt(", "*")],
           obligation="effectful complex expressions (ECall, EDynCall, EGo) are never emitted as nothing",
           contract="""requires !cexpr_is_control(*expr),
        ensures
            cexpr_is_effect(*expr) ==> r@.len() == 1,
            (*expr is ECall || *expr is EDynCall) ==> eff_stmt_ok(go_call_of(goenv, expr), r@[0]),
            *expr matches CExpr::EGo { closure, .. } ==> is_go_of(goenv, *closure, r@[0]),"""),
        Adt(file=G + "compile.rs", kw="struct", name="ClosureApplyFn", rules=["attrs", "pubfields", ("strip", "tast::")]),
        Fn(file=G + "compile.rs", name="compile_go", ret="r",
           obligation="`go e` becomes exactly one go statement calling the closure's apply function with the closure as its only argument",
           pre_rewrites=[(re.compile(r"if let tast::Ty::TFunc \{ ret_ty, \.\. \} = &closure_ty \{"), "if let TyShape::Func { ret: ret_ty } = ty_shape(&closure_ty) {", "*"),
                         ("ty: (**ret_ty).clone(),", "ty: ret_ty,", "*"), ("args: vec![],", "args: vec_no_imm(),", "*")],
           rewrites=[(re.compile(r"let apply = find_closure_apply_fn\(goenv, &closure_ty\)\s*\.expect\(\"[^\"]*\"\);"),
                      "let apply = match find_closure_apply_fn(goenv, &closure_ty) { Some(a) => a, None => { proof { assume(false); } unreached() } };", 1),
                     (re.compile(r"\.clone\(\)"), ".vclone()", "*")],
           contract="ensures is_go_of(goenv, *closure, r),",
           ghost=[("let call_expr = compile_cexpr(goenv, &apply_call);", "line-after", "proof { assert(call_expr == go_call_of(goenv, &apply_call)); }"),
                  ("?return Stmt::Go {", "line-before", "proof { assert(go_call_of(goenv, &direct_call) == go_call_of(goenv, &direct_call)); }")]),
        Raw(path="contracts/effectarm.shim.rs"),
        Fn(file=G + "compile.rs", name="compile_aexpr_effect", rename="effect_of_cexpr", ret="r",
           cut_from=re.compile(r"AExpr::ACExpr \{ expr \} => match expr \{"), cut_inside=True, cut_before="@block-end", cut_tail="}\n",
           sig="fn effect_of_cexpr(goenv: &GlobalGoEnv, gensym: &Gensym, expr: CExpr) -> Vec<Stmt> { match expr",
           pre_rewrites=[(re.compile(r"compile_match_branches\(goenv, scrutinee\.as_ref\(\), &arms, &default, \|branch\| \{\s*compile_aexpr_effect\(goenv, gensym, branch\)\s*\}\)"),
                          "compile_match_effect(goenv, gensym, box_as_ref_imm(&scrutinee), &arms, &default)", 1)],
           rewrites=[(re.compile(r"compile_aexpr_effect\(goenv, gensym, \*(\w+)\)"), r"compile_aexpr_effect(goenv, gensym, unbox_aexpr(\1))", "*"),
                     (re.compile(r"compile_while\(goenv, gensym, \*(\w+), \*(\w+)\)"), r"compile_while(goenv, gensym, unbox_aexpr(\1), unbox_aexpr(\2))", "*"),
                     (re.compile(r"vec!\[(Stmt::If \{.*?\})\]", re.S), r"vec_one_stmt(\1)", "*")],
           obligation="a complex expression in statement position: the control-flow forms go to their own lowering, everything else to compile_cexpr_effect — "
                      "whose precondition (not a control-flow form) holds at this, its only call site; an effectful expression (call, dyn call, go) yields exactly "
                      "one statement carrying it",
           contract="""ensures cexpr_is_effect(expr) ==> r@.len() == 1,
            (expr is ECall || expr is EDynCall) ==> eff_stmt_ok(go_call_of(goenv, &expr), r@[0]),
            expr matches CExpr::EGo { closure, .. } ==> is_go_of(goenv, *closure, r@[0]),"""),
    ],
)
