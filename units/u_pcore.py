from vlib.gen import Unit, Fn, Adt, Raw
from units.common import TOKENKIND, TOKEN, IS_TRIVIA, PAR
from units.u_input import INPUT_ITEMS, LEMMA_NTH0

P = PAR + "parser.rs"
PI = "<'t> Parser<'t>"
CELL = ("cell", ["fuel", "stuck_reported"])
RULES = ["T", CELL]

SYNTAXKIND = [Adt(file=PAR + "syntax.rs", kw="enum", name="MySyntaxKind", rules=["attrs"],
                  attrs="#[derive(Copy, Clone, PartialEq, Eq, Structural)]\n#[repr(u16)]")]
EVENT = [Adt(file=PAR + "event.rs", kw="enum", name="Event", rules=["attrs"]),
         Fn(file=PAR + "event.rs", name="tombstone", container="Event", ret="r",
            contract="ensures r == (Event::Open { kind: MySyntaxKind::TombStone, forward_parent: None }),")]
PARSER_TYPES = [
    Adt(file=P, kw="struct", name="Parser", rewrites=[("Cell<u32>", "u32"), ("Cell<bool>", "bool")]),
    Adt(file=P, kw="struct", name="MarkerOpened", rules=["attrs"], attrs="#[derive(Clone, Copy)]"),
    Adt(file=P, kw="struct", name="MarkerClosed", rules=["attrs"], attrs="#[derive(Clone, Copy)]"),
]

# Input's methods are re-verified here (cheap) so that the callee contracts this unit relies on are checked ones.
INPUT = INPUT_ITEMS[:2] + [LEMMA_NTH0] + INPUT_ITEMS[2:]

FRAME = "final(self).same_input(old(self))"
OLDC = "old(self).input.tokens@, old(self).input.cursor as int"
STALL = """({
            &&& r == TokenKind::Eof
            &&& final(self).fuel == 0 && final(self).stuck_reported
            &&& final(self).input == old(self).input
            &&& old(self).stuck_reported ==> final(self).diagnostics.view() == old(self).diagnostics.view()
            &&& !old(self).stuck_reported ==> final(self).diagnostics.view() == old(self).diagnostics.view().push(
                    if old(self).input.cursor < old(self).input.tokens.len() { Some(old(self).input.tokens@[old(self).input.cursor as int].range) } else { None })
        })"""
# what every look-ahead does to the termination measure
MU_PEEK = """0 <= mu(*final(self)) <= mu(*old(self)), at_eof(*final(self)) == at_eof(*old(self)), stay(*old(self), *final(self)),
            (old(self).fuel > 0 && !at_eof(*old(self))) ==> mu(*final(self)) < mu(*old(self)),"""
FUEL_SAME = "ntpos(*final(self)) == ntpos(*old(self)), next_kind(*final(self)) == next_kind(*old(self)), final(self).fuel == old(self).fuel,"
FUEL_SAME_P = FUEL_SAME.replace("self", "p")
FUEL_PEEK = "ntpos(*final(self)) == ntpos(*old(self)), next_kind(*final(self)) == next_kind(*old(self)), final(self).fuel == dec(old(self).fuel),"
MU_SAME = "0 <= mu(*final(self)) == mu(*old(self)), at_eof(*final(self)) == at_eof(*old(self)), stay(*old(self), *final(self)), " + FUEL_SAME
MU_SAME_P = "0 <= mu(*final(p)) == mu(*old(p)), at_eof(*final(p)) == at_eof(*old(p)), stay(*old(p), *final(p)), " + FUEL_SAME_P
G_ENTRY = ("@entry", "", "let ghost p0 = *self;")
G_SKIP = "lemma_skip_trivia_bounds(self.input.tokens@, self.input.cursor as int);"


def peek_like(name, nth):
    peek_res = "" if nth else "old(self).fuel > 0 ==> r == next_kind(*old(self)),"
    res = f"nth_kind({OLDC}, n as int)" if nth else f"nth_kind({OLDC}, 0)"
    cur = "final(self).input == old(self).input" if nth else f"final(self).input.cursor == skip_trivia({OLDC})"
    return Fn(file=P, name=name, container="Parser", as_method_of=PI, ret="r",
              obligation="fuel: a stalled parser (fuel 0) sees Eof and reports 'did not consume' at most once per stall; otherwise fuel "
                         "decreases by one and the answer is the input's; the termination measure never increases",
              contract=f"""requires old(self).wf(),
        ensures final(self).wf(), {FRAME}, final(self).events == old(self).events,
            old(self).fuel == 0 ==> {STALL},
            old(self).fuel > 0 ==> ({{
                &&& final(self).fuel == old(self).fuel - 1
                &&& r == {res}
                &&& {cur}
                &&& final(self).diagnostics == old(self).diagnostics
                &&& final(self).stuck_reported == old(self).stuck_reported
            }}),
            {MU_PEEK}
            at_eof(*old(self)) ==> r == TokenKind::Eof,
            {FUEL_PEEK}
            {peek_res}""",
              ghost=[G_ENTRY,
                     ("@entry", "", f"proof {{ {G_SKIP} if at_eof(*self) {{ lemma_nth_eof(self.input.tokens@, self.input.cursor as int, {'n as int' if nth else '0'}); }} }}"),
                     ("self.diagnostics.push(", "line-before",
                      "proof { if self.input.cursor < self.input.tokens.len() { assert(self.input.tokens@[self.input.cursor as int].range == range->0); } }"),
                     ("@entry", "", "proof { assert forall|q: Parser| q.input.tokens == p0.input.tokens && (q.input.cursor == skip_trivia(p0.input.tokens@, p0.input.cursor as int) || q.input.cursor == p0.input.cursor) implies #[trigger] at_eof(q) == at_eof(p0) && nt_left(q) == nt_left(p0) by { lemma_mu_skip(p0, q); } }")])


EV_PUSH = "final(self).events@ == old(self).events@.push({e})"
KEEP = ("final(self).input == old(self).input && final(self).fuel == old(self).fuel && final(self).stuck_reported == old(self).stuck_reported "
        "&& final(self).diagnostics == old(self).diagnostics")
KEEP_P = KEEP.replace("self", "p")
WF_PUSH = ("proof { lemma_pd_push0(old(self).events@, self.events@.last()); lemma_count_adv_push(old(self).events@, self.events@.last()); assert forall|i: int| 0 <= i < self.events@.len() implies "
           "#[trigger] fp_ok(self.events@, i) by { if i < old(self).events@.len() { assert(fp_ok(old(self).events@, i)); } } }")

REVEAL = ("@entry", "", "proof { reveal(Parser::wf); reveal(at_eof); reveal(mu); }")
REVEAL2 = ("@entry", "", "proof { reveal(ntpos); reveal(next_kind); }")
PCORE_FNS_RAW = [
    Fn(file=P, name="new", container="MarkerOpened", ret="r", contract="ensures r.index == pos,"),
    peek_like("peek", False),
    peek_like("nth", True),
    Fn(file=P, name="eof", container="Parser", as_method_of=PI, ret="r",
       obligation="eof() is the input's real end (independent of fuel) and costs no fuel",
       contract=f"""requires old(self).wf(),
        ensures final(self).wf(), {FRAME}, final(self).events == old(self).events, final(self).fuel == old(self).fuel,
            final(self).input.cursor == skip_trivia({OLDC}),
            r == (final(self).input.cursor == final(self).input.tokens.len()), r == at_eof(*old(self)),
            final(self).diagnostics == old(self).diagnostics, final(self).stuck_reported == old(self).stuck_reported,
            {MU_SAME}""",
       ghost=[G_ENTRY, ("@entry", "", f"proof {{ {G_SKIP} }}"),
              ("@entry", "", "proof { assert forall|q: Parser| q.input.tokens == p0.input.tokens && q.fuel == p0.fuel && (q.input.cursor == skip_trivia(p0.input.tokens@, p0.input.cursor as int) || q.input.cursor == p0.input.cursor) implies #[trigger] at_eof(q) == at_eof(p0) && nt_left(q) == nt_left(p0) by { lemma_mu_skip(p0, q); } }"),
              ("@entry", "", "proof { lemma_nth_skip(self.input.tokens@, self.input.cursor as int, 0); }")]),
    Fn(file=P, name="at", container="Parser", as_method_of=PI, ret="r",
       contract=f"""requires old(self).wf(),
        ensures final(self).wf(), {FRAME}, final(self).events == old(self).events,
            old(self).fuel == 0 ==> r == (kind == TokenKind::Eof),
            old(self).fuel > 0 ==> r == (kind == nth_kind({OLDC}, 0)) && final(self).fuel == old(self).fuel - 1,
            final(self).input.cursor == old(self).input.cursor || final(self).input.cursor == skip_trivia({OLDC}),
            {MU_PEEK}
            at_eof(*old(self)) ==> r == (kind == TokenKind::Eof),
            {FUEL_PEEK}
            old(self).fuel > 0 ==> r == (kind == next_kind(*old(self))),"""),
    Fn(file=P, name="at_unmetered", container="Parser", as_method_of=PI, ret="r",
       obligation="fuel-free look-ahead for entry assertions: the answer is the input's next token, independent of fuel; nothing but trivia skipping changes",
       contract=f"""requires old(self).wf(),
        ensures final(self).wf(), {FRAME}, final(self).events == old(self).events,
            r == (kind == next_kind(*old(self))),
            final(self).diagnostics == old(self).diagnostics, final(self).stuck_reported == old(self).stuck_reported,
            {MU_SAME}""",
       ghost=[G_ENTRY, ("@entry", "", f"proof {{ {G_SKIP} lemma_nth0(self.input.tokens@, self.input.cursor as int); lemma_nth_skip(self.input.tokens@, self.input.cursor as int, 0); }}"),
              ("@entry", "", "proof { assert forall|q: Parser| q.input.tokens == p0.input.tokens && q.fuel == p0.fuel && (q.input.cursor == skip_trivia(p0.input.tokens@, p0.input.cursor as int) || q.input.cursor == p0.input.cursor) implies #[trigger] at_eof(q) == at_eof(p0) && nt_left(q) == nt_left(p0) by { lemma_mu_skip(p0, q); } }")]),
    Fn(file=P, name="at_any", container="Parser", as_method_of=PI, ret="r",
       contract=f"""requires old(self).wf(),
        ensures final(self).wf(), {FRAME}, final(self).events == old(self).events,
            old(self).fuel == 0 ==> r == kinds@.contains(TokenKind::Eof),
            old(self).fuel > 0 ==> r == kinds@.contains(nth_kind({OLDC}, 0)),
            {MU_PEEK}
            at_eof(*old(self)) ==> r == kinds@.contains(TokenKind::Eof),
            {FUEL_PEEK}
            old(self).fuel > 0 ==> r == kinds@.contains(next_kind(*old(self))),"""),
    Fn(file=P, name="open", container="Parser", as_method_of=PI, ret="r",
       obligation="open pushes a tombstone Open and returns a marker for it",
       contract=f"""requires old(self).wf(),
        ensures final(self).wf(), {FRAME}, {KEEP},
            {EV_PUSH.format(e="Event::Open { kind: MySyntaxKind::TombStone, forward_parent: None }")},
            r.index == old(self).events.len(), marker_ok_o(final(self).events@, r.index),
            events_extend(old(self).events@, final(self).events@, -1), {MU_SAME}""",
       ghost=[("MarkerOpened::new(", "line-before", WF_PUSH)]),
    Fn(file=P, name="close", container="Parser", as_method_of=PI, ret="r",
       obligation="close rewrites exactly the marker's Open event, appends Close; index in range (no panic)",
       contract=f"""requires old(self).wf(), marker_ok_o(old(self).events@, m.index), kind != MySyntaxKind::TombStone,
        ensures final(self).wf(), {FRAME}, {KEEP},
            final(self).events@ == old(self).events@.update(m.index as int, Event::Open {{ kind, forward_parent: None }}).push(Event::Close),
            r.index == m.index, marker_ok(final(self).events@, r.index),
            events_extend(old(self).events@, final(self).events@, m.index as int), {MU_SAME}""",
       ghost=[("MarkerClosed { index", "line-before", "proof { lemma_close_wf(old(self).events@, m.index as int, kind); }")]),
    Fn(file=P, name="completed", container="MarkerOpened", ret="r",
       obligation="completed: the assert!(event is Open) and the index never fail given a live marker; same effect as close",
       contract=f"""requires old(p).wf(), marker_ok_o(old(p).events@, self.index), kind != MySyntaxKind::TombStone,
        ensures final(p).wf(), final(p).same_input(old(p)), {KEEP_P},
            final(p).events@ == old(p).events@.update(self.index as int, Event::Open {{ kind, forward_parent: None }}).push(Event::Close),
            r.index == self.index, marker_ok(final(p).events@, r.index),
            events_extend(old(p).events@, final(p).events@, self.index as int), {MU_SAME_P}""",
       ghost=[("MarkerClosed { index", "line-before", "proof { lemma_close_wf(old(p).events@, self.index as int, kind); }")]),
    Fn(file=P, name="precede", container="MarkerClosed", ret="r",
       obligation="precede: unreachable!() is unreachable given a live marker; sets a forward link to the fresh Open (>= 1, in range)",
       contract=f"""requires old(p).wf(), marker_ok(old(p).events@, self.index),
        ensures final(p).wf(), final(p).same_input(old(p)), {KEEP_P},
            final(p).events@.len() == old(p).events@.len() + 1,
            r.index == old(p).events.len(), marker_ok_o(final(p).events@, r.index), marker_ok(final(p).events@, self.index),
            final(p).events@[r.index as int] == (Event::Open {{ kind: MySyntaxKind::TombStone, forward_parent: None }}),
            final(p).events@[self.index as int] == (Event::Open {{ kind: old(p).events@[self.index as int]->kind, forward_parent: Some((old(p).events.len() - self.index) as usize) }}),
            forall|i: int| 0 <= i < old(p).events@.len() && i != self.index ==> final(p).events@[i] == old(p).events@[i],
            events_extend(old(p).events@, final(p).events@, -1), {MU_SAME_P}""",
       ghost=[("        m\n", "before", "proof { lemma_precede_wf(old(p).events@, p.events@, self.index as int); }")]),
    Fn(file=P, name="advance", container="Parser", as_method_of=PI,
       obligation="advance resets fuel, consumes exactly one non-trivia token if any, records one Advance; accounting invariant kept; measure decreases unless at end of input",
       contract=f"""requires old(self).wf(),
        ensures final(self).wf(), {FRAME}, final(self).fuel == 256, !final(self).stuck_reported, final(self).diagnostics == old(self).diagnostics,
            {EV_PUSH.format(e="Event::Advance")}, events_extend(old(self).events@, final(self).events@, -1),
            ({{ let c = skip_trivia({OLDC});
               final(self).input.cursor == if c < old(self).input.tokens.len() {{ c + 1 }} else {{ c }} }}),
            0 <= mu(*final(self)) <= mu(*old(self)), !at_eof(*old(self)) ==> mu(*final(self)) < mu(*old(self)),
            at_eof(*old(self)) ==> at_eof(*final(self)), stay(*old(self), *final(self)),
            ntpos(*final(self)) == ntpos(*old(self)) + if at_eof(*old(self)) {{ 0int }} else {{ 1int }},""",
       ghost=[G_ENTRY,
              ("@entry", "", f"proof {{ {G_SKIP} let c = skip_trivia(self.input.tokens@, self.input.cursor as int); if c < self.input.tokens.len() {{ lemma_nontrivia_step(self.input.tokens@, c); }} }}"),
              ("self.events.push(Event::Advance)", "line-after", WF_PUSH + "\nproof { lemma_mu_advance(p0, *self); }")]),
    Fn(file=P, name="eat", container="Parser", as_method_of=PI, ret="r",
       contract=f"""requires old(self).wf(),
        ensures final(self).wf(), {FRAME}, events_extend(old(self).events@, final(self).events@, -1),
            !r ==> final(self).events == old(self).events,
            r ==> final(self).events@ == old(self).events@.push(Event::Advance) && final(self).fuel == 256,
            0 <= mu(*final(self)) <= mu(*old(self)),
            (r && kind != TokenKind::Eof) ==> mu(*final(self)) < mu(*old(self)),
            (old(self).fuel > 0 && !at_eof(*old(self))) ==> mu(*final(self)) < mu(*old(self)),
            at_eof(*old(self)) ==> at_eof(*final(self)), stay(*old(self), *final(self)),
            !r ==> (ntpos(*final(self)) == ntpos(*old(self)) && next_kind(*final(self)) == next_kind(*old(self)) && final(self).fuel == dec(old(self).fuel)),
            (r && kind != TokenKind::Eof) ==> (ntpos(*final(self)) == ntpos(*old(self)) + 1 && old(self).fuel > 0 && next_kind(*old(self)) == kind),
            old(self).fuel > 0 ==> r == (kind == next_kind(*old(self))),
            r ==> ntpos(*final(self)) == ntpos(*old(self)) + if at_eof(*old(self)) {{ 0int }} else {{ 1int }},"""),
    Fn(file=P, name="error", container="Parser", as_method_of=PI,
       rewrites=[("msg.to_string()", "rt_string(msg)")],
       contract=f"""requires old(self).wf(),
        ensures final(self).wf(), {FRAME}, {KEEP}, final(self).events@.len() == old(self).events@.len() + 1,
            final(self).events@.last() is Error, events_extend(old(self).events@, final(self).events@, -1),
            forall|i: int| 0 <= i < old(self).events@.len() ==> final(self).events@[i] == old(self).events@[i], {MU_SAME}""",
       ghost=[("self.events.push(Event::Error(", "line-after", "proof { lemma_push_nonadv_wf(old(self).events@, self.events@.last()); }")]),
    Fn(file=P, name="advance_with_error", container="Parser", as_method_of=PI,
       rewrites=[("error.to_string()", "rt_string(error)")],
       obligation="advance_with_error wraps exactly one Advance in an ErrorTree node: Open, Error, Advance, Close; makes progress unless at end of input",
       contract=f"""requires old(self).wf(),
        ensures final(self).wf(), {FRAME}, final(self).fuel == 256, events_extend(old(self).events@, final(self).events@, -1),
            final(self).events@.len() == old(self).events@.len() + 4,
            forall|i: int| 0 <= i < old(self).events@.len() ==> final(self).events@[i] == old(self).events@[i],
            final(self).events@[old(self).events@.len() as int] == (Event::Open {{ kind: MySyntaxKind::ErrorTree, forward_parent: None }}),
            final(self).events@[old(self).events@.len() as int + 1] is Error,
            final(self).events@[old(self).events@.len() as int + 2] is Advance,
            final(self).events@[old(self).events@.len() as int + 3] is Close,
            0 <= mu(*final(self)) <= mu(*old(self)), !at_eof(*old(self)) ==> mu(*final(self)) < mu(*old(self)),
            at_eof(*old(self)) ==> at_eof(*final(self)), stay(*old(self), *final(self)),
            ntpos(*final(self)) == ntpos(*old(self)) + if at_eof(*old(self)) {{ 0int }} else {{ 1int }},""",
       ghost=[("let m = self.open()", "line-after", "let ghost e1 = self.events@;"),
              ("self.events.push(Event::Error(", "line-after", "proof { lemma_push_nonadv_wf(e1, self.events@.last()); assert(self.events@ =~= e1.push(self.events@.last())); }")]),
    Fn(file=P, name="should_consume_on_expect_failure", ret="r"),
    Fn(file=P, name="expect", container="Parser", as_method_of=PI, rules=["T", CELL, "fmtmsg"],
       rewrites=[("self.advance_with_error(&err_msg);", "self.advance_with_error(err_msg.as_str());")],
       obligation="expect consumes at most one token and always records either an Advance or an Error event; never increases the measure",
       contract=f"""requires old(self).wf(),
        ensures final(self).wf(), {FRAME}, events_extend(old(self).events@, final(self).events@, -1),
            final(self).events@.len() > old(self).events@.len(),
            forall|i: int| 0 <= i < old(self).events@.len() ==> final(self).events@[i] == old(self).events@[i],
            0 <= mu(*final(self)) <= mu(*old(self)),
            (old(self).fuel > 0 && !at_eof(*old(self))) ==> mu(*final(self)) < mu(*old(self)),
            at_eof(*old(self)) ==> at_eof(*final(self)), stay(*old(self), *final(self)),
            ntpos(*old(self)) <= ntpos(*final(self)) <= ntpos(*old(self)) + 1,
            ntpos(*final(self)) == ntpos(*old(self)) ==> final(self).fuel as int + 2 >= old(self).fuel,
            (ntpos(*final(self)) == ntpos(*old(self)) && !at_eof(*old(self))) ==> next_kind(*final(self)) == next_kind(*old(self)),
            ntpos(*final(self)) > ntpos(*old(self)) ==> final(self).fuel == 256,
            (old(self).fuel > 0 && kind != TokenKind::Eof && next_kind(*old(self)) == kind) ==> ntpos(*final(self)) == ntpos(*old(self)) + 1,""",
       ghost=[("self.events.push(Event::Error(", "line-after", "proof { lemma_push_nonadv_wf(old(self).events@, self.events@.last()); }")]),
]

PCORE_FNS = []
for _f in PCORE_FNS_RAW:
    if "wf()" in _f.contract:
        _f.ghost = [REVEAL] + list(_f.ghost)
    if "wf()" in _f.contract:
        _f.ghost = [REVEAL2] + list(_f.ghost)
    PCORE_FNS.append(_f)

LEMMAS = Raw(text="""
pub proof fn lemma_nth_eof(ts: Seq<Token>, c: int, n: int)
    requires 0 <= c <= ts.len(), skip_trivia(ts, c) == ts.len(),
    ensures nth_kind(ts, c, n) == TokenKind::Eof,
    decreases ts.len() - c,
{
    if c < ts.len() { lemma_nth_eof(ts, c + 1, n); }
}

pub proof fn lemma_push_nonadv_wf(evs: Seq<Event>, e: Event)
    requires events_wf(evs), !(e is Advance), !(e is Open), !(e is Close),
    ensures events_wf(evs.push(e)), count_adv(evs.push(e), evs.len() as int + 1) == count_adv(evs, evs.len() as int),
            events_extend(evs, evs.push(e), -1),
            pd_ok(evs) ==> pd_ok(evs.push(e)) && pd(evs.push(e), evs.len() as int + 1) == pd(evs, evs.len() as int),
{
    if pd_ok(evs) { lemma_pd_push0(evs, e); }
    lemma_count_adv_push(evs, e);
    assert forall|i: int| 0 <= i < evs.push(e).len() implies #[trigger] fp_ok(evs.push(e), i) by {
        if i < evs.len() { assert(fp_ok(evs, i)); }
    }
}

pub proof fn lemma_close_wf(evs: Seq<Event>, idx: int, kind: MySyntaxKind)
    requires events_wf(evs), 0 <= idx < evs.len(), is_tomb(evs[idx]), kind != MySyntaxKind::TombStone, pd_ok(evs),
    ensures ({ let n = evs.update(idx, Event::Open { kind, forward_parent: None }).push(Event::Close);
               events_wf(n) && count_adv(n, n.len() as int) == count_adv(evs, evs.len() as int) && events_extend(evs, n, idx)
               && pd_ok(n) && pd(n, n.len() as int) == pd(evs, evs.len() as int) }),
{
    lemma_pd_close(evs, idx, kind);
    let m = evs.update(idx, Event::Open { kind, forward_parent: None });
    let n = m.push(Event::Close);
    assert forall|i: int| 0 <= i < n.len() implies #[trigger] fp_ok(n, i) by {
        if i < evs.len() { assert(fp_ok(evs, i)); }
    }
    lemma_count_adv_prefix(m, evs, evs.len() as int);
    lemma_count_adv_push(m, Event::Close);
}

pub proof fn lemma_precede_wf(evs: Seq<Event>, n: Seq<Event>, idx: int)
    requires events_wf(evs), 0 <= idx < evs.len(), nt_open(evs[idx]), n.len() == evs.len() + 1,
        n[evs.len() as int] == (Event::Open { kind: MySyntaxKind::TombStone, forward_parent: None }),
        n[idx] == (Event::Open { kind: evs[idx]->kind, forward_parent: Some((evs.len() - idx) as usize) }),
        evs.len() <= usize::MAX,
        forall|i: int| 0 <= i < evs.len() && i != idx ==> n[i] == evs[i],
        pd_ok(evs),
    ensures events_wf(n), count_adv(n, n.len() as int) == count_adv(evs, evs.len() as int), events_extend(evs, n, -1),
        pd_ok(n), pd(n, n.len() as int) == pd(evs, evs.len() as int),
{
    let e1 = evs.push(Event::Open { kind: MySyntaxKind::TombStone, forward_parent: None });
    lemma_pd_push0(evs, Event::Open { kind: MySyntaxKind::TombStone, forward_parent: None });
    assert forall|i: int| 0 <= i < e1.len() implies delta(#[trigger] e1[i]) == delta(n[i]) by { }
    lemma_pd_same(e1, n);
    assert forall|i: int| 0 <= i < n.len() implies #[trigger] fp_ok(n, i) by {
        if i < evs.len() && i != idx { assert(fp_ok(evs, i)); }
    }
    lemma_count_adv_prefix(n, evs, evs.len() as int);
}
""")

TYPES = ([Raw(path="contracts/parser.shim.rs")] + TOKENKIND + IS_TRIVIA + TOKEN + SYNTAXKIND + EVENT + INPUT[:1] + PARSER_TYPES + INPUT[1:]
         + [Raw(path="contracts/parser.spec.rs"), LEMMAS])

UNIT = Unit(
    name="U-PCORE",
    properties=["C04", "C12"],
    rules=RULES,
    describe="parser core (Parser::{peek,nth,eof,at,at_any,eat,expect,advance,error,advance_with_error,open,close}, markers): "
             "representation invariant wf (cursor in range, forward links valid, Advance count >= non-trivia consumed, diagnostic ranges are token ranges) "
             "is preserved; no index/assert!/unreachable! failure; exact event-stream effect of every operation; fuel semantics; "
             "termination measure mu never increases and strictly decreases on every real advance and every fuelled look-ahead",
    items=TYPES + PCORE_FNS,
)
