"""U-IMPLNAME: names::trait_impl_fn_name (whole) — C17, C19: the function a trait impl method is compiled to is named apart from every other (trait, method) on the same type."""
import re
from vlib.gen import Unit, Fn, Adt, Raw
from vlib import gen
from vlib.rsitems import AnchorLost, mask, match_delim
from vlib.cps import split_top

NM = "crates/compiler/src/names.rs"
ROLES = {"trait_name.0": "t", "method_name": "m"}


def parse_format():
    """the ONE format!(..) of trait_impl_fn_name: (call text, literal pieces, argument texts)"""
    src = gen.load_source(NM)
    s0, b0, e0 = src.find_fn("trait_impl_fn_name", None)
    body = src.text[b0:e0 + 1]
    m = mask(body)
    hits = [x for x in re.finditer(r"\bformat!\(", m)]
    if len(hits) != 1:
        raise AnchorLost(f"trait_impl_fn_name: {len(hits)} format! calls, expected 1")
    op = hits[0].end() - 1
    cl = match_delim(m, op)
    parts = split_top(body[op + 1:cl])
    ms = re.fullmatch(r'"((?:[^"\\]|\\.)*)"', parts[0])
    if not ms or "\\" in ms.group(1) or re.search(r"\{[^}]", ms.group(1)):
        raise AnchorLost("trait_impl_fn_name: format string is not a plain literal with `{}` placeholders")
    lits = ms.group(1).split("{}")
    args = parts[1:]
    if len(lits) != len(args) + 1:
        raise AnchorLost("trait_impl_fn_name: placeholders and arguments do not match")
    return body[hits[0].start():cl + 1], lits, args


def roles_of(args):
    roles = []
    for a in args:
        a = a.strip()
        r = ROLES.get(a, "c" if re.fullmatch(r"ty_compact\(&?\w+\)", a) else None)
        if r is None:
            raise AnchorLost(f"trait_impl_fn_name: argument `{a}` of the format has no spec form (a helper applied to a name component is not classified)")
        roles.append(r)
    return roles


def lit(x):
    return f'"{x}"@' if x else "Seq::<char>::empty()"


def derived_spec():
    _, lits, args = parse_format()
    if len(args) != 3:
        raise AnchorLost(f"trait_impl_fn_name: {len(args)} components in the name, the lemmas are written for 3")
    roles = roles_of(args)
    l = [lit(x) for x in lits]
    call = f"cat7({l[0]}, {roles[0]}, {l[1]}, {roles[1]}, {l[2]}, {roles[2]}, {l[3]})"
    out = ["// DERIVED from the format string and argument list of names::trait_impl_fn_name on every run: the name as a function of (trait, compact type text, method)",
           f"pub open spec fn impl_name(t: Seq<char>, c: Seq<char>, m: Seq<char>) -> Seq<char> {{ {call} }}",
           "// C17 / C19: two impl functions of the same type share a name only if trait AND method are the same (else one definition silently replaces the other in mono's table)"]
    for role, lemma in (("t", "impl_name_tells_traits_apart"), ("m", "impl_name_tells_methods_apart")):
        pos = [k for k, r in enumerate(roles) if r == role]
        sig = {"t": "t1: Seq<char>, t2: Seq<char>, c: Seq<char>, m: Seq<char>", "m": "t: Seq<char>, c: Seq<char>, m1: Seq<char>, m2: Seq<char>"}[role]
        a1 = {"t": "impl_name(t1, c, m)", "m": "impl_name(t, c, m1)"}[role]
        a2 = {"t": "impl_name(t2, c, m)", "m": "impl_name(t, c, m2)"}[role]
        if len(pos) != 1:
            body = ""      # the component is missing from the name or occurs twice: the lemma is stated without a proof hint and fails when it is false
        else:
            argl = [l[0]]
            for k, r in enumerate(roles):
                argl += [f"{role}1", f"{role}2"] if k == pos[0] else [r]
                argl.append(l[k + 1])
            body = ["cat7_inj_b", "cat7_inj_d", "cat7_inj_f"][pos[0]] + "(" + ", ".join(argl) + ");"
        out.append(f"pub proof fn {lemma}({sig}) requires {a1} == {a2} ensures {role}1 == {role}2 {{ {body} }}")
    return "\n".join(out) + "\n"


def fmt_to_cat(mt):
    """`format!("l0{}l1{}l2", a, b)` with string arguments -> str_lit("l0"), then str_cat for every argument and every non-empty literal piece, in order"""
    call, lits, args = parse_format()
    t = mt.group(0)
    if call not in t:
        raise AnchorLost("trait_impl_fn_name: format! call not found in the extracted text")
    out = [f'let __s = str_lit("{lits[0]}");']
    for i, a in enumerate(args):
        a = a.strip()
        piece = a if a == "method_name" else f"string_text(&({a}))"
        out.append(f"let __s = str_cat(&__s, {piece});")
        if lits[i + 1]:
            out.append(f'let __s = str_cat(&__s, "{lits[i + 1]}");')
    return t.replace(call, "{ " + " ".join(out) + " __s }")


UNIT = Unit(
    name="U-IMPLNAME",
    properties=["C17", "C19"],
    rules=["attrs", ("strip", "tast::")],
    describe="names::trait_impl_fn_name (whole): the name every call form of a trait method and the impl block itself use for the compiled impl function — literal pieces around "
             "trait name, compact type text and method name, as a spec function DERIVED from the format string and its argument list on every run — tells traits apart and methods "
             "apart: two impls of one type get one name only for the same trait and the same method (lemmas over the derived function, proved by cancellation)",
    trusted=["`format!` with `{}` placeholders of strings is read as literal pieces and arguments concatenated in order (str_lit / str_cat); ty_compact (the pretty printer) is an "
             "uninterpreted function of the type, so names of two DIFFERENT types are not compared",
             "a helper applied to one of the name's components (other than ty_compact) is not classified: UNDECIDED; so is a name of other than three components"],
    items=[
        Raw(path="contracts/implname.shim.rs"),
        Raw(text=derived_spec, item="crates/compiler/src/names.rs::trait_impl_fn_name format string (impl_name)"),
        Fn(file=NM, name="trait_impl_fn_name", ret="r", pre_rewrites=[(re.compile(r"(?s)\A.*\Z"), fmt_to_cat, 1)],
           obligation="the name is the derived function of (trait, type text, method)",
           contract="ensures r@ == impl_name(trait_name.0@, compact(*for_ty), method_name@),"),
    ],
)
