"""U-GOIDENT: go::mangle::{go_ident, is_valid_go_ident, is_go_keyword} (whole functions) — C19, the part about legality and keywords."""
import re
from vlib.gen import Unit, Fn, Adt, Raw

MG = "crates/compiler/src/go/mangle.rs"


def kw_matches(mt):
    """`matches!(s, "a" | "b" | ..)` on a &str -> `str_eq(s, "a") || str_eq(s, "b") || ..` (the meaning of a string-literal or-pattern)"""
    lits = re.findall(r'"([^"]*)"', mt.group(2))
    return "(" + " || ".join(f'str_eq({mt.group(1)}, "{l}")' for l in lits) + ")"


UNIT = Unit(
    name="U-GOIDENT",
    properties=["C19"],
    rules=["attrs"],
    describe="go::mangle::go_ident: the name handed to the Go printer is always a LEGAL Go identifier (a letter or `_`, then letters, digits, `_`) and "
             "never a RESERVED name — one of Go's 25 keywords or a predeclared identifier the emitted code relies on (`len`, `append`, `panic`, `nil`, `any`, "
             "`fmt`, ..) that a goml program could choose; a legal unreserved name is passed on unchanged (user names are stable), every other name gets "
             "the `_goml_` prefix. is_valid_go_ident / is_go_keyword / is_go_predeclared decide exactly legality / reservedness",
    trusted=["std string functions are shims with their documented semantics: chars(), as_bytes() (ASCII text is its own bytes; any other character "
             "contributes a byte >= 0x80), String::push / push_str / from, to_string, char::is_ascii_alphanumeric, u8::is_ascii_*",
             "the inner loop that writes a character's UTF-8 bytes as hex (`encode_utf8` + `write!(\"{:02x}\")`) is the stub push_hex_of_char: it appends "
             "at least two characters, all of them hex digits",
             "NOT claimed (C19's other half): injectivity of go_ident / encode_ty / spec_name_for — distinct entities getting distinct names (known "
             "collisions are listed in DESIGN §5)"],
    items=[
        Raw(path="contracts/goident.shim.rs"),
        Fn(file=MG, name="is_go_predeclared", ret="r", optional=True,
           pre_rewrites=[(re.compile(r"matches!\(\s*(\w+),\s*((?:(?://[^\n]*\n\s*)*\|?\s*\"[^\"]*\"\s*\|?\s*)+)\)", re.S), kw_matches, 1)],
           obligation="true exactly for the predeclared identifiers of Go (universe block, plus `fmt`) that a goml program can choose as a name",
           contract="ensures r == go_predeclared(s@),"),
        Fn(file=MG, name="is_go_keyword", ret="r",
           pre_rewrites=[(re.compile(r"matches!\(\s*(\w+),\s*((?:(?://[^\n]*\n\s*)*\|?\s*\"[^\"]*\"\s*\|?\s*)+)\)", re.S), kw_matches, 1)],
           obligation="true exactly for the names the emitted Go must not define: the 25 keywords of the Go specification and the predeclared identifiers a goml "
                      "program can choose (with is_go_predeclared, when that helper exists)",
           contract="ensures r == go_reserved(s@),"),
        Fn(file=MG, name="is_valid_go_ident", ret="r", attrs="#[verifier::loop_isolation(false)]", rules=["attrs", "iter_all"],
           pre_rewrites=[("let bytes = s.as_bytes();", "let bytes = str_as_bytes(s);"),
                         (re.compile(r"let Some\(\(&first, rest\)\) = bytes\.split_first\(\) else \{\s*return false;\s*\};"),
                          "if bytes.len() == 0 { return false; } let first = bytes[0]; let rest = vec_tail_u8(&bytes);", 1),
                         ("first.is_ascii_alphabetic()", "u8_is_ascii_alphabetic(first)", "*"), ("first.is_ascii_alphanumeric()", "u8_is_ascii_alphanumeric(first)", "*"),
                         (re.compile(r"\bb\.is_ascii_alphanumeric\(\)"), "u8_is_ascii_alphanumeric(*b)", "*")],
           obligation="true exactly for legal Go identifiers (ASCII letter or `_`, then ASCII letters, digits, `_`)",
           contract="ensures r == legal_go_ident(s@),",
           ghost=[("@after-loop:__j0 <", "", "proof { assert forall|j: int| 1 <= j < bytes@.len() implies #[trigger] bytes@[j] == rest@[j - 1] by {} "
                   "if !__q0 { let j0 = choose|j: int| 0 <= j < rest@.len() && !(u8_alnum(#[trigger] rest@[j]) || rest@[j] == 95u8); assert(bytes@[j0 + 1] == rest@[j0]); } "
                   "lemma_bytes_legal(s@, bytes@, __q0); }")],
           loop_fn=lambda k, header, kw: ("invariant __j0 <= rest@.len(), rest@ == bytes@.subrange(1, bytes@.len() as int),\n"
                                          "  __q0 ==> forall|j: int| 0 <= j < __j0 ==> (u8_alnum(#[trigger] rest@[j]) || rest@[j] == 95u8),\n"
                                          "  !__q0 ==> exists|j: int| 0 <= j < rest@.len() && !(u8_alnum(#[trigger] rest@[j]) || rest@[j] == 95u8),\n"
                                          "decreases rest@.len() - __j0," if "__j0 <" in header else None)),
        Fn(file=MG, name="go_ident", ret="r",
           pre_rewrites=[("for ch in name.chars() {", "let __chs = str_chars(name); let mut __ci: usize = 0; while __ci < __chs.len() { let ch = __chs[__ci]; __ci += 1;"),
                         (re.compile(r"let mut buf = \[0u8; 4\];\s*for b in ch\.encode_utf8\(&mut buf\)\.as_bytes\(\) \{.*?\n        \}\n", re.S), "push_hex_of_char(&mut out, ch);\n", 1),
                         ("name.to_string()", "str_to_string(name)"), ('String::from("_goml_")', 'string_from("_goml_")'),
                         ("ch.is_ascii_alphanumeric()", "char_is_ascii_alnum(ch)"),
                         (re.compile(r"out\.push\(([^()]+)\);"), r"string_push(&mut out, \1);", "*"),
                         (re.compile(r"out\.push_str\(([^()]+)\);"), r"string_push_str(&mut out, \1);", "*")],
           obligation="the result is a legal Go identifier and neither a Go keyword nor a predeclared identifier the output relies on (`len`, `append`, `panic`, "
                      "`nil`, `any`, ..); a legal unreserved name is returned unchanged",
           contract="ensures legal_go_ident(r@), !go_reserved(r@), (legal_go_ident(name@) && !go_reserved(name@)) ==> r@ == name@,",
           ghost=[("@loop:0:before", "", "proof { lemma_goml_prefix(); }"),
                  ("string_push_str(&mut out, \"_x\");", "line-after", "proof { reveal_strlit(\"_x\"); }"),
                  ("@after-loop:__ci <", "", "proof { lemma_underscore_not_reserved(out@); }")],
           loop_fn=lambda k, header, kw: ("invariant __ci <= __chs@.len(), out@.len() >= 6, out@[0] == '_',\n"
                                          "  forall|i: int| 0 <= i < out@.len() ==> is_alnum(#[trigger] out@[i]) || out@[i] == '_',\n"
                                          "decreases __chs@.len() - __ci," if "__ci <" in header else None)),
    ],
)
