"""U-GOTYPEDOC: pprint::go_pprint::go_type_doc (whole) — C02: a Go type is printed in Go's type syntax, every component in full."""
import re
from vlib.gen import Unit, Fn, Adt, Raw

GP = "crates/compiler/src/pprint/go_pprint.rs"

def text_any(text_):
    """`RcDoc::text(ARG)` with an ARG that is not a string literal -> Doc::text_string(ARG) (balanced parentheses)"""
    from vlib.rsitems import mask, match_delim
    out, pos = [], 0
    while True:
        m = mask(text_)
        i = m.find("RcDoc::text(", pos)
        if i < 0:
            break
        op = i + len("RcDoc::text")
        cl = match_delim(m, op)
        arg = text_[op + 1:cl].strip()
        rep = f"Doc::text_str({arg})" if re.fullmatch(r'"[^"]*"', arg) else f"Doc::text_string({arg})"
        text_ = text_[:i] + rep + text_[cl + 1:]
        pos = i + 4
    return text_


def loops(k, header, kw, body):
    mt = re.search(r"while (__mi(\d+)) < (\w+)\.len\(\)", header)
    if not mt:
        return None
    i, n, recv = mt.group(1), mt.group(2), mt.group(3)
    if "go_type_doc(" in body:
        el = f"(#[trigger] __mo{n}@[j]).txt() == go_ty_text({recv}@[j])"
    elif "go_type_name(" in body:
        el = f"(#[trigger] __mo{n}@[j])@ == name_of({recv}@[j])"
    else:
        return None
    return f"invariant {i} <= {recv}.len(), __mo{n}@.len() == {i}, forall|j: int| 0 <= j < {i} ==> {el},\ndecreases {recv}.len() - {i},"


def typed_vec(mt):
    return f"let mut {mt.group(1)}: Vec<{'Doc' if 'go_type_doc(' in mt.group(2) else 'String'}> = Vec::new();{mt.group(2)}"


UNIT = Unit(
    name="U-GOTYPEDOC",
    properties=["C02"],
    rules=["attrs", "iter_map_collect", "box_as_ref"],
    describe="pprint::go_pprint::go_type_doc (whole, recursive): the text printed for a Go type is Go's type syntax — `func(P1, P2) R` with EVERY parameter and the result printed in "
             "full (a function type among the parameters keeps its signature), `[N]T`, `[]T`, `*T`; every other type by its name",
    trusted=["pretty::RcDoc is the shim Doc: only the text of a document matters here; nil / space / text / append / intersperse carry the obvious text semantics (ASSUMED of the pretty crate); "
             "`params.iter().map(go_type_doc)` is read as `params.iter().map(|p| go_type_doc(p)).collect()` (a push loop) handed to intersperse; `format!(\"[{}]\", len)` is the stub fmt_array_len",
             "go_type_name (names of non-compound types) is an uninterpreted stub; that the printer uses go_type_doc wherever a type is printed is not part of this unit"],
    items=[
        Adt(file="crates/compiler/src/go/goty.rs", kw="enum", name="GoType", rules=["attrs"]),
        Raw(path="contracts/gotypedoc.shim.rs"),
        Raw(path="contracts/box.shim.rs"),
        Fn(file=GP, name="go_type_doc", ret="r", attrs="#[verifier::loop_isolation(false)]",
           pre_rewrites=[(re.compile(r"RcDoc::intersperse\(\s*(\w+)\.iter\(\)\.map\(go_type_doc\),\s*(RcDoc::text\([^()]*\))\s*\)"),
                          r"doc_intersperse(\1.iter().map(|p| go_type_doc(p)).collect(), \2)", "*"),
                         (re.compile(r"RcDoc::intersperse\(\s*(\w+)\.iter\(\)\.map\((\w+)\),\s*(RcDoc::text\([^()]*\))\s*\)"),
                          r"doc_intersperse(\1.iter().map(|p| \2(p)).collect(), \3)", "*"),
                         (re.compile(r"(\w+)\s*\.iter\(\)\s*\.map\((\w+)\)\s*\.collect::<Vec<_>>\(\)\s*\.join\((\"[^\"]*\")\)"), r"strs_join(\1.iter().map(|p| \2(p)).collect(), \3)", "*"),
                         (re.compile(r"(?s)\A.*\Z"), lambda mt: text_any(mt.group(0)), 1)],
           rewrites=[("-> RcDoc<'_, ()>", "-> Doc", 1),
                     (re.compile(r'format!\("\[\{\}\]", (\w+)\)'), r"fmt_array_len(*\1)", "*"),
                     (re.compile(r"(__mi(\d+) \+= 1; \})(\s*)(__mo\2 \}, Doc::text_str\(\", \"\)\))"),
                      r"\1 proof { assert forall|j: int| 0 <= j < params@.len() implies txts(__mo\2@)[j] == go_ty_text(params@[j]) by { assert(txts(__mo\2@)[j] == __mo\2@[j].txt()); } "
                      r"joined_is_params(params@, txts(__mo\2@), params@.len() as int); } \3\4", "*"),
                     ("RcDoc::nil()", "Doc::nil()", "*"), ("RcDoc::space()", "Doc::space()", "*"),
                     (re.compile(r"let mut (__mo\d+) = Vec::new\(\);((?:(?!let mut __mo).){0,400}?__mo\d+\.push)", re.S), typed_vec, "*"),
                     ("match &**ret_ty {", "match box_as_ref(ret_ty) {", "*"), ("params.is_empty()", "params.len() == 0", "*")],
           ghost=[("@entry", "", "proof { reveal_with_fuel(params_text, 2); reveal_with_fuel(joined, 2); }"),
                  ('?Doc::text_str("func(")', "line-before", "proof { assert(params_doc.txt() == params_text(params@, params@.len() as int)); "
                   "assert(ret_doc.txt() == (if **ret_ty is TVoid { Seq::<char>::empty() } else { seq![' '] + go_ty_text(**ret_ty) })); }")],
           loop_fn=loops,
           obligation="printed text == Go's syntax of the type, recursively",
           contract="ensures r.txt() == go_ty_text(*ty),\n decreases *ty,"),
    ],
)
