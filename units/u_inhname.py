"""U-INHNAME: names::inherent_method_fn_name (whole) — C19, C17: inherent methods of different instances of one generic type, and different methods of one type, get different function names."""
import re
from vlib.gen import Unit, Fn, Adt, Raw
from vlib import gen
from vlib.rsitems import AnchorLost, mask, match_delim
from vlib.cps import split_top

NM = "crates/compiler/src/names.rs"
FN = "inherent_method_fn_name"


def formats():
    """every format!(..) of the function: (call text, literal pieces, argument texts), in source order"""
    src = gen.load_source(NM)
    s0, b0, e0 = src.find_fn(FN, None)
    body = src.text[b0:e0 + 1]
    m = mask(body)
    out = []
    for h in re.finditer(r"\bformat!\(", m):
        op = h.end() - 1
        cl = match_delim(m, op)
        parts = split_top(body[op + 1:cl])
        ms = re.fullmatch(r'"((?:[^"\\]|\\.)*)"', parts[0])
        if not ms or "\\" in ms.group(1) or re.search(r"\{[^}]", ms.group(1)):
            raise AnchorLost(f"{FN}: format string is not a plain literal with `{{}}` placeholders")
        lits = ms.group(1).split("{}")
        args = [a.strip() for a in parts[1:]]
        if len(lits) != len(args) + 1:
            raise AnchorLost(f"{FN}: placeholders and arguments do not match")
        out.append((body[h.start():cl + 1], lits, args))
    return out


def role(a):
    """the name component an argument of the format is: b = the constructor / primitive base, c = the compact type text, m = the method"""
    if a == "method_name":
        return "m"
    if re.fullmatch(r"ty_compact\(&?receiver_ty\)", a):
        return "c"
    if a == "base" or re.fullmatch(r"inherent_base\(&?receiver_ty\)", a):
        return "b"
    raise AnchorLost(f"{FN}: argument `{a}` of the format has no spec form (a helper applied to a name component is not classified)")


def lit(x):
    return f'"{x}"@' if x else "Seq::<char>::empty()"


def generic_format():
    """the format of the NON-primitive branch: the one that is not inside the `if is_primitive(..)` block (the last one)"""
    fs = formats()
    if len(fs) != 2:
        raise AnchorLost(f"{FN}: {len(fs)} format! calls, expected 2 (primitive receiver / any other receiver)")
    return fs[1]


def derived_spec():
    _, lits, args = generic_format()
    roles = [role(a) for a in args]
    l = [lit(x) for x in lits]
    pieces = [l[0]]
    for k, r in enumerate(roles):
        pieces += [r, l[k + 1]]
    out = ["// DERIVED from the format string and argument list of names::inherent_method_fn_name (receiver that is not a primitive) on every run",
           f"pub open spec fn inh_name(b: Seq<char>, c: Seq<char>, m: Seq<char>) -> Seq<char> {{ {' + '.join(pieces)} }}",
           "// C19 / C17: two inherent methods share a function name only if they are the same method of the same receiver type (else one definition silently replaces the other in mono's table)"]
    for rl, lemma, sig, a1, a2 in (("c", "inh_name_tells_types_apart", "b: Seq<char>, c1: Seq<char>, c2: Seq<char>, m: Seq<char>", "inh_name(b, c1, m)", "inh_name(b, c2, m)"),
                                   ("m", "inh_name_tells_methods_apart", "b: Seq<char>, c: Seq<char>, m1: Seq<char>, m2: Seq<char>", "inh_name(b, c, m1)", "inh_name(b, c, m2)")):
        pos = [k for k, r in enumerate(roles) if r == rl]
        if len(pos) != 1:
            body = ""      # the component is missing from the name or occurs twice: the lemma is stated without a proof hint and fails when it is false
        else:
            pre = " + ".join(pieces[:2 * pos[0] + 1])
            post = " + ".join(pieces[2 * pos[0] + 2:])
            body = (f"let pre = {pre}; let post = {post}; assert({a1} =~= pre + {rl}1 + post); assert({a2} =~= pre + {rl}2 + post); cat_cancel(pre, {rl}1, {rl}2, post);")
        out.append(f"pub proof fn {lemma}({sig}) requires {a1} == {a2} ensures {rl}1 == {rl}2 {{ {body} }}")
    return "\n".join(out) + "\n"


def fmt_to_cat(mt):
    """every `format!("l0{}l1{}..", a, b, ..)` with string arguments -> str_lit("l0"), then str_cat for every argument and every non-empty literal piece, in order"""
    t = mt.group(0)
    for call, lits, args in formats():
        if call not in t:
            raise AnchorLost(f"{FN}: format! call not found in the extracted text")
        out = [f'let __s = str_lit("{lits[0]}");']
        for i, a in enumerate(args):
            piece = a if a == "method_name" else f"string_text(&({a}))"
            out.append(f"let __s = str_cat(&__s, {piece});")
            if lits[i + 1]:
                out.append(f'let __s = str_cat(&__s, "{lits[i + 1]}");')
        t = t.replace(call, "{ " + " ".join(out) + " __s }")
    return t


UNIT = Unit(
    name="U-INHNAME",
    properties=["C19", "C17"],
    rules=["attrs", ("strip", "tast::")],
    describe="names::inherent_method_fn_name (whole): the function an inherent method is compiled to — and that `x.m(a)` and `T::m(x, a)` both name — is, for a receiver that is not a "
             "primitive, literal pieces around the type's constructor name, its compact type text and the method name (a spec function DERIVED from the format string on every run); "
             "lemmas over the derived function: two such names are equal only for the same compact type text (`Box[int32]` and `Box[string]` get different functions) and only for "
             "the same method",
    trusted=["`format!` with `{}` placeholders of strings is read as literal pieces and arguments concatenated in order (str_lit / str_cat); ty_compact, inherent_base and is_primitive are "
             "stubs (uninterpreted functions of the type); the primitive branch (`int32_to_string` ..) is not claimed; a helper applied to a name component is not classified: UNDECIDED"],
    items=[
        Raw(path="contracts/implname.shim.rs"),
        Raw(text="pub uninterp spec fn base_of(t: Ty) -> Seq<char>;\n#[verifier::external_body] pub fn inherent_base(ty: &Ty) -> (r: String) ensures r@ == base_of(*ty) { unimplemented!() }\n"
                 "pub uninterp spec fn prim(t: Ty) -> bool;\n#[verifier::external_body] pub fn is_primitive(ty: &Ty) -> (r: bool) ensures r == prim(*ty) { unimplemented!() }\n"),
        Raw(text=derived_spec, item="crates/compiler/src/names.rs::inherent_method_fn_name format string (inh_name)"),
        Fn(file=NM, name=FN, ret="r", pre_rewrites=[(re.compile(r"(?s)\A.*\Z"), fmt_to_cat, 1)],
           obligation="for a non-primitive receiver the name is the derived function of (constructor, type text, method)",
           contract="ensures !prim(*receiver_ty) ==> r@ == inh_name(base_of(*receiver_ty), compact(*receiver_ty), method_name@),"),
    ],
)
