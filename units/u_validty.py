"""U-VALIDTY: typer::util::validate_ty (whole function; the node-level checks replaced by a stub) — C04, C03."""
import re
from vlib.gen import Unit, Fn, Adt, Raw
from vlib.rsitems import mask, match_delim, AnchorLost

U = "crates/compiler/src/typer/util.rs"
CALL = "node_check(genv, diagnostics, __node, tparams);"


def stub_node_checks(mt):
    """the bodies of the arms that check ONE node against the environments (TParam, TDyn, TEnum | TStruct) and the tail of the TApp arm (from the look-up of the applied
    constructor on) are replaced by a call of the stub node_check: they are NOT verified; what IS verified is that every component of the type is visited"""
    t = mt.group(0)
    for hdr in [r"Ty::TParam \{ name \} => \{", r"Ty::TDyn \{ trait_name \} => \{", r"Ty::TEnum \{ name \} \| (?:tast::)?Ty::TStruct \{ name \} => \{"]:
        m = mask(t)
        h = re.search(hdr, m)
        if not h:
            raise AnchorLost(f"validate_ty: arm `{hdr}` not found")
        op = h.end() - 1
        cl = match_delim(m, op)
        t = t[:op + 1] + " " + CALL + " " + t[cl:]
    m = mask(t)
    h = re.search(r"let Some\(base_name\) = try_constr_name\(", m)
    if not h:
        raise AnchorLost("validate_ty: the TApp arm's constructor look-up not found")
    # the enclosing arm block
    depth, k = 0, h.start()
    while k > 0:
        k -= 1
        if m[k] == "}":
            depth += 1
        elif m[k] == "{":
            if depth == 0:
                break
            depth -= 1
    cl = match_delim(m, k)
    st = t.rfind("\n", 0, h.start()) + 1
    t = t[:st] + "            " + CALL + "\n        " + t[cl:]
    # the node itself under a name no arm pattern shadows (`TApp { ty, args }` rebinds `ty`)
    m = mask(t)
    from vlib.rsitems import find_top_level
    b = find_top_level(m, m.index("fn "), "{")
    return t[:b + 1] + "\n    let __node: &Ty = ty;" + t[b + 1:]


def loops(k, header, kw):
    mt = re.search(r"while (__fk(\d+)) < (\w+)\.len\(\)", header)
    if not mt:
        return None
    i, recv = mt.group(1), mt.group(3)
    return (f"invariant {i} <= {recv}.len(), diagnostics.n() >= n_{i},\n"
            f"  some_bad(*genv, {recv}@, {i} as int, tparams@) ==> diagnostics.n() > n_{i},\n decreases {recv}.len() - {i},")


UNIT = Unit(
    name="U-VALIDTY",
    properties=["C04", "C03"],
    rules=["attrs", ("strip", "tast::"), "for_index", "box_as_ref"],
    describe="typer::util::validate_ty (whole, recursive): a written type is rejected (an error diagnostic is pushed) when ANY node of it is bad — the node itself, a tuple element, "
             "a function type's parameter or RESULT, the element of a Vec / Ref / array, a type argument at any depth; an ill-formed application that slipped through here "
             "panics in monomorphisation (`struct generic argument length mismatch`)",
    trusted=["the node-level checks (unknown type parameter / constructor, arity, dyn-safety: environment look-ups) are replaced by the stub node_check — NOT verified; the unit "
             "verifies the TRAVERSAL: every component of the type is visited, at every depth; terminates"],
    items=[
        Adt(file="crates/compiler/src/tast.rs", kw="enum", name="Ty", rules=["attrs"]),
        Raw(path="contracts/validty.shim.rs"),
        Raw(path="contracts/box.shim.rs"),
        Fn(file=U, name="validate_ty", attrs="#[verifier::loop_isolation(false)]",
           pre_rewrites=[(re.compile(r"(?s)\A.*\Z"), stub_node_checks, 1)],
           rewrites=[("pub(crate) fn", "pub fn", "*"),
                     (re.compile(r"let mut (__fk\d+): usize = 0; while"), r"let mut \1: usize = 0; let ghost n_\1 = diagnostics.n(); while", "*"),
                     (re.compile(r"\{ let (\w+) = &(\w+)\[(__fk\d+)\]; \3 \+= 1;"),
                      r"{ proof { assert(some_bad(*genv, \2@, \3 as int + 1, tparams@) == (some_bad(*genv, \2@, \3 as int, tparams@) || any_bad(*genv, \2@[\3 as int], tparams@))); } let \1 = &\2[\3]; \3 += 1;", "*")],
           ghost=[("@entry", "", "proof { reveal_with_fuel(some_bad, 2); }")],
           loop_fn=loops,
           obligation="any bad node anywhere in the type ==> an error diagnostic; diagnostics only grow",
           contract="ensures final(diagnostics).n() >= old(diagnostics).n(),\n  any_bad(*genv, *ty, tparams@) ==> final(diagnostics).n() > old(diagnostics).n(),\n decreases *ty,"),
    ],
)
