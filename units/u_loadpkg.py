import re
from vlib.gen import Unit, Fn, Adt, Raw

P = "crates/compiler/src/pipeline/packages.rs"

def LOOP(k, header, kw, body):
    # local-name-free core: the files loaded so far agree among themselves; the link to the running `package_name` is added
    # when the function has such a local (the shape on the pinned tree)
    inv = ("invariant forall|i: int, j: int| 0 <= i < files@.len() && 0 <= j < files@.len() ==> (#[trigger] files@[i]).ast.package.0@ == (#[trigger] files@[j]).ast.package.0@,\n")
    if "package_name" in body:
        inv += ("  files@.len() > 0 ==> package_name is Some,\n"
                "  forall|i: int| 0 <= i < files@.len() ==> (package_name matches Some(n) && (#[trigger] files@[i]).ast.package.0@ == n@),\n")
    inv += "  entry_once(files@, n0, entry_path), n0 == (if entry_ast0 is Some { 1int } else { 0int }), n0 <= files@.len(),\n"
    return inv + "decreases __pv@.len(),"


def paths_init(mt):
    """how `paths` is built from input_files: the canonical `to_vec(); sort(); dedup()` (also sort_unstable, or a BTreeSet) is the stub sorted_dedup_paths (sorted); code
    that mentions no sorting primitive at all (a filter over a seen-set, an IndexSet, a plain copy) keeps the LISTING order: stub listing_order_paths (no order known);
    anything else is not classified (UNDECIDED)"""
    t = mt.group(0)
    if re.search(r"\bpaths\.sort(_unstable)?\(\);", t) or "BTreeSet" in t:
        return "\n    let paths = sorted_dedup_paths(input_files); let ghost paths0 = paths@;"
    if not re.search(r"sort|BTree|cmp|Ord", t):
        return "\n    let paths = listing_order_paths(input_files); let ghost paths0 = paths@;"
    from vlib.rsitems import AnchorLost
    raise AnchorLost("read_source_files: the statements that build `paths` mention an ordering primitive in a form no rule classifies")


UNIT = Unit(
    name="U-LOADPKG",
    properties=["C16", "C13", "C12", "C14"],
    # read_gom_sources' sortedness is C13's clause; load_package's one-package clause is C16's
    clause_scope={"C13": {"only": ["paths_sorted(", "entry_once(", "paths_of("]}, "C14": {"only": ["paths_sorted(", "paths_of("]}, "C12": {"only": ["no_foreign_positions(", "is Compile"]},
                  "C16": {"except": ["paths_sorted(", "entry_once(", "paths_of(", "no_foreign_positions(", "is Compile"]}},
    rules=["attrs", "fmtmsg", "msg_to_string", "ok_or_else_q", "let_chain", "let_chain_rev", "opt_map", "opt_is_some_and"],
    describe="packages::load_package and separate::read_source_files: a package unit is ONE package — every file loaded into it (the entry file and every other .gom file of "
             "the directory) declares the unit's own package name, and the unit's import set is exactly what those files declare (an import edge — a self-import "
             "included — is never dropped on the way to the cycle check); a file declaring another package is an error, never silently merged "
             "(its top-level items would otherwise be resolved under that other package's name); the unit's name is never the reserved `Builtin`",
    trusted=["read_gom_sources: fs::read_dir / DirEntry / Path::extension are stubs, `for entry in entries` is rewritten to a loop over Iterator::next, "
             "`files.sort()` to a shim that establishes sortedness (std); termination of the directory walk is not claimed",
             "the file system, the parser and collect_imports are stubs (arbitrary results); `?` on read_gom_sources / read_to_string / "
             "parse_ast_file is desugared to an early `return Err(..)`; `entry_path.is_some_and(|entry| entry == path)` is an opaque boolean"],
    items=[
        Adt(file=P, kw="struct", name="PackageUnit", rules=["attrs"]),
        Raw(text="#[verifier::external_body] pub struct Diagnostics { _p: u64 }\n"),
        Adt(file="crates/compiler/src/pipeline/pipeline.rs", kw="enum", name="CompilationError", rules=["attrs"]),
        Raw(path="contracts/loadpkg.shim.rs"),
        Fn(file="crates/compiler/src/pipeline/pipeline.rs", name="parse_package_file", ret="r", optional=True,
           rules=["attrs", "map_err_plain"],
           pre_rewrites=[(re.compile(r"compile_error\(\s*parser::format_parser_diagnostics\(&diagnostics, src\).*?\.join\(\"\\n\"\),\s*\)", re.S), "compile_error(rt_msg())", 1)],
           rewrites=[("path: &Path", "path: &PathBuf"), ("src: &str", "src: &String"), ("Result<ast::File, CompilationError>", "Result<AstFile, CompilationError>")],
           obligation="parsing a non-entry file never hands a Parser error (offsets into THAT file's text) to the caller: the positions are resolved against "
                      "the file itself and the error becomes a range-less message",
           contract="ensures no_foreign_positions(r),"),
        Fn(file=P, name="read_gom_sources", ret="r",
           obligation="the list of a package's source files is returned SORTED: its order is a function of the file names, not of the order in which the "
                      "operating system enumerates the directory (that order fixes the order of everything compiled from the package)",
           pre_rewrites=[
               (re.compile(r"let entries = fs::read_dir\(dir\)\.map_err\(\|err\| \{.*?\}\)\?;", re.S), "let mut entries = match fs_read_dir(dir) { Ok(v) => v, Err(e) => { return Err(e); } };", 1),
               ("for entry in entries {", "loop { let entry = match entries.next_entry() { Some(e) => e, None => { break; } };"),
               (re.compile(r"let entry = entry\.map_err\(\|err\| \{.*?\}\)\?;", re.S), "let entry = match entry { Ok(v) => v, Err(e) => { return Err(e); } };", 1),
               ('if path.extension().is_some_and(|ext| ext == "gom") {', "if has_gom_extension(&path) {"),
               ("files.sort();", "vec_sort_paths(&mut files);", "*"),
           ],
           rewrites=[("dir: &Path", "dir: &PathBuf"), ("let mut files = Vec::new();", "let mut files: Vec<PathBuf> = Vec::new();")],
           attrs="#[verifier::exec_allows_no_decreases_clause]",
           contract="ensures r matches Ok(v) ==> paths_sorted(v@),\n        r matches Err(e) ==> e is Compile,",
           loop_fn=lambda k, header, kw, body: "invariant true,"),
        Fn(file=P, name="load_package", ret="r",
           obligation="every file of the returned unit declares the unit's package name, and that name is not the reserved `Builtin` (whose items "
                      "get unqualified global names like Main's: a user package of that name would silently replace Main's items)",
           pre_rewrites=[
               ("for path in read_gom_sources(package_dir)? {",
                "let mut __pv = match read_gom_sources(package_dir) { Ok(v) => v, Err(e) => { return Err(e); } }; while __pv.len() > 0 { let path = __pv.remove(0);"),
               (re.compile(r"let src = fs::read_to_string\(&path\)\s*\.map_err\(\|err\| compile_error\(format!\([^;]*?\)\)\)\?;", re.S),
                "let src = match fs_read_to_string(&path) { Ok(v) => v, Err(e) => { return Err(e); } };", 1),
               (re.compile(r"let ast = (parse_\w+)\(&path, &src\)\?;"), r"let ast = match \1(&path, &src) { Ok(v) => v, Err(e) => { return Err(e); } };", 1),
               (re.compile(r"\bentry\.file_name\(\) == path\.file_name\(\)"), "same_file_name(entry, &path)", "*"),
               (re.compile(r"\|entry\| entry == path\b"), "|entry| path_eq(entry, &path)", "*"),
           ],
           rewrites=[("package_dir: &Path", "package_dir: &PathBuf"), ("entry_path: Option<&Path>", "entry_path: Option<&PathBuf>"), ("entry_ast: Option<ast::File>", "entry_ast: Option<AstFile>"),
                     ("let mut files = Vec::new();", "let mut files: Vec<SourceFileAst> = Vec::new();"),
                     ("let mut package_name = None;", "let mut package_name: Option<String> = None;", "*"),
                     (re.compile(r"&ast\.package\.0 != (\w+)"), r"string_ne(&ast.package.0, \1)", "*"),
                     (re.compile(r'\b(\w+) == "Builtin"'), r'str_eq_lit(&\1, "Builtin")', "*"),
                     (re.compile(r"\b((?:\w+\.)*)ast\.package\.0\.clone\(\)"), r"string_clone(&\1ast.package.0)", "*")],
           contract="ensures r matches Ok(u) ==> one_package(u),\n        r matches Ok(u) ==> !reserved_package_name(u.name@),\n"
                    "        r matches Ok(u) ==> entry_once(u.files@, if entry_ast is Some { 1int } else { 0int }, entry_path),\n"
                    "        no_foreign_positions(r),\n"
                    "        r matches Ok(u) ==> u.imports.names() == declared_imports(u.files@),",
           ghost=[("@entry", "", "let ghost entry_ast0 = entry_ast;"),
                  ("let mut __pv = match read_gom_sources(package_dir)", "line-before", "let ghost n0 = files@.len() as int;")],
           loop_fn=LOOP),
        Fn(file="crates/compiler/src/pipeline/separate.rs", name="read_source_files", ret="r",
           rules=["attrs", "fmtmsg", "msg_to_string", ("strip", "hir::"), ("consume_into", ["paths"])],
           obligation="(check / build drivers) every file handed to the type checker declares the package being compiled, and that package is not "
                      "the reserved `Builtin`",
           pre_rewrites=[
               (re.compile(r"(?s)\n[ \t]*let (?:mut )?(?:seen|paths)\b.*?(?=\n[ \t]*let mut files = Vec::new\(\);)"), paths_init, 1),
               (re.compile(r"let src = fs::read_to_string\(&path\)\s*\.map_err\(\|err\| compile_error\(format!\([^;]*?\)\)\)\?;", re.S),
                "let src = match fs_read_to_string(&path) { Ok(v) => v, Err(e) => { return Err(e); } };", 1),
               (re.compile(r"let ast = (parse_\w+)\(&path, &src\)\?;"), r"let ast = match \1(&path, &src) { Ok(v) => v, Err(e) => { return Err(e); } };", 1),
               (re.compile(r"for import in ast\.imports\.iter\(\) \{\s*imports\.insert\(import\.0\.clone\(\)\);\s*\}"), "import_set_add(&mut imports, &ast);", 1),
           ],
           rewrites=[("input_files: &[PathBuf]", "input_files: &Vec<PathBuf>"), ("input_files.is_empty()", "input_files.len() == 0"),
                     ("let mut files = Vec::new();", "let mut files: Vec<SourceFileAst> = Vec::new();"),
                     ("let mut imports = HashSet::new();", "let mut imports: HashSet<String> = new_import_set();"),
                     ("let mut source_list = Vec::new();", "let mut source_list: Vec<String> = Vec::new();"),
                     ("path.display().to_string()", "path_display(&path)"),
                     (re.compile(r"\bast\.package\.0 != package\b"), "str_ne_string(&ast.package.0, package)", "*"),
                     (re.compile(r'\b(\w+) == "Builtin"'), r'strs_eq(\1, "Builtin")', "*")],
           contract="ensures r matches Ok(t) ==> forall|i: int| 0 <= i < t.0@.len() ==> (#[trigger] t.0@[i]).ast.package.0@ == package@,\n"
                    "        r is Ok ==> !reserved_package_name(package@),\n        no_foreign_positions(r),\n"
                    "        r matches Ok(t) ==> paths_sorted(paths_of(t.0@)),",
           ghost=[("?files.push(", "line-after", "proof { assert(paths_of(files@) + __iv0@ =~= paths0); }")],
           loop_fn=lambda k, header, kw, body: ("invariant forall|i: int| 0 <= i < files@.len() ==> (#[trigger] files@[i]).ast.package.0@ == package@,\n"
                                                " paths_of(files@) + __iv0@ =~= paths0,\ndecreases __iv0@.len(),")),
    ],
)
