"""U-EXPRREADS: go::dce::{vars_used_in_expr (all arms but the block expression), add_uses_expr} — C02."""
import re
from vlib.gen import Unit, Fn, Adt, Raw
from vlib.rsitems import mask, match_delim
from units.u_dcelive import types, G


def drop_block_arm(mt):
    """the body of the arm `ast::Expr::Block { stmts, expr, .. } => { .. }` (free variables of a statement block: declarations, nested blocks) is replaced by ONE call of the stub block_free_vars; the arm is not claimed"""
    text = mt.group(0)
    m = mask(text)
    h = re.search(r"ast::Expr::Block \{ stmts, expr, \.\. \} => \{", m)
    if not h:
        return text
    b = h.end() - 1
    e = match_delim(m, b)
    return text[:b + 1] + " block_free_vars(&mut s, stmts, expr); " + text[e:]


def loops(k, header, kw):
    mt = re.search(r"while\s+(__fk\d+)\s*<\s*(\w+)\.len\(\)", header)
    if not mt:
        return None
    i, c = mt.group(1), mt.group(2)
    f = "reads_fs" if c == "fields" else "reads_es"
    return f"invariant {i} <= {c}.len(), s@ =~= __s{i[4:]}.union({f}({c}@, {i} as int)),\n decreases {c}.len() - {i},"


UNIT = Unit(
    name="U-EXPRREADS",
    properties=["C02"],
    rules=["attrs", ("strip", "ast::"), "for_index"],
    describe="go::dce::vars_used_in_expr (every arm but the block expression) and add_uses_expr: the variables dead-code elimination counts as READ by an expression — a variable "
             "reads itself; a field access, index, operator, cast, struct / array literal and call read what ALL their sub-expressions read (object, array AND index, both "
             "operands, every field value, every element, callee AND every argument); constants read nothing. A sub-expression left out would let DCE drop a declaration whose "
             "variable is still used there. This is the function U-DCELIVE takes as the uninterpreted `expr_reads`, unfolded one level",
    trusted=["the recursive calls are the stub of U-DCELIVE's shim (expr_reads, uninterpreted); the arm for block expressions is ONE stub call (dropped, not claimed); "
             "HashSet<String> is a finite set of names; `for (_, e) in fields` is read as a loop over the pairs' second components"],
    items=types + [
        Raw(path="contracts/dcelive.spec.rs"),
        Raw(path="contracts/exprreads.shim.rs"),
        Fn(file=G + "dce.rs", name="vars_used_in_expr", rename="vars_used_in_expr_level", ret="r", attrs="#[verifier::loop_isolation(false)]",
           pre_rewrites=[(re.compile(r"(?s)\A.*\Z"), drop_block_arm, 1), (re.compile(r"for \(_, (\w+)\) in fields \{"), r"for __fe in fields { let \1 = &__fe.1;", "*"),
                         ("name.clone()", "name.vclone()", "*")],
           rewrites=[(re.compile(r"let mut (__fk(\d+)): usize = 0;"), r"let ghost __s\2 = s@; let mut \1: usize = 0;", "*")],
           obligation="every arm reads what ALL its sub-expressions read; a variable reads itself; constants nothing",
           contract="ensures reads_level(*e, r@),",
           loop_fn=loops),
        Fn(file=G + "dce.rs", name="add_uses_expr", rename="add_uses_expr_real", attrs="#[verifier::loop_isolation(false)]",
           pre_rewrites=[(re.compile(r"for (\w+) in vars_used_in_expr\((\w+)\) \{\s*live\.insert\(\1\);\s*\}"), r"live.extend(vars_used_in_expr(\2));", 1)],
           obligation="the live set gains exactly what the expression reads",
           contract="ensures final(live)@ =~= old(live)@.union(expr_reads(*e)),"),
    ],
)
