"""U-IMPORTNAME: go::dce::import_spec_binding (whole) — the name under which prune_unused_imports looks an import up is the name Go binds (C02)."""
import re
from vlib.gen import Unit, Fn, Adt, Raw

D = "crates/compiler/src/go/dce.rs"
G = "crates/compiler/src/go/goast.rs"
R = r"((?:\w+\.)*\w+)"      # a receiver: a field path

UNIT = Unit(
    name="U-IMPORTNAME",
    properties=["C02"],
    rules=["attrs", ("strip", "ast::")],
    describe="go::dce::import_spec_binding: the name an import spec is looked up under when unused imports are pruned (U-GOPKGS treats it as an opaque function of "
             "the spec) is the name Go binds for that spec — the alias, else the LAST element of the import path (`go/build/constraint` binds `constraint`). "
             "With another name a used package is pruned (`undefined: constraint`) or an unused one kept (`imported and not used`)",
    trusted=["std's str::rsplit / split / split_once / rsplit_once with a char pattern are shims carrying std's documented semantics as ASSUMED contracts (piece after the "
             "last separator, split at the first / last separator)", "String::clone / str::to_string copy the text"],
    items=[
        Adt(file=G, kw="struct", name="ImportSpec", rules=["attrs"]),
        Raw(path="contracts/importname.shim.rs"),
        Fn(file=D, name="import_spec_binding", ret="r", rules=["attrs", ("strip", "ast::"), "opt_map", "opt_unwrap_or_else"],
           pre_rewrites=[(re.compile(R + r"\s*\.rsplit\(('.')\)\s*\.next\(\)"), r"str_rsplit_next(&\1, \2)", "*"),
                         (re.compile(R + r"\s*\.split\(('.')\)\s*\.last\(\)"), r"str_split_last(&\1, \2)", "*"),
                         (re.compile(R + r"\s*\.split\(('.')\)\s*\.next\(\)"), r"str_split_next(&\1, \2)", "*"),
                         (re.compile(R + r"\s*\.split_once\(('.')\)"), r"str_split_once_char(&\1, \2)", "*"),
                         (re.compile(R + r"\s*\.rsplit_once\(('.')\)"), r"str_rsplit_once_char(&\1, \2)", "*"),
                         (re.compile(r"\b(\w+)\.to_string\(\)"), r"str_to_string(\1)", "*")],
           rewrites=[(re.compile(r"\b((?:\w+\.)*\w+)\.clone\(\)"), r"string_clone(&\1)", "*"), ("string_clone(&alias)", "string_clone(alias)", "*")],
           obligation="the binding is the alias when there is one, else the text after the last `/` of the path",
           contract="ensures binding_ok(*spec, r@),"),
    ],
)
