import re
from vlib.gen import Unit, Fn, Adt, Raw

M = "crates/compiler/src/mono.rs"

def zinv(k, l, r, extra=""):
    return (f"invariant __zk{k} <= {l}.len(), __zk{k} <= {r}.len(), extends(old(subst)@, subst@),\n"
            f"  forall|j: int| #![trigger {l}@[j]] 0 <= j < __zk{k} ==> is_apply({l}@[j], subst@, {r}@[j]) && covers({l}@[j], subst@),\n"
            f"  (param_free(*template) && no_tvar(*template) && *template == *actual) ==> subst@ == old(subst)@,{extra}\n"
            f"decreases {l}.len() - __zk{k},")

UNIT = Unit(
    name="U-MUNIFY",
    properties=["C07", "C04", "C03"],
    rules=["attrs", "fmtmsg", "msg_to_string", "for_zip"],
    describe="mono::unify (call-site substitution): never changes an existing binding; on the ground diagonal (template without type "
             "parameters or inference variables, equal to the actual type) it succeeds and leaves the substitution unchanged — so a call to a "
             "generic function at any monomorphic argument type cannot make monomorphisation fail; recursion and loops terminate",
    trusted=["derived PartialEq/Clone on Ty and String are structural (shims ty_ne, ty_clone, string_ne, string_clone)",
             "IndexMap<String, Ty> is a finite map keyed by the key's text"],
    items=[
        Adt(file="crates/compiler/src/tast.rs", kw="enum", name="Ty", rules=["attrs"]),
        Raw(path="contracts/munify.shim.rs"),
        Raw(path="contracts/msubst.spec.rs"),
        Fn(file=M, name="unify", ret="r", attrs="#[verifier::loop_isolation(false)]",
           obligation="existing bindings kept; succeeds on every ground type against itself (completeness on the diagonal)",
           rewrites=[(re.compile(r"if prev != a \{"), "if ty_ne(prev, a) {", "*"), ("subst.insert(name.clone(), a.clone());", "subst.insert(string_clone(name), ty_clone(a));"),
                     ("if ln != rn {", "if string_ne(ln, rn) {")],
           contract="""ensures extends(old(subst)@, final(subst)@),
            (param_free(*template) && no_tvar(*template) && *template == *actual) ==> r is Ok && final(subst)@ == old(subst)@,
            r is Ok ==> is_apply(*template, final(subst)@, *actual) && covers(*template, final(subst)@),
        decreases *template,""",
           ghost=[("@entry", "", "proof { broadcast use lemma_extends_trans, lemma_apply_stable_b; assert(extends(subst@, subst@)); }")],
           loops={0: zinv(0, "l", "r"), 1: zinv(1, "la", "ra", " is_apply(**lt, subst@, **rt) && covers(**lt, subst@),"), 2: zinv(2, "lp", "rp")}),
    ],
)
