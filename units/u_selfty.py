"""U-SELFTY: the three copies of typer::{tast_builder, toplevel, check}::instantiate_self_ty (whole) — C03, C17."""
import re
from vlib.gen import Unit, Fn, Adt, Raw

T = "crates/compiler/src/tast.rs"
FILES = [("tb", "crates/compiler/src/typer/tast_builder.rs"), ("top", "crates/compiler/src/typer/toplevel.rs"), ("chk", "crates/compiler/src/typer/check.rs")]


def loops(k, header, kw):
    mt = re.search(r"while (__mi(\d+)) < (\w+)\.len\(\)", header)
    if not mt:
        return None
    i, n, c = mt.group(1), mt.group(2), mt.group(3)
    return (f"invariant {i} <= {c}.len(), __mo{n}@.len() == {i}, forall|j: int| 0 <= j < {i} ==> self_inst({c}@[j], *self_ty, #[trigger] __mo{n}@[j]),\n"
            f"decreases {c}.len() - {i},")


def item(tag, file):
    nm = f"instantiate_self_ty_{tag}"
    return Fn(file=file, name="instantiate_self_ty", rename=nm, ret="r", attrs="#[verifier::loop_isolation(false)]", rules=["attrs", ("strip", "tast::"), "iter_map_collect"],
              rewrites=[(re.compile(r"\binstantiate_self_ty\((?!ty: )"), nm + "(", "*"), (re.compile(r"\bself_ty\.clone\(\)"), "ty_clone(self_ty)", "*"),
                        (re.compile(r"\b(name|trait_name): \1\.clone\(\)"), r"\1: string_clone(\1)", "*"), (re.compile(r'\bname == "Self"'), "is_self_name(name)", "*"),
                        (re.compile(r"=> ty\.clone\(\),"), "=> ty_clone(ty),", "*"), (re.compile(r"\b(elem|ret_ty|ty): \1\.clone\(\)"), r"\1: box_clone(\1)", "*"),
                        (re.compile(r"let mut (__mo\d+) = Vec::new\(\);"), r"let mut \1: Vec<Ty> = Vec::new();", "*")],
              loop_fn=loops, ghost=[("@entry", "", "proof { reveal_with_fuel(self_inst, 2); reveal_with_fuel(all_inst, 2); }")],
              obligation=f"({file.split('/')[-1]}) Self replaced by the impl's type at every depth, everything else copied",
              contract="ensures self_inst(*ty, *self_ty, r),\n decreases *ty,")


UNIT = Unit(
    name="U-SELFTY",
    properties=["C03", "C17"],
    rules=["attrs", ("strip", "tast::")],
    describe="typer::{tast_builder, toplevel, check}::instantiate_self_ty (the three copies, whole functions): the type written `Self` in an impl method's signature is replaced by the "
             "impl's type at EVERY depth — tuple elements, type applications (head and arguments), array / Vec / Ref elements, function parameters and results — and nothing else "
             "changes; a `Self` left behind reaches Core / Go as a type no environment knows (C03), or the three copies disagree about a method's signature (C17)",
    trusted=["derived Clone is an identical copy; `name == \"Self\"` compares text; `X.iter().map(|t| E).collect()` is a push loop (rule iter_map_collect)"],
    items=[Adt(file=T, kw="enum", name="Ty", rules=["attrs"]), Raw(path="contracts/selfty.shim.rs")] + [item(t, f) for t, f in FILES],
)
