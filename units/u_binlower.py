"""U-BINLOWER: the operator arms of the BinaryExpr arm of ast::lower::lower_expr_with_args (fragment) — C11."""
import os
import re
from vlib.gen import Unit, Fn, Adt, Raw

LW = "crates/ast/src/lower.rs"
A = "crates/ast/src/ast.rs"
ROOT = os.path.dirname(os.path.dirname(os.path.abspath(__file__)))
# the AST shim with the REAL operator enum instead of the opaque one
AST_SHIM = open(os.path.join(ROOT, "contracts/ast.shim.rs")).read().replace("#[verifier::external_body] #[derive(Clone, Copy)] pub struct BinaryOp { _p: u64 }\n", "").replace("#[verifier::external_body] #[derive(Clone, Copy)] pub struct UnaryOp { _p: u64 }\n", "")

UNIT = Unit(
    name="U-BINLOWER",
    properties=["C11"],
    rules=["attrs"],
    describe="ast::lower, binary and prefix operator nodes (fragments: the operator choice of the PrefixExpr arm; the twelve operator arms of the BinaryExpr arm of lower_expr_with_args): the operator token is read as the operator it "
             "writes (`+` addition, `-` subtraction, `*`, `/`, `&&`, `||`, `<`, `>`, `<=`, `>=`, `==`, `!=`), the node's first operand is the LEFT operand and its second the RIGHT "
             "one, and trailing call arguments go to the right operand (`a + f(x)`)",
    trusted=["FRAGMENT lower_binop: from `match op_token.kind() {` up to the `.` arm (U-CALLLOWER's lower_dot); the checks before it (operands and operator present) are dropped; "
             "the recursive lowering is a stub (uninterpreted lowered_with); SyntaxToken::kind is a stub; the table token -> operator (op_of) is written from the language "
             "definition, not read off the code"],
    items=[
        Raw(text="pub mod ast {\nuse vstd::prelude::*;\n"),
        Raw(text=AST_SHIM),
        Adt(file="crates/common-defs/src/lib.rs", kw="enum", name="BinaryOp", rules=["attrs"]),
        Adt(file="crates/common-defs/src/lib.rs", kw="enum", name="UnaryOp", rules=["attrs"]),
        Adt(file=A, kw="struct", name="AstIdent", rules=["attrs"]),
        Adt(file=A, kw="struct", name="ClosureParam", rules=["attrs"]),
        Adt(file=A, kw="enum", name="Expr", rules=["attrs", ("strip", "common_defs::")]),
        Adt(file=A, kw="struct", name="Arm", rules=["attrs"]),
        Adt(file=A, kw="enum", name="Pat", rules=["attrs"]),
        Raw(text="}\npub use ast::MySyntaxNodePtr;\n"),
        Raw(path="contracts/calllower.shim.rs"),
        Adt(file="crates/parser/src/syntax.rs", kw="enum", name="MySyntaxKind", rules=["attrs"]),
        Raw(path="contracts/binlower.shim.rs"),
        Fn(file=LW, name="lower_expr_with_args", rename="lower_binop", ret="r", rules=["attrs", ("strip", "common_defs::")],
           cut_from=re.compile(r"match op_token\.kind\(\) \{(?=\s*MySyntaxKind::Plus => \{)"), cut_before="MySyntaxKind::Dot => match rhs_cst {", cut_tail="        _ => None,\n    }",
           sig="fn lower_binop(ctx: &mut LowerCtx, op_token: SyntaxToken, lhs: ast::Expr, rhs_cst: cst::Expr, trailing_args: Vec<ast::Expr>, astptr: MySyntaxNodePtr) -> Option<ast::Expr>",
           rewrites=[(re.compile(r"let rhs = lower_expr_with_args\(ctx, rhs_cst, trailing_args\)\?;"),
                      "let rhs = match lower_expr_with_args(ctx, rhs_cst, trailing_args) { Some(v) => v, None => { return None; } };", "*"),
                     (re.compile(r"\bBinaryOp::"), "ast::BinaryOp::", "*")],
           obligation="each operator token is read as the operator it writes; first operand left, second right; trailing arguments go to the right operand",
           contract="ensures op_of(op_token.kind_of()) matches Some(o) ==> (match lowered_with(rhs_cst, trailing_args@) {\n"
                    "      Some(rv) => r matches Some(ast::Expr::EBinary { op, lhs: l, rhs: rr, astptr: p }) && op == o && *l == lhs && *rr == rv && p == astptr,\n"
                    "      None => r is None }),"),
        Fn(file=LW, name="lower_expr_with_args", rename="lower_prefix", ret="r", rules=["attrs", "fmtmsg", ("strip", "common_defs::")],
           cut_from=re.compile(r"let unary = match op_token\.kind\(\) \{"), cut_before="apply_trailing_args(ctx, unary, trailing_args,", cut_tail="    Some(unary)",
           sig="fn lower_prefix(ctx: &mut LowerCtx, op_token: SyntaxToken, expr: ast::Expr, astptr: MySyntaxNodePtr) -> Option<ast::Expr>",
           rewrites=[(re.compile(r"\bUnaryOp::"), "ast::UnaryOp::", "*")],
           obligation="a prefix `-` is negation, a prefix `!` is logical not, of the operand written after it; no other token is a prefix operator",
           contract="ensures op_token.kind_of() is Minus ==> (r matches Some(ast::Expr::EUnary { op, expr: e, astptr: p }) && op is Neg && *e == expr && p == astptr),\n"
                    "        op_token.kind_of() is Bang ==> (r matches Some(ast::Expr::EUnary { op, expr: e, astptr: p }) && op is Not && *e == expr && p == astptr),\n"
                    "        !(op_token.kind_of() is Minus) && !(op_token.kind_of() is Bang) ==> r is None,"),
    ],
)
