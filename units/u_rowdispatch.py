"""U-ROWDISPATCH: compile_match::compile_rows from the choice of the branch variable on (fragment) — C06."""
import re
from vlib.gen import Unit, Fn, Adt, Raw
from units.u_rows import UNIT as ROWS, CM

base = []
for it in ROWS.items:
    base.append(it)
    if isinstance(it, Raw) and getattr(it, "path", None) == "contracts/rows.shim.rs":
        break

UNIT = Unit(
    name="U-ROWDISPATCH",
    properties=["C06"],
    rules=["attrs", ("strip", "tast::")],
    describe="compile_match::compile_rows, the dispatch (fragment from `let bvar = branch_variable(&rows)` on): the rows are handed to the case function of the branch "
             "variable's type — unit, bool, string, an integer AT ITS OWN WIDTH, an enum / struct (plain or applied) by its own name and with its own type arguments, a tuple "
             "with its component types; the panicking arms (float, Vec, Ref, dyn, function, parameter, inference variable, array) are unreachable for a matchable type",
    trusted=["FRAGMENT: the head of compile_rows (no rows / first row complete) is U-ROWS'; the eight case functions and branch_variable are stubs with uninterpreted results "
             "(their own contracts are U-ROWS'); precondition: the branch variable's type is one patterns exist for (typer invariant)",
             "`&[]` is the stub no_type_args, `TastIdent::new(name)` the stub tast_ident_new, `base.as_ref()` the boxed value (rule box_as_ref)"],
    items=base + [
        Raw(path="contracts/box.shim.rs"),
        Raw(path="contracts/rowdispatch.shim.rs"),
        Fn(file=CM, name="compile_rows", rename="compile_rows_dispatch", ret="r", rules=["attrs", ("strip", "tast::"), "box_as_ref"],
           cut_from="let bvar = branch_variable(&rows);", cut_tail="",
           sig="fn compile_rows_dispatch(genv: &GlobalTypeEnv, gensym: &Gensym, diagnostics: &mut Diagnostics, rows: Vec<Row>, ty: &Ty, match_range: Option<TextRange>) -> core::Expr",
           rewrites=[("TastIdent::new(name)", "tast_ident_new(name)", "*"), (re.compile(r"&\[\],"), "&no_type_args(),", "*"),
                     (re.compile(r"panic!\([^;]*?\)(?=\s*[,}])", re.S), "{ assert(false); unreached() }", "*"),
                     (re.compile(r"unreachable!\([^)]*\)"), "{ assert(false); unreached() }", "*")],
           obligation="the case function is the one of the branch variable's type, with that type's own width / name / arguments",
           contract="requires matchable(bvar_of(rows@).ty),\n ensures r == dispatch(rows@, bvar_of(rows@), *ty),"),
    ],
)
