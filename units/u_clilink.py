"""U-CLILINK: main.rs::execute_link up to the call of link_cores (fragment) — C15."""
import re
from vlib.gen import Unit, Fn, Adt, Raw

MAIN = "crates/compiler/src/main.rs"


def loops(k, header, kw):
    mt = re.search(r"while\s+(__cv\d+)\.len\(\) > 0", header)
    if not mt:
        return None
    return (f"invariant forall|i: int| 0 <= i < units@.len() ==> (#[trigger] units@[i]).checked(),\n decreases {mt.group(1)}.len(),")


UNIT = Unit(
    name="U-CLILINK",
    properties=["C15"],
    rules=["attrs", "pubfields", ("strip", "compiler::pipeline::separate::"), "map_err_q"],
    describe="main.rs::execute_link (the `link` sub-command), from its start to the call of separate::link_cores (fragment): every artifact handed to the linker was read by "
             "separate::read_core — the loader whose checks (versions, package, embedded interface hash, recorded dependencies) U-ART proves — and a file the loader rejects "
             "ends the command with an error; nothing reaches link_cores unchecked (precondition of the link_cores stub, discharged at its call site)",
    trusted=["FRAGMENT link_load: execute_link after `let linked = ..link_cores(units)..?;` (pretty-printing and writing the Go file) is dropped",
             "separate::read_core / link_cores are stubs (uninterpreted CoreUnit::checked); anyhow!(..) is any_err() (message dropped); `for path in options.input_cores` "
             "(a Vec taken by value) is a drain from the front, in order"],
    items=[
        Raw(path="contracts/parser.shim.rs"),
        Raw(path="contracts/clilink.shim.rs"),
        Adt(file=MAIN, kw="struct", name="LinkOptions", rules=["attrs", "pubfields"]),
        Fn(file=MAIN, name="execute_link", rename="link_load", ret="r", attrs="#[verifier::loop_isolation(false)]",
           cut_from="let mut units = Vec::new();", cut_before=re.compile(r"let go_source = ").pattern, cut_tail="    Ok(linked)",
           sig="fn link_load(options: LinkOptions) -> Result<LinkOutput, AnyError>",
           pre_rewrites=[(re.compile(r"anyhow!\((?:[^()]|\((?:[^()]|\([^()]*\))*\))*\)"), "any_err()", "*"),
                         (re.compile(r"for (\w+) in options\.input_cores \{"), r"let mut __cv0 = options.input_cores; while __cv0.len() > 0 { let \1 = __cv0.remove(0);", "*"),
                         ("let mut units = Vec::new();", "let mut units: Vec<CoreUnit> = Vec::new();", "*")],
           obligation="only artifacts accepted by separate::read_core reach separate::link_cores",
           contract="",
           loop_fn=loops),
    ],
)
