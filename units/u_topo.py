import re
from vlib.gen import Unit, Fn, Adt, Raw

P = "crates/compiler/src/pipeline/packages.rs"
CYCLE_BLOCK = re.compile(r"        let mut cycle = Vec::new\(\);.*?\.join\(\" -> \"\);\n", re.S)

UNIT = Unit(
    name="U-TOPO",
    properties=["C16", "C13"],
    rules=["attrs", "fmtmsg", "msg_to_string"],
    describe="packages::{topo_sort_packages, visit_package}: Ok(order) lists every package exactly once, each after all the packages it imports; "
             "a package that imports a missing package makes the result Err; hash-collection contents are sorted before traversal (determinism discipline)",
    trusted=["the cycle-description text built for the error message is dropped (diagnostic text); termination of the DFS is NOT claimed",
             "HashMap / HashSet / OVec are shims (contents; unspecified iteration order; sort permutes)"],
    items=[
        Adt(file=P, kw="struct", name="PackageUnit", rules=["attrs"]),
        Adt(file=P, kw="struct", name="PackageGraph", rules=["attrs"]),
        Raw(path="contracts/topo.shim.rs"),
        Fn(file=P, name="visit_package", ret="r",
           attrs="#[verifier::exec_allows_no_decreases_clause]\n#[verifier::loop_isolation(false)]",
           obligation="after a successful visit the package and everything it (transitively) imports are in `order`, imports first; a missing import is an Err",
           rules=["attrs", "fmtmsg", "msg_to_string", ("consume_into", ["deps"])],
           # a walk over the import SET itself (`for dep in package.imports.iter()`): the same loop over the sequence that comes out of the hash set, unsorted
           pre_rewrites=[(re.compile(r"for (\w+) in ((?:\w+\.)*imports)\.iter\(\) \{"), r"let mut deps = OVec::from_set(&\2); for \1__o in deps { let \1 = &\1__o;", "*"),
                         (re.compile(r"for (\w+) in &((?:\w+\.)*imports) \{"), r"let mut deps = OVec::from_set(&\2); for \1__o in deps { let \1 = &\1__o;", "*")],
           rewrites=[(CYCLE_BLOCK, "", 1),
                     (re.compile(r"\bname\.to_string\(\)"), "str_to_string(name)", "*"),
                     (re.compile(r"let mut (\w+): Vec<String> = ([\w\.]+)\.iter\(\)\.cloned\(\)\.collect\(\);"), r"let mut \1 = OVec::from_set(&\2);", "*")],
           contract="""requires topo_inv(*graph, old(perm)@, old(order)@),
            forall|n: Seq<char>| old(perm)@.contains(n) ==> !old(temp)@.contains(n),
        ensures
            r is Ok ==> topo_inv(*graph, final(perm)@, final(order)@) && final(perm)@.contains(name@),
            r is Ok ==> forall|n: Seq<char>| old(perm)@.contains(n) ==> final(perm)@.contains(n),
            r is Ok ==> final(temp)@ =~= old(temp)@,
            r is Ok ==> forall|n: Seq<char>| final(perm)@.contains(n) ==> !final(temp)@.contains(n),""",
           ghost=[("@entry", "", "proof { broadcast use key_view_string, key_view_str; }"),
                  ("@loop:0:body", "", "let ghost iv_before = __iv0@; let ghost perm_before = perm@;"),
                  ("?if !graph.packages.contains_key(&dep)", "line-before", "proof { assert forall|k: Seq<char>| in_order(iv_before, k) <==> (dep@ == k || in_order(__iv0@, k)) by { lemma_in_order_remove0(iv_before, k); } }"),
                  ("?stack.pop();", "line-before", "let ghost perm_l = perm@; let ghost order_l = order@;"),
                  ("?order.push(", "line-after", "proof { lemma_topo_push(*graph, perm_l, order_l, order@.last()); assert(order@ =~= order_l.push(order@.last())); assert(perm@ =~= perm_l.insert(name@)); }")],
           loops={0: """invariant __iv0.det(), topo_inv(*graph, perm@, order@),
                    forall|n: Seq<char>| old(perm)@.contains(n) ==> perm@.contains(n),
                    temp@ =~= old(temp)@.insert(name@), !old(perm)@.contains(name@), !old(temp)@.contains(name@),
                    graph.packages@.contains_key(name@) && *package == graph.packages@[name@],
                    forall|d: Seq<char>| #![trigger package.imports@.contains(d)] package.imports@.contains(d) ==> perm@.contains(d) || in_order(__iv0@, d),
                    forall|n: Seq<char>| perm@.contains(n) ==> !temp@.contains(n),"""}),
        Fn(file=P, name="topo_sort_packages", ret="r",
           attrs="#[verifier::exec_allows_no_decreases_clause]\n#[verifier::loop_isolation(false)]",
           obligation="Ok(order): every package of the graph occurs exactly once, after all its imports; every import exists",
           rules=["attrs", "fmtmsg", "msg_to_string", ("consume_into", ["names"])],
           rewrites=[("let mut temp = HashSet::new();", "let mut temp = HashSet::<String>::new();"), ("let mut perm = HashSet::new();", "let mut perm = HashSet::<String>::new();"),
                     ("let mut order = Vec::new();", "let mut order: Vec<String> = Vec::new();"), ("let mut stack = Vec::new();", "let mut stack: Vec<String> = Vec::new();"),
                     ("let mut names: Vec<String> = graph.packages.keys().cloned().collect();", "let mut names = OVec::from_map_keys(&graph.packages);"),
                     ("visit_package(&name, graph, &mut temp, &mut perm, &mut stack, &mut order)?;", "match visit_package(name.as_str(), graph, &mut temp, &mut perm, &mut stack, &mut order) { Ok(_) => {}, Err(e) => { return Err(e); } }")],
           contract="""ensures r matches Ok(o) ==> topo_ok(*graph, o@),""",
           ghost=[("@entry", "", "proof { broadcast use key_view_string, key_view_str; }"),
                  ("@loop:0:body", "", "let ghost iv_before = __iv0@;"),
                  ("?Ok(order)", "line-before", "proof { assert forall|k: Seq<char>| #![trigger graph.packages@.contains_key(k)] graph.packages@.contains_key(k) implies in_order(order@, k) by { if in_order(__iv0@, k) { let i = choose|i: int| 0 <= i < __iv0@.len() && (#[trigger] __iv0@[i])@ == k; } assert(perm@.contains(k)); } }"),
                  ("?if perm.contains(&name)", "line-before", "proof { assert forall|k: Seq<char>| in_order(iv_before, k) <==> (name@ == k || in_order(__iv0@, k)) by { lemma_in_order_remove0(iv_before, k); } }")],
           loops={0: """invariant __iv0.det(), topo_inv(*graph, perm@, order@), temp@ =~= Set::<Seq<char>>::empty(),
                    forall|k: Seq<char>| #![trigger graph.packages@.contains_key(k)] graph.packages@.contains_key(k) ==> perm@.contains(k) || in_order(__iv0@, k),"""}),
    ],
)
