"""U-CTORTY: env::TypeEnv::{build_enum_constructor, lookup_struct_constructor} (whole) — C03, C06."""
import re
from vlib.gen import Unit, Fn, Adt, Raw

E = "crates/compiler/src/env.rs"
CMN = "crates/compiler/src/common.rs"

UNIT = Unit(
    name="U-CTORTY",
    properties=["C03", "C06", "C07"],
    rules=["attrs", ("strip", "tast::"), ("strip", "common::"), "iter_map_collect"],
    describe="env::TypeEnv::build_enum_constructor (whole): the constructor an enum variant's name denotes carries the enum's name, the variant's name and the variant's POSITION in "
             "the declaration (the tag the match compiler and the Go code switch on), and constructing with it has the type (the variant's declared payload types, in order) -> "
             "(the enum, applied to its own type parameters when it is generic) — a constant of that type for a variant without payload. "
             "lookup_struct_constructor: `Some` exactly for a known struct, named after it, with the type (declared field types, in order) -> (the struct at its own parameters)",
    trusted=["derived Clone is an identical copy; `index` is in range (precondition: the caller found the variant at that position); `Option::map` with a closure is read as a match (rule opt_map); "
             "enum_constructor_info / lookup_enum_constructor_in (iterator `find` + `map`) are not in the unit"],
    items=[
        Adt(file="crates/compiler/src/tast.rs", kw="enum", name="Ty", rules=["attrs"]),
        Adt(file="crates/compiler/src/tast.rs", kw="struct", name="TastIdent", rules=["attrs"]),
        Raw(path="contracts/concrete.shim.rs"),
        Adt(file=E, kw="struct", name="EnumDef", rules=["attrs", ("strip", "tast::")]),
        Adt(file=CMN, kw="struct", name="EnumConstructor", rules=["attrs"]),
        Adt(file=CMN, kw="struct", name="StructConstructor", rules=["attrs"]),
        Adt(file=CMN, kw="enum", name="Constructor", rules=["attrs"]),
        Raw(path="contracts/ctorty.shim.rs"),
        Fn(file=E, name="build_enum_constructor", container="TypeEnv", drop_self_impl=True, ret="r", attrs="#[verifier::loop_isolation(false)]",
           pre_rewrites=[(re.compile(r"let \(_, fields\) = &enum_def\.variants\[index\];"), "let fields = &enum_def.variants[index].1;", 1),
                         (re.compile(r"\b(\w+)\.is_empty\(\)"), r"(\1.len() == 0)", "*")],
           rewrites=[(re.compile(r"\.clone\(\)"), ".vclone()", "*"), (re.compile(r"let args: Vec<Ty> = \{ let mut (__mo\d+) = Vec::new\(\);"), r"let args: Vec<Ty> = { let mut \1: Vec<Ty> = Vec::new();", "*")],
           obligation="the constructor carries enum name, variant name and the variant's position; its type is (declared payload types) -> (the enum at its own parameters)",
           contract="requires index < enum_def.variants@.len(),\nensures enum_ctor_ok(*enum_name, *enum_def, index as int, r),",
           loop_fn=lambda k, header, kw: (lambda mt: (f"invariant __mi{mt.group(1)} <= enum_def.generics.len(), __mo{mt.group(1)}@.len() == __mi{mt.group(1)},\n"
               f"  forall|j: int| 0 <= j < __mi{mt.group(1)} ==> (#[trigger] __mo{mt.group(1)}@[j]) == (Ty::TParam {{ name: enum_def.generics@[j].0 }}),\n decreases enum_def.generics.len() - __mi{mt.group(1)},") if mt else None)(re.search(r"__mi(\d+)", header))),
        Adt(file=E, kw="struct", name="StructDef", rules=["attrs", ("strip", "tast::")]),
        Raw(text="impl VClone for StructDef { #[verifier::external_body] fn vclone(&self) -> (r: Self) { unimplemented!() } }\n"),
        Fn(file=E, name="lookup_struct_constructor", container="TypeEnv", ret="r", attrs="#[verifier::loop_isolation(false)]", rules=["attrs", ("strip", "tast::"), ("strip", "common::"), "opt_map", "iter_map_collect"],
           pre_rewrites=[(re.compile(r"\|\(_, (\w+)\)\| (\w+\.clone\(\))"), r"|__nt| { let \1 = &__nt.1; \2 }", "*"), (re.compile(r"\b(\w+)\.is_empty\(\)"), r"(\1.len() == 0)", "*")],
           rewrites=[(re.compile(r"\.clone\(\)"), ".vclone()", "*"), (re.compile(r"let (args|params): Vec<Ty> =\s*\{ let mut (__mo\d+) = Vec::new\(\);"), r"let \1: Vec<Ty> = { let mut \2: Vec<Ty> = Vec::new();", "*")],
           ghost=[("let ctor_ty = if", "line-before", "let ghost __ps = params@; proof { assert(field_types(struct_def.fields@, __ps)); }")],
           obligation="a struct's constructor carries the struct's name; its type is (declared field types, in order) -> (the struct at its own parameters); None for an unknown name",
           contract="ensures (r is Some) == self.structs@.contains_key(constr.0@), r matches Some(p) ==> struct_ctor_ok(constr.0@, self.structs@[constr.0@], p),",
           loop_fn=lambda k, header, kw: (lambda mt: (
               (f"invariant __mi{mt.group(1)} <= struct_def.generics.len(), __mo{mt.group(1)}@.len() == __mi{mt.group(1)},\n"
                f"  forall|j: int| 0 <= j < __mi{mt.group(1)} ==> (#[trigger] __mo{mt.group(1)}@[j]) == (Ty::TParam {{ name: struct_def.generics@[j].0 }}),\n decreases struct_def.generics.len() - __mi{mt.group(1)},")
               if "generics" in header else
               (f"invariant __mi{mt.group(1)} <= struct_def.fields.len(), __mo{mt.group(1)}@.len() == __mi{mt.group(1)},\n"
                f"  forall|j: int| 0 <= j < __mi{mt.group(1)} ==> (#[trigger] __mo{mt.group(1)}@[j]) == struct_def.fields@[j].1,\n decreases struct_def.fields.len() - __mi{mt.group(1)},")) if mt else None)(re.search(r"__mi(\d+)", header))),
        Fn(file="crates/compiler/src/mono.rs", name="update_constructor_type", ret="r",
           rewrites=[(re.compile(r"\.clone\(\)"), ".vclone()", "*")],
           obligation="re-pointing a constructor at a monomorphic type keeps its kind, its variant and its tag; only the type's name changes",
           contract="ensures ctor_updated(*constructor, *new_ty, r),"),
        Fn(file=E, name="enum_constructor_info", container="TypeEnv", drop_self_impl=True, ret="r",
           pre_rewrites=[(re.compile(r"enum_def\s*\.variants\s*\.iter\(\)\s*\.enumerate\(\)\s*\.find\(\|\(_, \(variant_name, _\)\)\| variant_name == constr\)\s*\.map\(\|\(index, _\)\| Self::build_enum_constructor\(enum_name, enum_def, index\)\)"),
                          "{ let mut __fi: usize = 0; let mut __fr: Option<(Constructor, Ty)> = None; while __fi < enum_def.variants.len() { if ident_eq(&enum_def.variants[__fi].0, constr) { __fr = Some(build_enum_constructor(enum_name, enum_def, __fi)); break; } __fi += 1; } __fr }", 1)],
           obligation="the constructor of the FIRST variant of that name (position = tag), None when the enum has no such variant",
           contract="ensures variant_ctor_ok(*enum_name, *enum_def, *constr, r),",
           loop_fn=lambda k, header, kw: ("invariant_except_break __fr is None,\ninvariant __fi <= enum_def.variants.len(), first_variant(*enum_def, *constr, 0) == first_variant(*enum_def, *constr, __fi as int),\n"
                                          "ensures variant_ctor_ok(*enum_name, *enum_def, *constr, __fr),\n decreases enum_def.variants.len() - __fi," if "__fi" in header else None)),
    ],
)
