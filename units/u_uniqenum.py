"""U-UNIQENUM: name_resolution::ConstructorIndex::unique_enum_for_variant (whole) — C13."""
import re
from vlib.gen import Unit, Fn, Adt, Raw

NR = "crates/compiler/src/typer/name_resolution.rs"
INV = ("invariant __ek0 <= __es0@.len(), self.enums_by_package@.contains_key(package@), *enums == self.enums_by_package@[package@],\n"
       "  found is None ==> forall|j: int| 0 <= j < __ek0 ==> !owns(*enums, (#[trigger] __es0@[j]).0@, variant@),\n"
       "  found matches Some(e) ==> exists|j0: int| 0 <= j0 < __ek0 && (#[trigger] __es0@[j0]).0@ == e@ && owns(*enums, e@, variant@)\n"
       "      && forall|j: int| 0 <= j < __ek0 && j != j0 ==> !owns(*enums, (#[trigger] __es0@[j]).0@, variant@),\n"
       "decreases __es0@.len() - __ek0,")

UNIT = Unit(
    name="U-UNIQENUM",
    properties=["C13"],
    rules=["attrs", "for_entries"],
    describe="name_resolution::ConstructorIndex::unique_enum_for_variant (whole): which enum an unqualified variant name refers to — Some(e) exactly when e is the ONLY enum of the "
             "package that declares the variant, None when none or several do — proved for an iteration order of the hash map about which nothing is known, so the answer (and with "
             "it `Ambiguous constructor` vs. a silent binding, the emitted Go) is the same on every run",
    trusted=["the two hash maps are shims: contents, `get`, and `iter()` as a sequence of all entries, each once, in an UNSPECIFIED order; String::clone copies the text"],
    items=[
        Raw(path="contracts/uniqenum.shim.rs"),
        Fn(file=NR, name="unique_enum_for_variant", container="ConstructorIndex", as_method_of="ConstructorIndex", ret="r", attrs="#[verifier::loop_isolation(false)]",
           pre_rewrites=[(re.compile(r"for \((\w+), (\w+)\) in (\w+) \{"), r"for (\1, \2) in \3.iter() {", "*")],
           rewrites=[(re.compile(r"\b(\w+)\.clone\(\)"), r"string_clone(\1)", "*"), ("let mut found = None;", "let mut found: Option<String> = None;", "*")],
           loop_fn=lambda k, header, kw: INV if "__ek0 <" in header else None,
           ghost=[("?if variants.contains(variant) {", "line-before", "proof { assert(__es0@[__ek0 - 1].0@ == enum_name@); assert(*variants == enums@[enum_name@]); }"),
                  ("?return None;", "line-before", "proof { let e = found->0; let j0 = choose|j0: int| 0 <= j0 < __ek0 - 1 && (#[trigger] __es0@[j0]).0@ == e@ && owns(*enums, e@, variant@); "
                                                   "assert(__es0@[j0].0@ != __es0@[__ek0 - 1].0@); assert(owns(*enums, e@, variant@) && owns(*enums, enum_name@, variant@)); }")],
           obligation="Some(e) iff e is the only enum of the package declaring the variant — whatever order the map is walked in",
           contract="ensures unique_owner_ok(*self, package@, variant@, r),"),
    ],
)
