"""U-CALLEETY: typer::check::Typer::infer_static_member_call_expr — the three groups of statements that record the callee of `T::m(..)` (fragments) — C20."""
import re
from vlib.gen import Unit, Fn, Adt, Raw

C = "crates/compiler/src/typer/check.rs"
R = "crates/compiler/src/typer/results.rs"
VC = (re.compile(r"\.clone\(\)"), ".vclone()", "*")
SIG = ("fn {n}(&mut self, call_expr_id: ExprId, func_expr_id: ExprId, type_ident: &TastIdent, member_ident: &TastIdent, receiver_ty: &Ty, inst_method_ty: &Ty, "
       "inst_method_ty_for_call: &Ty, dyn_method_ty: &Ty, astptr: Option<MySyntaxNodePtr>, args: &[ExprId])")


def group(name, start, end, what):
    return Fn(file=C, name="infer_static_member_call_expr", container="Typer", rename=name, ret=None, as_method_of="Typer",
              cut_from=start, cut_before=end, cut_tail="",
              sig=SIG.format(n=name), rules=["attrs", ("strip", "tast::"), ("strip", "hir::")],
              rewrites=[VC, ("args.to_vec()", "exprids_to_vec(args)", "*")],
              obligation=f"{what}: the type recorded for the callee expression is the type of its name-reference elaboration and of the call's callee elaboration",
              contract="ensures callee_rec_ok(final(self).results, call_expr_id, func_expr_id),")


UNIT = Unit(
    name="U-CALLEETY",
    properties=["C20"],
    rules=["attrs", ("strip", "tast::"), ("strip", "hir::")],
    describe="typer::check::Typer::infer_static_member_call_expr, the statements that record the callee of a path call `T::m(..)` — dynamic, trait and inherent form "
             "(fragments): the type entered in the expression-type table for the callee (what hover_type answers with) is the type carried by the callee's "
             "name-reference elaboration and by the call's callee elaboration (what tast_builder builds the typed AST from) — hover agrees with the compiler",
    trusted=["FRAGMENTS: three statement groups of one 400-line function; every local the groups (or a variant of them) might read is a parameter of the fragment, "
             "distinct parameters are unrelated types; TypeckResultsBuilder's three tables are a shim (each record_* sets one entry of one table); "
             "that hover_type / tast_builder read exactly these tables is not part of this unit"],
    items=[
        Raw(path="contracts/calleety.shim.rs"),
        Adt(file=R, kw="enum", name="NameRefElab", rules=["attrs", ("strip", "tast::"), ("strip", "hir::")]),
        Adt(file=R, kw="struct", name="CallElab", rules=["attrs", ("strip", "tast::"), ("strip", "hir::")]),
        Adt(file=R, kw="enum", name="CalleeElab", rules=["attrs", ("strip", "tast::"), ("strip", "hir::")]),
        group("record_dyn_callee", re.compile(r"self\.results\s*\.record_expr_ty\(func_expr_id, dyn_method_ty"), "return tast::Expr::ECall {", "`Tr::m(d)` on a dyn receiver"),
        group("record_trait_callee", re.compile(r"self\.results\.record_call_elab\(\s*call_expr_id,\s*CallElab \{\s*callee: CalleeElab::TraitMethod"), "return tast::Expr::ECall {", "`Tr::m(x)` on a static receiver"),
        group("record_inherent_callee", re.compile(r"self\.results\.record_call_elab\(\s*call_expr_id,\s*CallElab \{\s*callee: CalleeElab::InherentMethod"), "tast::Expr::ECall {", "`T::m(x)`, inherent method"),
    ],
)
