"""U-GOTYPENAME: go::goast::go_type_name_for, arms TArray / TVec (fragments) — C19."""
import re
from vlib.gen import Unit, Fn, Adt, Raw

GA = "crates/compiler/src/go/goast.rs"
SAN = (re.compile(r"((?:go_type_name_for|ref_struct_name)\((?:[^()]|\([^()]*\))*\))\s*\.replace\(\[.*?\],\s*\"_\"\)"), r"sanitize(&\1)", "*")
SPEC = '''// go_type_name_for on the element type, and the replacement of characters that cannot stand in an identifier: uninterpreted functions of their arguments
pub uninterp spec fn name_of(t: Ty) -> Seq<char>;
#[verifier::external_body] pub fn go_type_name_for(ty: &Ty) -> (r: String) ensures r@ == name_of(*ty) { unimplemented!() }
pub uninterp spec fn san(s: Seq<char>) -> Seq<char>;
#[verifier::external_body] pub fn sanitize(s: &String) -> (r: String) ensures r@ == san(s@) { unimplemented!() }
#[verifier::external_body] pub fn sanitize_str(s: &str) -> (r: String) ensures r@ == san(s@) { unimplemented!() }      // s.replace(['{', '}', ' ', '[', ']', ','], "_")
// the helper type of `[T; n]`: a text in front, the LENGTH, a separator, the element's name
pub open spec fn array_name_ok(r: Seq<char>, len: usize, elem: Ty) -> bool {
    exists|pre: Seq<char>| r == #[trigger] (pre + dec(len as int)) + seq!['_'] + san(name_of(elem))
}
'''

UNIT = Unit(
    name="U-GOTYPENAME",
    properties=["C19"],
    rules=["attrs", ("strip", "tast::"), "fmt_concat"],
    describe="go::goast::go_type_name_for, the arm for array types (fragment): the name of the helper type of `[T; n]` — under which the array runtime functions `array_get__..` are "
             "emitted, one set per name — contains the LENGTH: it is a fixed text, the decimal length, `_`, the element's name; arrays of one element type and different "
             "lengths get different helper names",
    trusted=["FRAGMENT array_name: one arm of go_type_name_for; the recursive call and `.replace([..], \"_\")` are stubs (uninterpreted name_of / san); `format!` with plain `{}` "
             "placeholders is read as concatenation (rule fmt_concat, shim FmtArg: the Display text of a usize is its decimal digits — std, ASSUMED)",
             "injectivity of the names of OTHER types (tuples, functions, nested applications: `_` is both separator and replacement character) is NOT claimed"],
    items=[
        Adt(file="crates/compiler/src/tast.rs", kw="enum", name="Ty", rules=["attrs"]),
        Raw(text="#[verifier::external_body] pub struct TypeVar { _p: u32 }\n"),
        Raw(path="contracts/fmt.shim.rs"),
        Raw(text=SPEC),
        Fn(file=GA, name="go_type_name_for", rename="array_name", ret="r",
           cut_from=re.compile(r"tast::Ty::TArray \{ (?:len(?:: _)?, elem|elem, len(?:: _)?|elem, \.\.) \} => "), cut_inside=True, cut_before=re.compile(r"tast::Ty::TVec \{ elem \} =>").pattern.replace("\\", ""), cut_tail="",
           sig="fn array_name(len: &usize, elem: &Box<Ty>) -> String",
           pre_rewrites=[(re.compile(r",\s*\}\s*$"), "\n}", 1), SAN, (re.compile(r"\b([a-z_]\w*)\.replace\(\[.*?\],\s*\"_\"\)"), r"sanitize_str(\1)", "*")],
           obligation="the array helper name contains the length",
           contract="ensures array_name_ok(r@, *len, **elem),",
           ghost=[("@entry", "", 'proof { reveal_strlit("_"); assert("_"@ =~= seq![\'_\']); }')]),
    ],
)
