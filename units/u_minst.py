import re
from vlib.gen import Unit, Fn, Adt, Raw

M = "crates/compiler/src/mono.rs"

UNIT = Unit(
    name="U-MINST",
    properties=["C07"],
    rules=["attrs", ("strip", "core::")],
    describe="mono::Ctx::ensure_instance (the instance table / work list of function specialisation): the name returned for (function, "
             "substitution) is ALWAYS inst_name(function, substitution contents) — the memoised answer and the fresh one agree, so one "
             "instantiation has one name; a new instance is recorded and queued for generation exactly once (one push to the work list), an instance already named changes nothing; the table invariant (every named instance has "
             "its spec_name_for name and is queued) is preserved.  This discharges the stub U-MCALL uses for ensure_instance.",
    trusted=["SubstKey::new is a canonical form of the substitution's contents and spec_name_for a function of them (both sort the entries "
             "by parameter name): stubs with that contract, assumed",
             "IndexMap / IndexSet / VecDeque are shims with the std meaning of get / insert / contains / push_back"],
    items=[
        Raw(text="pub struct Ctx {\n    pub orig_fns: AnyMap<String, CoreFn>,\n    pub instances: InstTab,\n    pub queued: QSet,\n    pub out: Vec<MonoFn>,\n"
                 "    pub work: WorkQ,\n    pub inherent_method_index: AnyMap<(String, String), String>,\n}\n"),
        Raw(path="contracts/minst.shim.rs"),
        Fn(file=M, name="ensure_instance", container="Ctx", ret="r",
           obligation="returns inst_name(name, s); names and queues a new instance exactly once; leaves a known instance alone; keeps the table invariant",
           rewrites=[("name.to_string()", "str_to_string(name)", "*"), (re.compile(r"\.clone\(\)"), ".vclone()", "*")],
           contract="""requires old(self).wf(),
        ensures final(self).wf(), r@ == inst_name(name@, s@),
            old(self).instances@.contains_key((name@, s@)) ==> final(self).instances@ == old(self).instances@ && final(self).queued@ == old(self).queued@ && final(self).work@ == old(self).work@,
            !old(self).instances@.contains_key((name@, s@)) ==> final(self).instances@ == old(self).instances@.insert((name@, s@), r@)
                && final(self).queued@ == old(self).queued@.insert((name@, s@))
                && final(self).work@ == old(self).work@.push((name@, s@, r@)),"""),
    ],
)
