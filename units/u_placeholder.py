"""U-PLACEHOLDER: typer::unify::instantiate_struct_field_ty, the lookup of the field (fragment) — C04."""
import re
from vlib.gen import Unit, Fn, Adt, Raw

U = "crates/compiler/src/typer/unify.rs"
T = "crates/compiler/src/tast.rs"

UNIT = Unit(
    name="U-PLACEHOLDER",
    properties=["C04"],
    rules=["attrs", ("strip", "tast::")],
    describe="typer::unify::instantiate_struct_field_ty (fragment: the field lookup): a field access whose name is not a field of the struct — including the editor "
             "queries' placeholder name, which still gets a type — always leaves an error diagnostic, so an accepted program never reaches the match compiler with a "
             "field its struct does not have (where it would panic)",
    trusted=["FRAGMENT: the last statement of the function; the arity check and the substitution in front of it are not part of it",
             "`.iter().find(|(fname, _)| fname == field)` is the stub find_field; push_error adds one error; the diagnostics sink is a counter"],
    items=[
        Adt(file=T, kw="enum", name="Ty", rules=["attrs"]),
        Adt(file=T, kw="struct", name="TastIdent", rules=["attrs"]),
        Raw(path="contracts/placeholder.shim.rs"),
        Fn(file=U, name="instantiate_struct_field_ty", rename="field_lookup", ret="r",
           cut_from="if let Some((_, ty)) = struct_def.fields.iter().find(|(fname, _)| fname == field) {", cut_before="@block-end" if False else None,
           sig="fn field_lookup(diagnostics: &mut Diagnostics, struct_def: &StructDef, field: &TastIdent, subst: &Subst) -> Option<Ty>",
           rewrites=[("struct_def.fields.iter().find(|(fname, _)| fname == field)", "find_field(struct_def, field)"),
                     (re.compile(r"\bfield\.0 == COMPLETION_PLACEHOLDER"), 'ident_is(field, "completion_placeholder")', "*"),
                     (re.compile(r"super::util::push_error\(\s*diagnostics,\s*format!\([^;]*?\),\s*\);", re.S), "push_error_msg(diagnostics);", "*")],
           obligation="a name that is not a field of the struct leaves an error diagnostic, whatever type (if any) the access is given",
           contract="ensures !is_field(*struct_def, *field) ==> final(diagnostics).errors() > old(diagnostics).errors(),\n"
                    "        is_field(*struct_def, *field) ==> r is Some,"),
    ],
)
