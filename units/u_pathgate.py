"""U-PATHGATE: name_resolution::NameResolution::resolve_expr, EPath arm, qualified paths: the import gate (fragment) — C16."""
import re
from vlib.gen import Unit, Fn, Adt, Raw
from units.u_pkgallow import UNIT as PK, N

base = [it for it in PK.items if not isinstance(it, Fn)]

UNIT = Unit(
    name="U-PATHGATE",
    properties=["C16"],
    rules=["attrs", "fmtmsg", "opt_is_some_and"],
    describe="name_resolution::NameResolution::resolve_expr, EPath arm, the gate for qualified value paths (fragment): a path whose first segment is a package the current "
             "package depends on but that the current FILE may not name (not its own package, not Builtin, not imported by this file) leaves the error `package X not imported`, "
             "whatever the path goes on to name — a function, an associated function `X::T::f`, a trait method `X::Tr::m`; (fragment ctor_path_gate of constructor_path_for) the same for a "
             "three-segment constructor path `P::Enum::Variant`, the only gate a constructor PATTERN goes through",
    trusted=["FRAGMENT: from `let full_name = path.display();` to the resolution of the path; the path's first segment and display text, the dependency table and the export "
             "tables are stubs (deps: the set of packages the PACKAGE depends on); package_allowed carries U-PKGALLOW's contract; the message text is dropped"],
    items=base + [
        Raw(path="contracts/pathgate.shim.rs"),
        Fn(file=N, name="package_allowed", container="ResolutionContext", as_method_of="<'a> ResolutionContext<'a>", ret="r", contract_only=True,
           contract="ensures r == may_name(package@, self.current_package@, self.imports@),"),
        Fn(file=N, name="resolve_expr", container="NameResolution", rename="qualified_path_gate", ret=None, as_method_of="NameResolution",
           cut_from="let full_name = path.display();", cut_before=re.compile(r"let res = if package == ctx\.current_package").pattern.replace("\\", ""), cut_tail="",
           sig="fn qualified_path_gate(&mut self, path: &AstPath, ctx: &ResolutionContext)",
           pre_rewrites=[(re.compile(r"let package = path\s*\.segments\(\)\s*\.first\(\)\s*\.map\(\|seg\| seg\.ident\(\)\.0\.as_str\(\)\)\s*\.unwrap_or_default\(\);"), "let package = path_first_segment(path);", 1),
                         ("path.display()", "path_display(path)", "*")],
           rewrites=[(re.compile(r"\bpackage != ctx\.current_package\b"), "str_ne(package, ctx.current_package)", "*"), (re.compile(r'\bpackage != "Builtin"'), 'str_ne(package, "Builtin")', "*")],
           ghost=[("@entry", "", 'proof { reveal_strlit("Builtin"); }')],
           obligation="first segment is a dependency the file may not name ==> an error is pushed",
           contract="ensures final(self).n_errors() >= old(self).n_errors(),\n"
                    "  must_report(*path, ctx.deps.names(), ctx.current_package@, ctx.imports@) ==> final(self).n_errors() > old(self).n_errors(),"),
        Fn(file=N, name="constructor_path_for", container="NameResolution", rename="ctor_path_gate", ret="r", as_method_of="NameResolution",
           rules=["attrs", "fmtmsg", ("strip", "hir::")],
           cut_from=re.compile(r"let exists = ctx\s*\.constructor_index\s*\.enum_has_variant\(package, enum_name, variant\);"), cut_before="@block-end", cut_tail="",
           sig="fn ctor_path_gate(&mut self, ctx: &ResolutionContext, package: &String, enum_name: &String, variant: &String) -> Option<HirPath>",
           rewrites=[(re.compile(r"(\w+)\.then\(\|\| (constructor_path\((?:[^()]|\([^()]*\))*\))\)"), r"(if \1 { Some(\2) } else { None })", "*"),
                     (re.compile(r"\((\w+ && [^()]*(?:\([^()]*\))?[^()]*)\)\s*\.then\(\|\| (constructor_path\((?:[^()]|\([^()]*\))*\))\)"), r"(if \1 { Some(\2) } else { None })", "*")],
           obligation="a constructor path `P::Enum::Variant` that names an existing variant of a package the file may not name leaves an error and resolves to nothing — in a "
                      "pattern this is the only import check the path meets",
           contract="ensures final(self).n_errors() >= old(self).n_errors(),\n"
                    "  ctx.constructor_index.has(package@, enum_name@, variant@) && !may_name(package@, ctx.current_package@, ctx.imports@) ==> final(self).n_errors() > old(self).n_errors() && r is None,"),
    ],
)
