"""U-POSFIELDS: go::compile — the six places that spell the positional fields `_0, _1, ..` of tuple structs and variant structs (fragments) — C02."""
import re
from vlib.gen import Unit, Fn, Adt, Raw
from units.u_gopkgs import types

GC = "crates/compiler/src/go/compile.rs"
RW = [(re.compile(r"\bgoast::"), "", "*"), (re.compile(r"\bgoty::"), "", "*"), (re.compile(r"\btast::"), "", "*"),
      (re.compile(r'format!\("_\{\}", (field_index|index)\)'), r"pos_field_name(*\1)", "*"),
      (re.compile(r'format!\("_\{\}", ([^()]+)\)'), r"pos_field_name(\1)", "*")]


def enum_map(elem_ty):
    """`X.iter().enumerate().map(|(i, t)| (format!("_{}", i), F)).collect()` -> an index loop that pushes (name of position i, F) for every element, in order (std semantics of enumerate / map / collect)"""
    def f(mt):
        recv, i, t, nm, val = re.sub(r"\s+", "", mt.group(1)), mt.group(2), mt.group(3), mt.group(4).strip(), mt.group(5).strip()
        return (f"{{ let mut __po: Vec<(String, {elem_ty})> = Vec::new(); let mut __pi: usize = 0; while __pi < {recv}.len() {{ let {i} = __pi; let {t} = &{recv}[__pi]; "
                f"let __e = ({nm}, {val}); __po.push(__e); __pi += 1; }} __po }}")
    f.__doc__ = enum_map.__doc__
    return (re.compile(r"(\w[\w\.\s]*?)\s*\.iter\(\)\s*\.enumerate\(\)\s*\.map\(\|\((\w+), (\w+)\)\| \((format!\([^()]*\)), (.*?)\)\)\s*\.collect\(\)", re.S), f, 1)


def lit_loops(place):
    return lambda k, header, kw: (f"invariant __pi <= {place}.len(), __po@.len() == __pi, forall|j: int| 0 <= j < __pi ==> (#[trigger] __po@[j]).0@ == pos_field(j),\n"
                                   f"decreases {place}.len() - __pi,") if "__pi <" in header else None


ENS = "ensures r@.len() == {n}, forall|j: int| 0 <= j < r@.len() ==> (#[trigger] r@[j]).0@ == pos_field(j),"

UNIT = Unit(
    name="U-POSFIELDS",
    properties=["C02"],
    rules=["attrs"],
    describe="the places of the Go back end that spell positional fields — the struct of a tuple type (tuple_to_go_struct_type), the struct of an enum variant "
             "(gen_type_definition), the literals that build a tuple / a variant value, the selectors of a tuple projection and of a variant payload — all name "
             "position i the same way (`format!(\"_{}\", i)`), so declaration, literal keys and selectors agree",
    trusted=["FRAGMENTS of compile_cexpr / gen_type_definition and the whole of tuple_to_go_struct_type; `format!(\"_{}\", i)` is the stub pos_field_name (an uninterpreted "
             "function of i); `.iter().enumerate().map(..).collect()` is rewritten to an index loop (std semantics)",
             "tast_ty_to_go_type / compile_imm / go_type_name_for are stubs"],
    items=types + [
        Raw(path="contracts/dynvt.shim.rs"),
        Raw(text="#[verifier::external_body] pub struct ImmExpr { _p: u64 }\n#[verifier::external_body] pub struct GlobalGoEnv { _p: u64 }\n"
                 "#[verifier::external_body] pub fn compile_imm(goenv: &GlobalGoEnv, a: &ImmExpr) -> (r: Expr) { unimplemented!() }\n"),
        Fn(file=GC, name="compile_cexpr", rename="variant_literal_fields", ret="r", attrs="#[verifier::loop_isolation(false)]",
           cut_from=re.compile(r"let fields = args\s*\.iter\(\)\s*\.enumerate\(\)"), cut_before=re.compile(r"goast::Expr::StructLiteral \{\s*ty: variant_ty,").pattern if False else "goast::Expr::StructLiteral {\n                    ty: variant_ty,",
           cut_tail="    fields", sig="fn variant_literal_fields(goenv: &GlobalGoEnv, args: &Vec<ImmExpr>) -> Vec<(String, Expr)>",
           pre_rewrites=[enum_map("Expr")], rewrites=RW, obligation="the literal of a variant value has one key per argument, position i named like every other place names it",
           contract=ENS.format(n="args@.len()"), loop_fn=lit_loops("args")),
        Fn(file=GC, name="compile_cexpr", rename="tuple_literal_fields", ret="r", attrs="#[verifier::loop_isolation(false)]",
           cut_from=re.compile(r"let fields = items\s*\.iter\(\)\s*\.enumerate\(\)"), cut_before="goast::Expr::StructLiteral {\n                ty: tuple_to_go_struct_type(ty),",
           cut_tail="    fields", sig="fn tuple_literal_fields(goenv: &GlobalGoEnv, items: &Vec<ImmExpr>) -> Vec<(String, Expr)>",
           pre_rewrites=[enum_map("Expr")], rewrites=RW, obligation="the literal of a tuple has one key per component, position i named like every other place names it",
           contract=ENS.format(n="items@.len()"), loop_fn=lit_loops("items")),
        Fn(file=GC, name="compile_cexpr", rename="variant_payload_selector", ret="r",
           cut_from=re.compile(r"goast::Expr::FieldAccess \{\s*obj: Box::new\(obj\),\s*field: format!\(\"_\{\}\", field_index\),"), cut_before="@block-end",
           sig="fn variant_payload_selector(obj: Expr, field_index: &usize, field_ty: Ty) -> Expr", rewrites=RW,
           obligation="reading payload component i of a variant selects the field named like every other place names position i",
           contract="ensures r matches Expr::FieldAccess { field, .. } && field@ == pos_field(*field_index as int),"),
        Fn(file=GC, name="compile_cexpr", rename="tuple_projection_selector", ret="r",
           cut_from=re.compile(r"let obj = compile_imm\(goenv, tuple\);"), cut_before="@block-end",
           sig="fn tuple_projection_selector(goenv: &GlobalGoEnv, tuple: &ImmExpr, index: &usize, ty: &Ty) -> Expr", rewrites=RW,
           obligation="projecting component i of a tuple selects the field named like every other place names position i",
           contract="ensures r matches Expr::FieldAccess { field, .. } && field@ == pos_field(*index as int),"),
        Fn(file=GC, name="tuple_to_go_struct_type", rename="tuple_struct_type", ret="r", attrs="#[verifier::loop_isolation(false)]",
           cut_from="let name = go_type_name_for(ty);", cut_before="@block-end",
           sig="fn tuple_struct_type(ty: &Ty, typs: &Vec<Ty>) -> GoType",
           pre_rewrites=[(re.compile(r"(goty::GoType::TStruct \{\s*name,\s*fields: )(typs.*?\.collect\(\))(,)", re.S), r"let __pf: Vec<(String, GoType)> = \2; \1__pf\3", 1),
                         enum_map("GoType")],
           rewrites=RW,
           obligation="the struct of a tuple type declares one field per component, position i named like every other place names it",
           contract="ensures r matches GoType::TStruct { fields, .. } && fields@.len() == typs@.len() && forall|j: int| 0 <= j < fields@.len() ==> (#[trigger] fields@[j]).0@ == pos_field(j),",
           loop_fn=lit_loops("typs")),
        Fn(file=GC, name="gen_type_definition", rename="variant_struct_fields", ret="r", attrs="#[verifier::loop_isolation(false)]",
           cut_from="let mut fields = Vec::new();", cut_before="let methods = vec![goast::Method {", cut_tail="    fields",
           sig="fn variant_struct_fields(variant_fields: &Vec<Ty>) -> Vec<Field>",
           pre_rewrites=[("for (i, field) in variant_fields.iter().enumerate() {", "let mut __vi: usize = 0; while __vi < variant_fields.len() { let i = __vi; let field = &variant_fields[__vi]; __vi += 1;")],
           rewrites=RW + [("let mut fields = Vec::new();", "let mut fields: Vec<Field> = Vec::new();")],
           obligation="the struct of an enum variant declares one field per payload component, position i named like every other place names it",
           contract="ensures r@.len() == variant_fields@.len(), forall|j: int| 0 <= j < r@.len() ==> (#[trigger] r@[j]).name@ == pos_field(j),",
           loop_fn=lambda k, header, kw: ("invariant __vi <= variant_fields.len(), fields@.len() == __vi, forall|j: int| 0 <= j < __vi ==> (#[trigger] fields@[j]).name@ == pos_field(j),\n"
                                          "decreases variant_fields.len() - __vi,") if "__vi <" in header else None),
    ],
)
