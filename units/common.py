"""Shared item lists (types extracted from /repo) reused by several units."""
from vlib.gen import Adt, Fn, Raw

LEX = "crates/lexer/src/lib.rs"
PAR = "crates/parser/src/"

TOKENKIND = [
    Adt(file=LEX, kw="enum", name="TokenKind", rules=["attrs"], attrs="#[derive(Copy, Clone, PartialEq, Eq, Structural)]"),
]
TOKEN = [
    Adt(file=LEX, kw="struct", name="Token", rules=["attrs"]),
]
IS_TRIVIA = [
    Fn(file=LEX, name="is_trivia", container="TokenKind", ret="r", contract="ensures r == (self is Whitespace || self is Comment),",
       obligation="trivia == {Whitespace, Comment}"),
]
