"""Shared item lists (types extracted from /repo) reused by several units."""
from vlib.gen import Adt, Fn, Raw

LEX = "crates/lexer/src/lib.rs"
PAR = "crates/parser/src/"

TOKENKIND = [
    Adt(file=LEX, kw="enum", name="TokenKind", rules=["attrs"], attrs="#[derive(Copy, Clone, PartialEq, Eq, Structural)]"),
]
TOKEN = [
    Adt(file=LEX, kw="struct", name="Token", rules=["attrs"]),
]
IS_TRIVIA = [
    Fn(file=LEX, name="is_trivia", container="TokenKind", ret="r", contract="ensures r == (self is Whitespace || self is Comment),",
       obligation="trivia == {Whitespace, Comment}"),
]


# ---- arm guard: a function that is verified ARM BY ARM (fragments) is only as covered as its list of arms is known --------------------------------
def arm_heads(path, fn, container, header_re):
    """the arms of the (first) `match` of `fn` whose header matches header_re: one entry per arm, the constructor paths of its pattern(s) (bindings and
    guards dropped; `guarded` marks an `if` guard), in source order"""
    import re
    from vlib import gen
    from vlib.rsitems import mask, match_delim, AnchorLost
    src = gen.load_source(path)
    s, b, e = src.find_fn(fn, container)
    body = src.text[b:e + 1]
    m = mask(body)
    mt = re.search(header_re, m)
    if not mt:
        raise AnchorLost(f"{path}::{fn}: match header {header_re!r} not found")
    op = mt.end() - 1
    if m[op] != "{":
        raise AnchorLost(f"{path}::{fn}: match header {header_re!r} must end in '{{'")
    cl = match_delim(m, op)
    heads, i = [], op + 1
    while i < cl:
        while i < cl and m[i] in " \n\t,":
            i += 1
        if i >= cl:
            break
        d, j = 0, i
        while j < cl:
            c = m[j]
            if c in "([{":
                d += 1
            elif c in ")]}":
                d -= 1
            elif c == "=" and m[j + 1] == ">" and d == 0:
                break
            j += 1
        head = body[i:j]
        mh = mask(head)
        # split off a guard (` if ` at depth 0), then the alternatives (`|` at depth 0); keep each alternative's leading path
        d, g = 0, None
        for k, c in enumerate(mh):
            if c in "([{":
                d += 1
            elif c in ")]}":
                d -= 1
            elif d == 0 and mh[k:k + 4] == " if " or (d == 0 and mh[k:k + 4] == "\nif "):
                g = k
                break
        pat = head if g is None else head[:g]
        alts, d, last = [], 0, 0
        mp = mask(pat)
        for k, c in enumerate(mp):
            if c in "([{":
                d += 1
            elif c in ")]}":
                d -= 1
            elif c == "|" and d == 0:
                alts.append(pat[last:k])
                last = k + 1
        alts.append(pat[last:])
        names = []
        for a in alts:
            mn = re.match(r"\s*&?\s*((?:[A-Za-z_]\w*::)*[A-Za-z_]\w*|_)", a)
            names.append(mn.group(1) if mn else re.sub(r"\s+", " ", a).strip())
        heads.append(" | ".join(names) + (" if .." if g is not None else ""))
        k = j + 2
        while k < cl and m[k] in " \n\t":
            k += 1
        if k < cl and m[k] == "{":
            k = match_delim(m, k) + 1
        else:
            d = 0
            while k < cl:
                c = m[k]
                if c in "([{":
                    d += 1
                elif c in ")]}":
                    d -= 1
                elif c == "," and d == 0:
                    break
                k += 1
        i = k
    return heads


def arm_guard(path, fn, container, header_re, known):
    """a Raw item (a comment in the generated file) that makes the unit UNDECIDED when the list of arms of `fn`'s match differs from `known` — an arm that was
    added (or removed, or given a guard) is code no fragment of the unit covers, so the unit cannot be green; it is never an alarm"""
    from vlib.rsitems import AnchorLost

    def text():
        heads = arm_heads(path, fn, container, header_re)
        if heads != known:
            new = [h for h in heads if h not in known or heads.count(h) != known.count(h)]
            gone = [h for h in known if h not in heads or heads.count(h) != known.count(h)]
            raise AnchorLost(f"{path}::{fn}: the arms of the match are not the ones this unit was written for (added / changed: {sorted(set(new))}; missing: {sorted(set(gone))}) — "
                             f"the function is verified arm by arm, an unknown arm is under no contract")
        return f"// arm guard: {path}::{fn} has the {len(heads)} arms this unit knows\n"
    return Raw(text=text, item=f"{path}::{fn} (list of match arms)")
