import re
from vlib.gen import Unit, Fn, Adt, Raw

L = "crates/compiler/src/lift.rs"
BS = "names(old(bound)@)"
OC = "old(captured)@"


def linv(k, coll, kind="list", pre="Set::empty()"):
    f = f"free_list({coll}@, __fk{k} as int, {BS})" if kind == "list" else f"free_arms({coll}@, __fk{k} as int, {BS})"
    return (f"invariant __fk{k} <= {coll}.len(), bound@ == old(bound)@,\n"
            f"  cap_ok({OC}, captured@, {pre}.union({f}), scope@),\n decreases {coll}.len() - __fk{k},")


def step(coll, k, what):
    """ghost around one recursive call on the k-th list element: snapshot before, compose after"""
    return [(what, "line-before", f"let ghost c_before = captured@;"),
            (what, "line-after", "proof { }")]


UNIT = Unit(
    name="U-CAPT",
    properties=["C08", "C03", "C02"],
    rules=["attrs", ("strip", "common_defs::"), "let_chain", "entry_or_insert_with", "iter_any", "for_index", "box_as_ref"],
    describe="lift::collect_captured: the capture set gains exactly the free variables of the expression (w.r.t. the locally bound names) "
             "that the defining scope binds, each with the scope's type; existing captures and the bound-name stack are left as they were — "
             "for all Lift expressions; terminates",
    trusted=["Scope::get and IndexMap<String,Ty> are shims (visible binding per name; finite map; insertion ORDER of captures is not specified)",
             "String == / clone compare/copy the text"],
    items=[
        Raw(text="// Ty etc. are opaque here\n"),
        Adt(file=L, kw="struct", name="ScopeEntry", rules=["attrs"]),
        Adt(file=L, kw="enum", name="LiftExpr", rules=["attrs", ("strip", "common_defs::")]),
        Adt(file=L, kw="struct", name="LiftArm", rules=["attrs"]),
        Raw(path="contracts/capt.shim.rs"),
        Raw(path="contracts/box.shim.rs"),
        Fn(file=L, name="collect_captured", attrs="#[verifier::loop_isolation(false)]",
           obligation="captured' = captured + (free variables of expr not locally bound, restricted to the scope); bound stack restored",
           rewrites=[(re.compile(r"\bn == name\b"), "string_eq(n, name)", 1), ("let __k0 = name.clone();", "let __k0 = string_clone(name);"),
                     ("entry.ty.clone()", "ty_clone(&entry.ty)"), (re.compile(r"bound\.push\(name\.clone\(\)\);"), "bound.push(string_clone(name));", "*")],
           contract=f"""ensures final(bound)@ == old(bound)@,
            cap_ok({OC}, final(captured)@, free_in(*expr, {BS}), scope@),
        decreases *expr,""",
           ghost=[("@entry", "", "proof { if let LiftExpr::EVar { name, .. } = expr { lemma_names_contains(bound@, name@); } }"),
                  ("@entry", "", "proof { reveal_with_fuel(free_in, 2); reveal_with_fuel(free_list, 2); reveal_with_fuel(free_arms, 2); }"),
                  ("?bound.push(", "line-after", "proof { lemma_names_push(old(bound)@, bound@.last()); assert(bound@ =~= old(bound)@.push(bound@.last())); }"),
                  ("?bound.pop();", "line-after", "proof { assert(bound@ =~= old(bound)@); }")],
           loops={
               0: "invariant __i0 <= bound.len(), !__r0 ==> forall|j: int| 0 <= j < __i0 ==> (#[trigger] bound@[j])@ != name@, __r0 ==> exists|j: int| 0 <= j < bound@.len() && (#[trigger] bound@[j])@ == name@, bound@ == old(bound)@, captured@ == old(captured)@,\n decreases bound.len() - __i0,",
               1: linv(0, "args"),
               2: linv(1, "items"),
               3: linv(2, "arms", "arms", f"free_in(**expr, {BS})"),
               4: linv(3, "args", "list", f"free_in(**func, {BS})"),
               5: linv(4, "args", "list", f"free_in(**receiver, {BS})"),
           }),
    ],
)
