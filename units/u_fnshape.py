"""U-FNSHAPE: go::compile::compile_fn, parameters and body (fragment) — C02."""
import re
from vlib.gen import Unit, Fn, Adt, Raw
from units.u_dcefx import UNIT as DCEFX

G = "crates/compiler/src/go/"
types = [it for it in DCEFX.items if isinstance(it, Adt)]

UNIT = Unit(
    name="U-FNSHAPE",
    properties=["C02"],
    rules=[("strip", "goast::"), ("strip", "goty::"), ("strip", "tast::"), ("strip", "anf::")],
    describe="go::compile::compile_fn (all but the function's own name, which is U-ENTRYNAME's): every parameter is emitted under go_ident(its name) at the Go type of its type, in "
             "order; a function without a result is its body's statements; a function with a result declares ONE result variable `var r T` (T the Go result type, no initialiser) "
             "FIRST, then the statements that store the body's value into that same variable, then `return r` at type T LAST, and its Go result type is T — the variable that is "
             "declared is the one assigned and the one returned",
    trusted=["FRAGMENT fn_shape: compile_fn without the statements that compute `patched_name` (is_entry / main0: U-ENTRYNAME); compile_aexpr / compile_aexpr_assign are stubs with "
             "uninterpreted results (effect_stmts / assign_stmts); go_ident and tast_ty_to_go_type are uninterpreted functions of the name / the type (U-GOIDENT, U-GOTYPE); "
             "Gensym::gensym returns an arbitrary fresh name; `for (name, ty) in f.params` (a Vec taken by value) is a drain from the front, in order; Vec::extend(Vec) appends"],
    items=types + [
        Raw(path="contracts/while.shim.rs"),
        Adt(file=G + "goast.rs", kw="struct", name="Fn", rules=["attrs", ("strip", "goty::")], rewrites=[("pub struct Fn", "pub struct GoFn", 1)]),
        Raw(path="contracts/fnshape.shim.rs"),
        Fn(file=G + "compile.rs", name="compile_fn", rename="fn_shape", ret="r", attrs="#[verifier::loop_isolation(false)]",
           sig="fn fn_shape(goenv: &GlobalGoEnv, gensym: &Gensym, f_params: Vec<(String, Ty)>, f_ret_ty: Ty, f_body: AExpr, patched_name: String) -> GoFn",
           cut_from="let mut params = Vec::new();", cut_tail="",
           pre_rewrites=[(re.compile(r"let is_entry = .*?\n    \};\n", re.S), "", 1),
                         (re.compile(r"for \((\w+), (\w+)\) in f\.params \{"), r"let mut __ps = f_params; while __ps.len() > 0 { let (\1, \2) = __ps.remove(0);", 1),
                         (re.compile(r"\bf\.(ret_ty|body)\b"), r"f_\1", "*"),
                         ("let mut params = Vec::new();", "let ghost ps0 = f_params@; let mut params: Vec<(String, GoType)> = Vec::new();", 1),
                         ("let mut stmts = Vec::new();", "let mut stmts: Vec<Stmt> = Vec::new();", "*"),
                         (re.compile(r"\b(\w+)\.extend\(((?:[^()]|\([^()]*\))*)\);"), r"vec_extend(&mut \1, \2);", "*"),
                         (re.compile(r"\.clone\(\)"), ".vclone()", "*"), (re.compile(r"\n    goast::Fn \{\n"), "\n    GoFn {\n", 1)],
           rewrites=[(re.compile(r"\n    GoFn \{(.*)\n    \}\s*\n\}\s*$", re.S), r"\n    let __res = GoFn {\1\n    };\n    proof { assert(__res.body.stmts@ == body_stmts@); }\n    __res\n}", 1)],
           obligation="parameters mangled and typed in order; the result variable is declared once, first; assigned by the body's statements; returned last",
           contract="ensures fn_shape_ok(r, f_params@, f_ret_ty, f_body, patched_name),",
           ghost=[("let __res = GoFn {", "line-before", "proof { if !(go_ty_spec(f_ret_ty) is TVoid) { assert(exists|v: Seq<char>| #[trigger] result_var_shape(body_stmts@, v, go_ty_spec(f_ret_ty), f_body)); } }"),
                  ("(Some(go_ret_ty), stmts)", "line-before",
                   "proof { let a = assign_stmts(ret_name@, f_body); assert(stmts@.subrange(1, a.len() as int + 1) =~= a); assert(result_var_shape(stmts@, ret_name@, go_ret_ty, f_body)); }")],
           loop_fn=lambda k, header, kw: ("invariant __ps@.len() <= ps0.len(), params@.len() + __ps@.len() == ps0.len(), __ps@ =~= ps0.subrange(params@.len() as int, ps0.len() as int),\n"
                                          "  forall|j: int| 0 <= j < params@.len() ==> (#[trigger] params@[j]).0@ == go_ident_spec(ps0[j].0@) && params@[j].1 == go_ty_spec(ps0[j].1),\n"
                                          " decreases __ps@.len()," if "__ps.len() > 0" in header else None)),
    ],
)
