"""U-FNBODY: typer::toplevel::typecheck_fn, from the parameter types on (fragment) — C03."""
import re
from vlib.gen import Unit, Fn, Adt, Raw
from units.u_localcall import UNIT as LC

TL = "crates/compiler/src/typer/toplevel.rs"
base = [it for it in LC.items if not isinstance(it, Fn)]

def ENUM_LOOPS(header):
    mt = re.search(r"__mi(\d+)", header)
    if mt and "variants" in header:
        n = mt.group(1)
        return (f"invariant __mi{n} <= enum_def.variants.len(), __mo{n}@.len() == __mi{n},\n"
                f"  forall|j: int| 0 <= j < __mi{n} ==> (#[trigger] __mo{n}@[j]).0.0@ == enum_def.variants@[j].0.text() && tys_of(enum_def.variants@[j].1@, __mo{n}@[j].1@),\n decreases enum_def.variants.len() - __mi{n},")
    if mt and "generics" in header:
        n = mt.group(1)
        return (f"invariant __mi{n} <= enum_def.generics.len(), __mo{n}@.len() == __mi{n},\n"
                f"  forall|j: int| 0 <= j < __mi{n} ==> (#[trigger] __mo{n}@[j]).0@ == enum_def.generics@[j].text(),\n decreases enum_def.generics.len() - __mi{n},")
    if mt:      # the payload types of ONE variant (the closure's own `typs`)
        n = mt.group(1)
        c = re.search(r"<\s*(\w+)\s*\.len\(\)", header).group(1)
        return (f"invariant __mi{n} <= {c}.len(), __mo{n}@.len() == __mi{n},\n"
                f"  forall|j: int| 0 <= j < __mi{n} ==> #[trigger] __mo{n}@[j] == hir_ty({c}@[j]),\n decreases {c}.len() - __mi{n},")
    mf = re.search(r"while\s+(__fk\d+)\s*<\s*(\w+)\.len\(\)", header)
    if mf:      # `for ty in typs.iter() { validate_ty(..) }`: nothing changes
        return f"invariant {mf.group(1)} <= {mf.group(2)}.len(),\n decreases {mf.group(2)}.len() - {mf.group(1)},"
    return None


UNIT = Unit(
    name="U-FNBODY",
    properties=["C03", "C17"],
    rules=["attrs", "fmtmsg", ("strip", "tast::"), ("strip", "hir::"), "iter_map_collect", "for_index"],
    describe="typer::toplevel::typecheck_fn, from the parameter types on (fragment): the body of a function is checked against its DECLARED result type (unit when none is written) "
             "in an environment in which every parameter is bound to its DECLARED type, and the constraints are solved afterwards — the signature the callers were checked "
             "against is the one the body is held to. The same for the methods of an impl block (`Self` replaced by the impl's type). The DECLARATIONS everything else is checked "
             "against: define_function records (declared parameter types) -> (declared result type) as the function's scheme; define_struct / define_enum record the written "
             "fields / variants, in order, with the types their annotations denote; define_trait records every declared method with its declared signature",
    trusted=["FRAGMENT fn_body_checked: the collection of the generic bounds in front is dropped; `typer.check_expr(.., f.body, &ret_ty)` is the gate stub check_body whose "
             "precondition is the statement (and `solve` demands that the body was checked); Ty::from_hir is an uninterpreted function of the written type (environment and type "
             "parameters are fixed within one function); insert_var appears with its frame (other locals keep their binding: ASSUMED, `last_mut()` is out of reach); ids of "
             "parameters are fresh (U-SCOPE), the statement is about the last parameter of each id"],
    items=base + [
        Raw(path="contracts/fnbody.shim.rs"),
        Fn(file=TL, name="typecheck_fn", rename="fn_body_checked", attrs="#[verifier::loop_isolation(false)]",
           cut_from=re.compile(r"let param_types: Vec<\(hir::LocalId, tast::Ty\)> = f"), cut_tail="",
           sig="fn fn_body_checked(genv: &PackageTypeEnv, typer: &mut Typer, diagnostics: &mut Diagnostics, f: &HirFn, tparams: Vec<TastIdent>, mut local_env: LocalTypeEnv)",
           pre_rewrites=[(re.compile(r"\|\((\w+), (\w+)\)\| \{"), r"|__nt| { let \1 = &__nt.0; let \2 = &__nt.1;", "*"),
                         ("tast::Ty::from_hir(", "ty_from_hir(", "*"), ("(*name, ty)", "(local_copy(name), ty)", "*"),
                         (re.compile(r"for \((\w+), (\w+)\) in param_types\.iter\(\) \{"), r"for __pt in param_types.iter() { let \1 = &__pt.0; let \2 = &__pt.1;", 1),
                         ("local_env.insert_var(*id, ty.clone());", "local_env.insert_param(local_copy(id), ty.vclone());", "*"),
                         ("typer.results.record_local_ty(*id, ty.clone());", "typer.record_local_ty(local_copy(id), ty.vclone());", "*"),
                         (re.compile(r"typer\.check_expr\(genv, &mut local_env, diagnostics, f\.body, &ret_ty\)"), "typer.check_body(genv, &mut local_env, diagnostics, f.body, &ret_ty, Ghost(*f))", 1)],
           rewrites=[(re.compile(r"let mut (__mo\d+) = Vec::new\(\);"), r"let mut \1: Vec<(LocalId, Ty)> = Vec::new();", "*")],
           obligation="the body is checked against the declared result type with every parameter bound to its declared type; then the constraints are solved",
           contract="ensures final(typer).solved(),",
           loop_fn=lambda k, header, kw: (
               (lambda mt: f"invariant __mi{mt.group(1)} <= f.params.len(), __mo{mt.group(1)}@.len() == __mi{mt.group(1)},\n"
                           f"  forall|j: int| 0 <= j < __mi{mt.group(1)} ==> (#[trigger] __mo{mt.group(1)}@[j]).0 == f.params@[j].0 && __mo{mt.group(1)}@[j].1 == hir_ty(f.params@[j].1),\n decreases f.params.len() - __mi{mt.group(1)},")(re.search(r"__mi(\d+)", header))
               if "__mi" in header else
               (lambda mt: f"invariant {mt.group(1)} <= param_types.len(), param_types@.len() == f.params@.len(),\n"
                           f"  forall|j: int| 0 <= j < param_types@.len() ==> (#[trigger] param_types@[j]).0 == f.params@[j].0 && param_types@[j].1 == hir_ty(f.params@[j].1),\n"
                           f"  forall|i: int| 0 <= i < {mt.group(1)} && (forall|j: int| i < j < {mt.group(1)} ==> (#[trigger] f.params@[j]).0 != f.params@[i].0) ==> local_env.bound((#[trigger] f.params@[i]).0) == Some(hir_ty(f.params@[i].1)),\n"
                           f" decreases param_types.len() - {mt.group(1)},")(re.search(r"while\s+(__fk\d+)", header)))),
        Fn(file=TL, name="typecheck_impl_block", rename="method_body_checked", attrs="#[verifier::loop_isolation(false)]",
           cut_from=re.compile(r"let param_types: Vec<\(hir::LocalId, tast::Ty\)> = f"), cut_before="@block-end", cut_tail="",
           sig="fn method_body_checked(genv: &PackageTypeEnv, typer: &mut Typer, diagnostics: &mut Diagnostics, f: &HirFn, for_ty: Ty, all_generics: Vec<HirIdent>, all_generics_tast: Vec<TastIdent>, mut local_env: LocalTypeEnv)",
           pre_rewrites=[(re.compile(r"\|\((\w+), (\w+)\)\| \{"), r"|__nt| { let \1 = &__nt.0; let \2 = &__nt.1;", "*"),
                         ("tast::Ty::from_hir(", "ty_from_hir(", "*"), ("(*name, ty)", "(local_copy(name), ty)", "*"),
                         (re.compile(r"let tparams: Vec<tast::TastIdent> = all_generics\s*\.iter\(\)\s*\.map\(\|g\| tast::TastIdent\(g\.to_ident_name\(\)\)\)\s*\.collect\(\);"), "let tparams: Vec<tast::TastIdent> = tparams_of(&all_generics);", 1),
                         (re.compile(r"for \((\w+), (\w+)\) in param_types\.iter\(\) \{"), r"for __pt in param_types.iter() { let \1 = &__pt.0; let \2 = &__pt.1;", 1),
                         ("local_env.insert_var(*id, ty.clone());", "local_env.insert_param(local_copy(id), ty.vclone());", "*"),
                         ("typer.results.record_local_ty(*id, ty.clone());", "typer.record_local_ty(local_copy(id), ty.vclone());", "*"),
                         (re.compile(r"typer\.check_expr\(genv, &mut local_env, diagnostics, f\.body, &ret_ty\)"), "typer.check_body_m(genv, &mut local_env, diagnostics, f.body, &ret_ty, Ghost(*f), Ghost(for_ty))", 1)],
           rewrites=[(re.compile(r"let mut (__mo\d+) = Vec::new\(\);"), r"let mut \1: Vec<(LocalId, Ty)> = Vec::new();", "*")],
           obligation="a method's body is checked against its declared result type, `Self` replaced by the impl's type, with every parameter bound to its declared type likewise; then the constraints are solved",
           contract="ensures final(typer).solved(),",
           loop_fn=lambda k, header, kw: (
               (lambda mt: f"invariant __mi{mt.group(1)} <= f.params.len(), __mo{mt.group(1)}@.len() == __mi{mt.group(1)},\n"
                           f"  forall|j: int| 0 <= j < __mi{mt.group(1)} ==> (#[trigger] __mo{mt.group(1)}@[j]).0 == f.params@[j].0 && __mo{mt.group(1)}@[j].1 == self_inst(hir_ty(f.params@[j].1), for_ty),\n decreases f.params.len() - __mi{mt.group(1)},")(re.search(r"__mi(\d+)", header))
               if "__mi" in header else
               (lambda mt: f"invariant {mt.group(1)} <= param_types.len(), param_types@.len() == f.params@.len(),\n"
                           f"  forall|j: int| 0 <= j < param_types@.len() ==> (#[trigger] param_types@[j]).0 == f.params@[j].0 && param_types@[j].1 == self_inst(hir_ty(f.params@[j].1), for_ty),\n"
                           f"  forall|i: int| 0 <= i < {mt.group(1)} && (forall|j: int| i < j < {mt.group(1)} ==> (#[trigger] f.params@[j]).0 != f.params@[i].0) ==> local_env.bound((#[trigger] f.params@[i]).0) == Some(self_inst(hir_ty(f.params@[i].1), for_ty)),\n"
                           f" decreases param_types.len() - {mt.group(1)},")(re.search(r"while\s+(__fk\d+)", header)))),
        Adt(file="crates/compiler/src/env.rs", kw="enum", name="FnOrigin", rules=["attrs"]),
        Adt(file="crates/compiler/src/env.rs", kw="struct", name="FnScheme", rules=["attrs", ("strip", "tast::")]),
        Fn(file=TL, name="define_function", attrs="#[verifier::loop_isolation(false)]",
           pre_rewrites=[("func: &hir::Fn", "func: &HirFnDef", 1), ("let name = func.name.clone();", "let name = func.name.vclone(); let ghost __name = name@;", 1),
                         (re.compile(r"let generics_tast: Vec<tast::TastIdent> = func\s*\.generics\s*\.iter\(\)\s*\.map\(\|g\| tast::TastIdent\(g\.to_ident_name\(\)\)\)\s*\.collect\(\);"), "let generics_tast: Vec<tast::TastIdent> = tparams_of(&func.generics);", 1),
                         (re.compile(r"\|\(_, (\w+)\)\| \{"), r"|__nt| { let \1 = &__nt.1;", "*"), (".collect::<Vec<_>>();", ".collect();", "*"),
                         ("tast::Ty::from_hir(env, ", "ty_from_hir(env, ", "*"), (re.compile(r"env\.current_mut\(\)\.value_env\.funcs\.insert\("), "insert_func(env, ", 1),
                         ("type_params: vec![],", "type_params: Vec::new(),", 1)],
           rewrites=[(re.compile(r"let mut (__mo\d+) = Vec::new\(\);"), r"let mut \1: Vec<Ty> = Vec::new();", "*")],
           obligation="the scheme recorded for a function is (declared parameter types, in order) -> (declared result type, unit when none is written)",
           contract="ensures scheme_declared(*func, final(env).func_scheme(func.name@)),",
           loop_fn=lambda k, header, kw: (lambda mt: (f"invariant __mi{mt.group(1)} <= func.params.len(), __mo{mt.group(1)}@.len() == __mi{mt.group(1)},\n"
               f"  forall|j: int| 0 <= j < __mi{mt.group(1)} ==> #[trigger] __mo{mt.group(1)}@[j] == hir_ty(func.params@[j].1),\n decreases func.params.len() - __mi{mt.group(1)},") if mt else None)(re.search(r"__mi(\d+)", header))),
        Adt(file="crates/compiler/src/env.rs", kw="struct", name="StructDef", rules=["attrs", ("strip", "tast::")]),
        Adt(file="crates/compiler/src/env.rs", kw="struct", name="EnumDef", rules=["attrs", ("strip", "tast::")]),
        Fn(file=TL, name="define_struct", attrs="#[verifier::loop_isolation(false)]",
           pre_rewrites=[("struct_def: &hir::StructDef,", "struct_def: &HirStructDef,", 1), ("tast::Ty::from_hir(env, ", "ty_from_hir(env, ", "*"),
                         (re.compile(r"\|\((\w+), (\w+)\)\| \{"), r"|__nt| { let \1 = &__nt.0; let \2 = &__nt.1;", "*"),
                         (re.compile(r"env\.current_mut\(\)\.insert_struct\(env::StructDef \{"), "insert_struct(env, StructDef {", 1)],
           rewrites=[(re.compile(r"let params_env: Vec<TastIdent> = \{ let mut (__mo\d+) = Vec::new\(\);"), r"let params_env: Vec<TastIdent> = { let mut \1: Vec<TastIdent> = Vec::new();", "*"),
                     (re.compile(r"let fields = \{ let mut (__mo\d+) = Vec::new\(\);"), r"let fields = { let mut \1: Vec<(TastIdent, Ty)> = Vec::new();", "*"),
                     (re.compile(r"generics: \{ let mut (__mo\d+) = Vec::new\(\);"), r"generics: { let mut \1: Vec<TastIdent> = Vec::new();", "*")],
           obligation="the recorded struct definition has the written name, type parameters and, field by field in order, the written field name and the type its annotation denotes",
           contract="ensures struct_declared(*struct_def, final(env).struct_def(struct_def.name.text())),",
           loop_fn=lambda k, header, kw: (lambda mt: (
               (f"invariant __mi{mt.group(1)} <= struct_def.fields.len(), __mo{mt.group(1)}@.len() == __mi{mt.group(1)},\n"
                f"  forall|j: int| 0 <= j < __mi{mt.group(1)} ==> (#[trigger] __mo{mt.group(1)}@[j]).0.0@ == struct_def.fields@[j].0.text() && __mo{mt.group(1)}@[j].1 == hir_ty(struct_def.fields@[j].1),\n decreases struct_def.fields.len() - __mi{mt.group(1)},")
               if "fields" in header else
               (f"invariant __mi{mt.group(1)} <= struct_def.generics.len(), __mo{mt.group(1)}@.len() == __mi{mt.group(1)},\n"
                f"  forall|j: int| 0 <= j < __mi{mt.group(1)} ==> (#[trigger] __mo{mt.group(1)}@[j]).0@ == struct_def.generics@[j].text(),\n decreases struct_def.generics.len() - __mi{mt.group(1)},")) if mt else None)(re.search(r"__mi(\d+)", header))),
        Fn(file=TL, name="define_enum", attrs="#[verifier::loop_isolation(false)]", rules=["attrs", "fmtmsg", ("strip", "tast::"), ("strip", "hir::"), "iter_map_collect", "for_index"],
           pre_rewrites=[("enum_def: &hir::EnumDef", "enum_def: &HirEnumDef", 1), ("tast::Ty::from_hir(env, ", "ty_from_hir(env, ", "*"), (".collect::<Vec<_>>();", ".collect();", "*"),
                         (re.compile(r"\|\((\w+), (\w+)\)\| \{"), r"|__nt| { let \1 = &__nt.0; let \2 = &__nt.1;", "*"),
                         (re.compile(r"env\.current_mut\(\)\.insert_enum\(env::EnumDef \{"), "insert_enum(env, EnumDef {", 1)],
           rewrites=[(re.compile(r"let mut (__mo\d+) = Vec::new\(\); let mut (__mi\d+): usize = 0; while \2 < ([\w\s\.]+?)\.len\(\)"),
                      lambda mt: (f"let mut {mt.group(1)}: Vec<" + ("TastIdent" if "generics" in mt.group(3) else "(TastIdent, Vec<Ty>)" if "variants" in mt.group(3) else "Ty") +
                                  f"> = Vec::new(); let mut {mt.group(2)}: usize = 0; while {mt.group(2)} < {mt.group(3)}.len()"), "*")],
           obligation="the recorded enum definition has the written name, type parameters and, variant by variant in order, the written variant name and the types its payload annotations denote",
           contract="ensures enum_declared(*enum_def, final(env).enum_def(enum_def.name.text())),",
           loop_fn=lambda k, header, kw, body="": ENUM_LOOPS(header)),
        Fn(file=TL, name="define_trait", attrs="#[verifier::loop_isolation(false)]", rules=["attrs", "fmtmsg", ("strip", "tast::"), ("strip", "hir::"), "iter_map_collect", "for_index"],
           pre_rewrites=[("trait_def: &hir::TraitDef", "trait_def: &HirTraitDef", 1), ("let mut methods = IndexMap::new();", "let mut methods: MethodMap<FnScheme> = MethodMap::new();", 1),
                         (re.compile(r"for hir::TraitMethodSignature \{\s*name: method_name,\s*params,\s*ret_ty,\s*\} in trait_def\.method_sigs\.iter\(\)\s*\{"),
                          "for __sig in trait_def.method_sigs.iter() { let method_name = &__sig.name; let params = &__sig.params; let ret_ty = &__sig.ret_ty;", 1),
                         (re.compile(r"tast::Ty::from_hir\(env, (\w+), &\[\]\)"), r"ty_from_hir(env, \1, &no_tparams())", "*"), (".collect::<Vec<_>>();", ".collect();", "*"),
                         ("type_params: vec![],", "type_params: Vec::new(),", "*"),
                         (re.compile(r"env\.current_mut\(\)\s*\.trait_env\s*\.trait_defs\s*\.insert\(trait_def\.name\.to_ident_name\(\), env::TraitDef \{ methods \}\);"), "insert_trait(env, trait_def.name.to_ident_name(), TraitDefRec { methods });", 1)],
           rewrites=[(re.compile(r"let mut (__mo\d+) = Vec::new\(\);"), r"let mut \1: Vec<Ty> = Vec::new();", "*")],
           obligation="the recorded trait holds, for every declared method, the function type (declared parameter types, in order) -> (declared result type)",
           contract="ensures trait_declared(*trait_def, final(env).trait_def(trait_def.name.text())),",
           loop_fn=lambda k, header, kw: (
               (lambda mt: f"invariant __mi{mt.group(1)} <= params.len(), __mo{mt.group(1)}@.len() == __mi{mt.group(1)},\n  forall|j: int| 0 <= j < __mi{mt.group(1)} ==> #[trigger] __mo{mt.group(1)}@[j] == hir_ty(params@[j]),\n decreases params.len() - __mi{mt.group(1)},")(re.search(r"__mi(\d+)", header))
               if "__mi" in header else
               (lambda mt: f"invariant {mt.group(1)} <= trait_def.method_sigs.len(), methods_upto(trait_def.method_sigs@, {mt.group(1)} as int, methods@),\n decreases trait_def.method_sigs.len() - {mt.group(1)},")(re.search(r"while\s+(__fk\d+)", header)))),
    ],
)
