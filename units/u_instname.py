"""U-INSTNAME: mono::spec_name_for (the per-parameter piece) and TypeMono::ensure_instance (the per-argument piece) — C07, C19: two instantiations of one generic item at
different types get different names."""
import re
from vlib.gen import Unit, Fn, Adt, Raw
from vlib import gen
from vlib.rsitems import AnchorLost, mask, match_delim
from vlib.cps import split_top

M = "crates/compiler/src/mono.rs"
# the functions that spell a type inside a name: their spec form, and the injectivity lemma there is for it (None: known NOT to be injective)
RENDER = {"ty_compact": ("compact", "compact_injective"), "encode_ty": ("encoded", None)}


def closure_of_spec_name_for():
    """(parameter names, body text) of the closure `.map(|(k, v)| BODY)` that spells one (parameter, type) pair in spec_name_for"""
    src = gen.load_source(M)
    s0, b0, e0 = src.find_fn("spec_name_for", None)
    body = src.text[b0:e0 + 1]
    m = mask(body)
    hits = list(re.finditer(r"\.map\(\s*\|\(\s*(\w+)\s*,\s*(\w+)\s*\)\|\s*", m))
    if len(hits) != 1:
        raise AnchorLost(f"spec_name_for: {len(hits)} closures `.map(|(k, v)| ..)`, expected 1")
    h = hits[0]
    op = m.index("(", h.start())
    cl = match_delim(m, op)
    return h.group(1), h.group(2), body[h.end():cl].strip()


def pair_format():
    k, v, text = closure_of_spec_name_for()
    mt = re.fullmatch(r"format!\((.*)\)", text, re.S)
    if not mt:
        raise AnchorLost("spec_name_for: the pair closure is not a single format!(..)")
    parts = split_top(mt.group(1))
    ms = re.fullmatch(r'"((?:[^"\\]|\\.)*)"', parts[0].strip())
    if not ms or "\\" in ms.group(1) or re.search(r"\{[^}]", ms.group(1)):
        raise AnchorLost("spec_name_for: format string is not a plain literal with `{}` placeholders")
    lits = ms.group(1).split("{}")
    args = [a.strip() for a in parts[1:]]
    if len(lits) != len(args) + 1:
        raise AnchorLost("spec_name_for: placeholders and arguments do not match")
    roles = []
    for a in args:
        if a == k:
            roles.append(("k", None))
            continue
        mr = re.fullmatch(r"(?:[\w:]+::)?(\w+)\(&?" + re.escape(v) + r"\)", a)
        if not mr or mr.group(1) not in RENDER:
            raise AnchorLost(f"spec_name_for: argument `{a}` of the pair format is not a known spelling of the type (ty_compact / encode_ty)")
        roles.append(("v", mr.group(1)))
    return k, v, lits, roles


def type_render_of_ensure_instance():
    src = gen.load_source(M)
    s0, b0, e0 = src.find_fn("ensure_instance", "TypeMono")
    body = src.text[b0:e0 + 1]
    hits = re.findall(r"args\s*\.iter\(\)\s*\.map\((?:[\w:]+::)?(\w+)\)\s*\.collect::<Vec<_>>\(\)\s*\.join\(\"([^\"\\]*)\"\)", body)
    if len(hits) != 1 or hits[0][0] not in RENDER:
        raise AnchorLost("TypeMono::ensure_instance: `args.iter().map(<ty_compact | encode_ty>).collect::<Vec<_>>().join(\"..\")` not found exactly once")
    mf = re.search(r'format!\(\s*"__\{\}",', body)
    mn = re.search(r'(?:TastIdent::new\(&|self\.free_instance_name\()format!\("\{\}\{\}", name, suffix\)\)', body)      # (since fix 42968a0 the name goes through free_instance_name: U-TMONO)
    if not mf or not mn:
        raise AnchorLost("TypeMono::ensure_instance: the suffix `__{}` / the name `{}{}` of (name, suffix) not found")
    return hits[0]


def lit(x):
    return f'"{x}"@'        # an empty piece too: fmt_lit("") is `""@`, which only reveal_strlit would equate with the empty sequence


def derived():
    k, v, lits, roles = pair_format()
    pieces = [lit(lits[0])]
    vpos = []
    for i, (r, fn_) in enumerate(roles):
        pieces.append("k" if r == "k" else f"{RENDER[fn_][0]}(v)")
        if r == "v":
            vpos.append((len(pieces) - 1, fn_))
        if lits[i + 1]:
            pieces.append(lit(lits[i + 1]))      # rule fmt_concat emits nothing for an empty piece
    out = ["// DERIVED on every run from the closure `.map(|(k, v)| format!(..))` of mono::spec_name_for: the text one (type parameter, type argument) pair contributes to an instance's name",
           f"pub open spec fn pair_text(k: Seq<char>, v: Ty) -> Seq<char> {{ {' + '.join(pieces)} }}",
           "// C07 / C19: two instances of ONE generic function that differ in the type given to a parameter differ in that parameter's piece of the name"]
    if len(vpos) == 1 and RENDER[vpos[0][1]][1]:
        p, fn_ = vpos[0]
        sp, inj = RENDER[fn_]
        pre, post = " + ".join(pieces[:p]), (" + ".join(pieces[p + 1:]) or "Seq::<char>::empty()")
        sub = lambda x: " + ".join(pieces[:p]).replace("(v)", f"({x})")
        proof = (f"let pre = {pre}; let post = {post}; assert(pair_text(k, v1) =~= pre + {sp}(v1) + post); assert(pair_text(k, v2) =~= pre + {sp}(v2) + post); "
                 f"cat_cancel(pre, {sp}(v1), {sp}(v2), post); {inj}(v1, v2);")
    else:
        proof = ""       # the type is missing from the piece, occurs twice, or is spelled by a function that is not injective: stated without a hint, and fails when it is false
    out.append(f"pub proof fn pair_text_tells_types_apart(k: Seq<char>, v1: Ty, v2: Ty) requires pair_text(k, v1) == pair_text(k, v2) ensures v1 == v2 {{ {proof} }}")
    fn_, sep = type_render_of_ensure_instance()
    sp, inj = RENDER[fn_]
    out += ["// DERIVED on every run from TypeMono::ensure_instance: the name of the instance of a generic struct / enum at ONE type argument (`name` + `__` + the argument's spelling;",
            "// with several arguments the spellings are joined — that case is not claimed here)",
            f'pub open spec fn type_instance_name(name: Seq<char>, a: Ty) -> Seq<char> {{ name + "__"@ + {sp}(a) }}',
            f"pub proof fn type_instance_name_tells_types_apart(name: Seq<char>, a1: Ty, a2: Ty) requires type_instance_name(name, a1) == type_instance_name(name, a2) ensures a1 == a2 {{ "
            + (f'let pre = name + "__"@; let e = Seq::<char>::empty(); assert(type_instance_name(name, a1) =~= pre + {sp}(a1) + e); assert(type_instance_name(name, a2) =~= pre + {sp}(a2) + e); '
               f"cat_cancel(pre, {sp}(a1), {sp}(a2), e); {inj}(a1, a2);" if inj else "") + " }"]
    return "\n".join(out) + "\n"


def to_closure_body(mt):
    """the function body is replaced by the BODY of the closure `.map(|(k, v)| BODY)` (the text one pair contributes); everything around it — collecting and sorting the pairs, joining the pieces with `__`, the prefix — is dropped"""
    k, v, text = closure_of_spec_name_for()
    binds = (f"let {k} = k; " if k != "k" else "") + (f"let {v} = v; " if v != "v" else "")      # the closure's own parameter names
    return f"fn pair_text_of(k: &String, v: &Ty) -> String {{\n    {binds}{text}\n}}"


UNIT = Unit(
    name="U-INSTNAME",
    properties=["C07", "C19"],
    rules=["attrs", "fmt_concat"],
    describe="mono::spec_name_for and TypeMono::ensure_instance, how a type argument is spelled inside an instance's name: the piece a (type parameter, type argument) pair contributes "
             "to a function instance's name is literal text around the parameter's name and the argument's COMPACT type text (a spec function derived from the closure's format "
             "string on every run, and the closure's body verified against it); a generic struct / enum instantiated at one argument is `name__<compact text>`; lemmas over the "
             "derived functions: equal pieces / names only for equal type arguments. A spelling that is not injective (go::mangle::encode_ty: `Opt[int32]` and a type named `Opt_int32` coincide) "
             "has no injectivity lemma, so the statement fails for it",
    trusted=["ty_compact is ASSUMED injective (compact_injective: the pretty printer is out of reach); the closure body is extracted as a function of its two parameters; the rest "
             "of spec_name_for (sorting the pairs by parameter name, joining with `__`) and of ensure_instance (iterator chains) is read by pattern only — several type "
             "arguments, and that the joined pieces cannot run into each other, are NOT claimed; any other function applied to the type: UNDECIDED"],
    items=[
        Raw(path="contracts/instname.shim.rs"),
        Raw(path="contracts/fmt.shim.rs"),
        Raw(text=derived, item="crates/compiler/src/mono.rs::spec_name_for pair closure + TypeMono::ensure_instance suffix (pair_text, type_instance_name)"),
        Fn(file=M, name="spec_name_for", rename="pair_text_of", ret="r", pre_rewrites=[(re.compile(r"(?s)\A.*\Z"), to_closure_body, 1)],
           obligation="the closure's text for one pair is the derived pair_text",
           contract="ensures r@ =~= pair_text(k@, *v),"),
    ],
)
