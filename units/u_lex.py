import re
from vlib.gen import Unit, Fn, Adt, Raw
from units.common import TOKENKIND

L = "crates/lexer/src/lib.rs"
LX = "<'a> Lexer<'a>"

UNIT = Unit(
    name="U-LEX",
    properties=["C12"],
    rules=["attrs"],
    describe="lexer::{lex, Lexer::new, Lexer::next, range_from_span} (the wrapper around the logos-generated lexer): the token vector "
             "TILES the text — the first token starts at byte 0, every token starts where the previous one ended, carries exactly the "
             "bytes of its range, and the last one ends at the end of the text; no conversion to TextSize can fail for texts below 4 GiB; "
             "lex terminates",
    trusted=["the logos-generated iterator is assumed to yield non-empty, contiguous tokens of the source it was CREATED over and to stop "
             "exactly at its end (shim LogosIter); Lexer::new must therefore hand it the text itself",
             "`iterator.collect()` into a Vec is rewritten to the loop it stands for (std semantics of Iterator::collect assumed)",
             "text_size::TextSize::try_from / TextRange::new are shims (u32 offsets; new asserts start <= end)"],
    items=list(TOKENKIND) + [
        Raw(path="contracts/lex.shim.rs"),
        Adt(file=L, kw="struct", name="Token", rules=["attrs"]),
        Adt(file=L, kw="struct", name="Lexer", rules=["attrs", "pubfields"], rewrites=[("logos::Lexer<'a, TokenKind>", "LogosIter<'a>")]),
        Fn(file=L, name="new", container="Lexer", as_method_of=LX, ret="r", rewrites=[("TokenKind::lexer(", "LogosIter::lexer(")],
           contract="ensures r.inner.source() == str_bytes(input), r.inner.pos() == 0,",
           obligation="the generated lexer is created over the text itself (all of it, nothing else)"),
        Fn(file=L, name="range_from_span", ret="r",
           rewrites=[("let std::ops::Range { start, end } = span;", "let Span { start, end } = span;"),
                     (re.compile(r"TextSize::try_from\((\w+)\)"), r"text_size_try_from(\1)", 2)],
           contract="requires span.start <= span.end <= u32::MAX,\n        ensures r.start.raw == span.start, r.end.raw == span.end,",
           obligation="both unwrap()s succeed; the range is the span"),
        Fn(file=L, name="next", container="Iterator for Lexer", as_method_of=LX, ret="r",
           rewrites=[(re.compile(r"Self::Item"), "Token::<'a>", "*"), ("-> Option<Token::<'a>>", "-> Option<Token<'a>>")],
           contract="""requires old(self).inner.source().len() <= u32::MAX, 0 <= old(self).inner.pos(),
        ensures final(self).inner.source() == old(self).inner.source(),
            r is None ==> old(self).inner.pos() == old(self).inner.source().len() && final(self).inner.pos() == old(self).inner.pos(),
            r matches Some(t) ==> t.range.start.raw as int == old(self).inner.pos() && t.range.end.raw as int == final(self).inner.pos()
                && old(self).inner.pos() < final(self).inner.pos() <= old(self).inner.source().len()
                && str_bytes(t.text) == old(self).inner.source().subrange(old(self).inner.pos(), final(self).inner.pos()),""",
           obligation="each token carries exactly the bytes and the byte range logos reports for it"),
        Fn(file=L, name="lex", ret="r",
           rewrites=[(re.compile(r"let (?:mut )?lexer = Lexer::new\(input\);"), "let mut lexer = Lexer::new(input);", 1),
                     ("let toks: Vec<Token> = lexer.collect();",
                      "let mut toks: Vec<Token> = Vec::new();\n    loop\n        invariant str_bytes(input).len() <= u32::MAX, lexer.inner.source() == str_bytes(input), 0 <= lexer.inner.pos() <= str_bytes(input).len(), "
                      "tiles(toks@, str_bytes(input), lexer.inner.pos()),\n        ensures tiles(toks@, str_bytes(input), str_bytes(input).len() as int),\n        decreases str_bytes(input).len() - lexer.inner.pos(),\n"
                      "    { match lexer.next() { Some(__t) => { toks.push(__t); } None => { break; } } }")],
           contract="requires str_bytes(input).len() <= u32::MAX,\n        ensures tiles(r@, str_bytes(input), str_bytes(input).len() as int),",
           obligation="the tokens tile the text: contiguous from byte 0 to the end, each carrying exactly its bytes"),
    ],
)
