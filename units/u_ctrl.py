import copy
import re
from vlib.gen import Unit, Fn, Adt, Raw
from units.u_dcefx import UNIT as DCEFX

G = "crates/compiler/src/go/"
types = [it for it in DCEFX.items if isinstance(it, Adt)]

UNIT = Unit(
    name="U-CTRL",
    properties=["C09"],
    rules=[("strip", "goast::"), ("strip", "goty::"), ("strip", "tast::"), ("strip", "anf::")],
    describe="go::compile, control flow: (if) the EIf arms of compile_aexpr_effect / compile_aexpr_assign emit ONE Go `if` whose two blocks hold "
             "exactly the statements of the respective branch — so only the selected branch is evaluated; (while) compile_while: a `while` becomes `var c bool; for { <statements evaluating the condition into c>; "
             "if !c { break }; <statements of the body> }` — the condition's statements sit INSIDE the loop, before the exit test, and the "
             "body after it, so the condition is re-evaluated before every iteration, the body runs only while it holds, nothing of either "
             "is emitted outside the loop",
    trusted=["compile_aexpr_assign / compile_aexpr_effect (how the condition and the body are turned into statements) are stubs with "
             "uninterpreted results; go_ident is an uninterpreted function of the name",
             "PARTIAL: the `panic!` for a non-bool condition (a typing invariant) is not claimed unreachable (assume(false), listed)",
             "Vec::extend(Vec) is a shim (appends)"],
    items=types + [
        Raw(path="contracts/while.shim.rs"),
        Fn(file=G + "compile.rs", name="compile_while", ret="r",
           rewrites=[("if cond_ty != Ty::TBool {", "if !ty_is_tbool(&cond_ty) {"),
                     (re.compile(r"panic!\((?:[^()]|\([^()]*\))*\);?"), "proof { assume(false); }", 1),
                     ("let mut stmts = Vec::new();", "let mut stmts: Vec<Stmt> = Vec::new();"),
                     (re.compile(r"\b(\w+)\.extend\(((?:[^()]|\([^()]*\))*)\);"), r"vec_extend(&mut \1, \2);", "*")],
           ghost=[("stmts.push(Stmt::Loop {", "line-before",
                   "proof { let a = assign_stmts(cond_var@, cond); let cg = go_ident_spec(cond_var@); "
                   "assert(loop_body@.subrange(0, a.len() as int) =~= a); "
                   "assert(loop_body@.subrange(a.len() as int + 1, loop_body@.len() as int) =~= effect_stmts(body)); "
                   "assert(is_break_unless(loop_body@[a.len() as int], cg)); }"),
                  ("    stmts\n}", "line-before", "proof { assert(while_shape(stmts@, cond, body, cond_var@)); }")],
           obligation="condition statements inside the loop before `if !c { break }`, body statements after it; nothing else",
           contract="ensures exists|c: Seq<char>| #[trigger] while_shape(r@, cond, body, c),"),
        Fn(file=G + "compile.rs", name="compile_aexpr_effect", rename="if_effect", ret="r",
           cut_from="let cond_e = compile_imm(goenv, &cond);", cut_before="@block-end", cut_tail="",
           sig="fn if_effect(goenv: &GlobalGoEnv, gensym: &Gensym, cond: ImmExpr, then: Box<AExpr>, else_: Box<AExpr>) -> Vec<Stmt>",
           obligation="an `if` in effect position: each branch's statements are inside its own block of ONE Go if statement",
           contract="ensures if_shape(r@, cond, effect_stmts(*then), effect_stmts(*else_)),"),
        Fn(file=G + "compile.rs", name="compile_aexpr_assign", rename="if_assign", ret="r",
           cut_from="let cond_e = compile_imm(goenv, &cond);", cut_before="@block-end", cut_tail="",
           sig="fn if_assign(goenv: &GlobalGoEnv, gensym: &Gensym, target: &String, cond: ImmExpr, then: Box<AExpr>, else_: Box<AExpr>) -> Vec<Stmt>",
           obligation="an `if` whose value is stored: each branch's statements (incl. the store) are inside its own block of ONE Go if statement",
           contract="ensures if_shape(r@, cond, assign_stmts(target@, *then), assign_stmts(target@, *else_)),"),
    ],
)
