import copy
import re
from vlib.gen import Unit, Fn, Adt, Raw
from units.u_dcefx import UNIT as DCEFX

G = "crates/compiler/src/go/"
types = [it for it in DCEFX.items if isinstance(it, Adt)]

UNIT = Unit(
    name="U-CTRL",
    properties=["C09"],
    rules=[("strip", "goast::"), ("strip", "goty::"), ("strip", "tast::"), ("strip", "anf::")],
    describe="go::compile, control flow: (if) the EIf arms of compile_aexpr_effect / compile_aexpr_assign emit ONE Go `if` whose two blocks hold "
             "exactly the statements of the respective branch — so only the selected branch is evaluated; (while) compile_while: a `while` becomes `var c bool; for { <statements evaluating the condition into c>; "
             "if !c { break }; <statements of the body> }` — the condition's statements sit INSIDE the loop, before the exit test, and the "
             "body after it, so the condition is re-evaluated before every iteration, the body runs only while it holds, nothing of either "
             "is emitted outside the loop; (stores) the leaf arms of compile_aexpr_assign — a plain value, a call, a dynamic call, a `while` in value position — end with an "
             "assignment of the TARGET variable whatever the value is, so a result variable (the loop's condition variable is one, refilled on every iteration) never keeps "
             "the value of an earlier evaluation",
    trusted=["compile_aexpr_assign / compile_aexpr_effect (how the condition and the body are turned into statements) are stubs with "
             "uninterpreted results; go_ident is an uninterpreted function of the name",
             "PARTIAL: the `panic!` for a non-bool condition (a typing invariant) is not claimed unreachable (assume(false), listed)",
             "Vec::extend(Vec) is a shim (appends)"],
    items=types + [
        Raw(path="contracts/while.shim.rs"),
        Raw(text="// ---- the leaf arms of compile_aexpr_assign: the value is STORED in the target (C09: a result variable — in particular a loop's condition variable — never keeps a stale value)\n"
                 "pub struct TastIdent(pub String);\n"
                 "pub enum CExpr { ECall { func: ImmExpr, args: Vec<ImmExpr>, ty: Ty }, EDynCall { trait_name: TastIdent, method_name: TastIdent, receiver: ImmExpr, args: Vec<ImmExpr>, ty: Ty }, Other(u8) }\n"
                 "pub uninterp spec fn cexpr_spec(c: CExpr) -> Expr;\n"
                 "#[verifier::external_body] pub fn compile_cexpr(goenv: &GlobalGoEnv, c: &CExpr) -> (r: Expr) ensures r == cexpr_spec(*c) { unimplemented!() }\n"
                 "#[verifier::external_body] pub fn compile_go(goenv: &GlobalGoEnv, closure: &ImmExpr) -> (r: Stmt) ensures !(r is Assignment) || true { unimplemented!() }\n"
                 "// the statements end with a store into the (mangled) target\n"
                 "pub open spec fn ends_with_store(r: Seq<Stmt>, t: Seq<char>) -> bool { r.len() > 0 && (r.last() matches Stmt::Assignment { name, value: _ } && name@ == go_ident_spec(t)) }\n"),
        Fn(file=G + "compile.rs", name="compile_while", ret="r",
           rewrites=[("if cond_ty != Ty::TBool {", "if !ty_is_tbool(&cond_ty) {"),
                     (re.compile(r"panic!\((?:[^()]|\([^()]*\))*\);?"), "proof { assume(false); }", 1),
                     ("let mut stmts = Vec::new();", "let mut stmts: Vec<Stmt> = Vec::new();"),
                     (re.compile(r"\b(\w+)\.extend\(((?:[^()]|\([^()]*\))*)\);"), r"vec_extend(&mut \1, \2);", "*")],
           ghost=[("stmts.push(Stmt::Loop {", "line-before",
                   "proof { let a = assign_stmts(cond_var@, cond); let cg = go_ident_spec(cond_var@); "
                   "assert(loop_body@.subrange(0, a.len() as int) =~= a); "
                   "assert(loop_body@.subrange(a.len() as int + 1, loop_body@.len() as int) =~= effect_stmts(body)); "
                   "assert(is_break_unless(loop_body@[a.len() as int], cg)); }"),
                  ("    stmts\n}", "line-before", "proof { assert(while_shape(stmts@, cond, body, cond_var@)); }")],
           obligation="condition statements inside the loop before `if !c { break }`, body statements after it; nothing else",
           contract="ensures exists|c: Seq<char>| #[trigger] while_shape(r@, cond, body, c),"),
        Fn(file=G + "compile.rs", name="compile_aexpr_effect", rename="if_effect", ret="r",
           cut_from="let cond_e = compile_imm(goenv, &cond);", cut_before="@block-end", cut_tail="",
           sig="fn if_effect(goenv: &GlobalGoEnv, gensym: &Gensym, cond: ImmExpr, then: Box<AExpr>, else_: Box<AExpr>) -> Vec<Stmt>",
           obligation="an `if` in effect position: each branch's statements are inside its own block of ONE Go if statement",
           contract="ensures if_shape(r@, cond, effect_stmts(*then), effect_stmts(*else_)),"),
        Fn(file=G + "compile.rs", name="compile_aexpr_assign", rename="if_assign", ret="r",
           cut_from="let cond_e = compile_imm(goenv, &cond);", cut_before="@block-end", cut_tail="",
           sig="fn if_assign(goenv: &GlobalGoEnv, gensym: &Gensym, target: &String, cond: ImmExpr, then: Box<AExpr>, else_: Box<AExpr>) -> Vec<Stmt>",
           obligation="an `if` whose value is stored: each branch's statements (incl. the store) are inside its own block of ONE Go if statement",
           contract="ensures if_shape(r@, cond, assign_stmts(target@, *then), assign_stmts(target@, *else_)),"),
        Fn(file=G + "compile.rs", name="compile_aexpr_assign", rename="store_simple", ret="r",
           cut_from=re.compile(r"\| anf::CExpr::EArray \{ \.\. \}\) =>(?= vec!\[goast::Stmt::Assignment \{)"), cut_inside=True,
           cut_before="],\n            anf::CExpr::ECall { func, args, ty } => {", cut_tail="]",
           sig="fn store_simple(goenv: &GlobalGoEnv, target: &String, other: CExpr) -> Vec<Stmt>",
           obligation="a value-producing expression is stored in the target, whatever the value is",
           contract="ensures r@.len() == 1 && (r@[0] matches Stmt::Assignment { name, value } && name@ == go_ident_spec(target@) && value == cexpr_spec(other)),"),
        Fn(file=G + "compile.rs", name="compile_aexpr_assign", rename="store_call", ret="r",
           cut_from="anf::CExpr::ECall { func, args, ty } => {", cut_inside=True, cut_before="@block-end", cut_tail="",
           sig="fn store_call(goenv: &GlobalGoEnv, target: &String, func: ImmExpr, args: Vec<ImmExpr>, ty: Ty) -> Vec<Stmt>",
           obligation="the result of a call is stored in the target", contract="ensures ends_with_store(r@, target@), r@.len() == 1,"),
        Fn(file=G + "compile.rs", name="compile_aexpr_assign", rename="store_dyncall", ret="r",
           cut_from=re.compile(r"anf::CExpr::EDynCall \{\s*trait_name,\s*method_name,\s*receiver,\s*args,\s*ty,\s*\} => \{(?=\s*vec!\[goast::Stmt::Assignment)"), cut_inside=True, cut_before="@block-end", cut_tail="",
           sig="fn store_dyncall(goenv: &GlobalGoEnv, target: &String, trait_name: TastIdent, method_name: TastIdent, receiver: ImmExpr, args: Vec<ImmExpr>, ty: Ty) -> Vec<Stmt>",
           obligation="the result of a dynamic call is stored in the target", contract="ensures ends_with_store(r@, target@), r@.len() == 1,"),
        Fn(file=G + "compile.rs", name="compile_aexpr_assign", rename="store_after_while", ret="r",
           cut_from=re.compile(r"let mut stmts = compile_while\(goenv, gensym, \*cond, \*body\);\s*stmts\.push\(goast::Stmt::Assignment"), cut_before="@block-end", cut_tail="",
           sig="fn store_after_while(goenv: &GlobalGoEnv, gensym: &Gensym, target: &String, cond: Box<AExpr>, body: Box<AExpr>) -> Vec<Stmt>",
           obligation="a `while` in value position stores the unit value in the target after the loop", contract="ensures ends_with_store(r@, target@),"),
    ],
)
