"""U-LOWERNAMES: ast::lower — the name of an item / variant / parameter / trait method (fragments: the head of each lowering function) — C20."""
import re
from vlib.gen import Unit, Fn, Raw

LW = "crates/ast/src/lower.rs"
RW = [(re.compile(r"\bcst::\w+"), "Node", "*"), (re.compile(r"\bast::"), "", "*")]


def head(fn, tok, before, extra_cut=None):
    has = f"node.has_{tok}()"
    return Fn(file=LW, name=fn, rename=f"{fn}_name", ret="r", cut_before=before, cut_tail="    Some(name)",
              sig=None, rewrites=RW + [(re.compile(r"\) -> Option<[^{]*\{", re.S), ") -> Option<String> {", 1)],
              obligation=f"never panics: a node without its name token (the user has not typed the name yet) gives None and a diagnostic, not an unwrap of None",
              contract=f"ensures !{has} ==> r is None,")


UNIT = Unit(
    name="U-LOWERNAMES",
    properties=["C20"],
    rules=["attrs"],
    describe="ast::lower, the first statements of lower_fn / lower_enum / lower_trait / lower_trait_method / lower_variant / lower_param / lower_struct: the name token of the "
             "CST node is read without unwrapping it — while `fn `, `enum `, `trait ` .. is being typed the node has no name, and the editor queries lower such trees "
             "(the command line stops at the parse error); a missing name is a diagnostic and None",
    trusted=["FRAGMENTS: each function up to the statement after the name; one shim type Node stands for the CST node kinds (any child may be missing after a parse error)",
             "Option::unwrap carries vstd's precondition is_some(): that is the no-panic obligation the pre-fix code fails",
             "NOT covered: the unwraps that were inside closures (generic parameters) and in lower_pat's VarPat arm, repaired by the same commit"],
    items=[
        Raw(path="contracts/lowernames.shim.rs"),
        head("lower_enum", "uident", "let generics: Vec<ast::AstIdent> = node"),
        head("lower_trait", "uident", "let methods = if let Some(list) = node.trait_method_list() {"),
        head("lower_trait_method", "lident", "let params = if let Some(list) = node.type_list() {"),
        head("lower_variant", "uident", "let typs = match node.type_list() {"),
        head("lower_fn", "lident", "let (generics, generic_bounds): (Vec<ast::AstIdent>, Vec<(ast::AstIdent, Vec<ast::Path>)>) ="),
        head("lower_param", "lident", "let ty = match node.ty().and_then(|ty| lower_ty(ctx, ty)) {"),
    ],
)
