"""U-PATLIT: the literal-pattern checkers of typer::check (check_pat_unit / _bool / _int / _typed_int / _string), whole functions."""
import re
from vlib.gen import Unit, Fn, Adt, Raw

C = "crates/compiler/src/typer/check.rs"
VC = (re.compile(r"\.clone\(\)"), ".vclone()", "*")
UNWRAP = (re.compile(r"let prim = self\s*\.parse_integer_literal_with_ty\(diagnostics, value, &?(\w+)\)\s*\.unwrap_or_else\(\|\| Prim::zero_for_int_ty\(&?\w+\)\);"),
          r"let prim = prim_or_zero(self.parse_integer_literal_with_ty(diagnostics, value, &\1), &\1);", "*")

UNIT = Unit(
    name="U-PATLIT",
    properties=["C03", "C04"],
    rules=["attrs", ("strip", "tast::")],
    describe="typer::check, literal patterns: checking a unit / boolean / integer / string literal pattern against a scrutinee of type T records exactly "
             "the equation `<the literal's type> = T`, so a literal pattern of another type than the scrutinee is a TYPE ERROR — it is not "
             "accepted and handed to the match compiler (which panics on it: `match (n: int32) { true => .. }`)",
    trusted=["the constraint list of the typer is a shim (push_constraint appends); parse_integer_literal_with_ty is verified in U-INTLIT and appears as a "
             "stub that leaves the constraints alone; Prim::boolean / Prim::string / zero_for_int_ty / integer_literal_target are stubs",
             "that the solver reports an unsatisfied equation as an error is the unifier's job (U-OCCURS covers its occurs check only)"],
    items=[
        Adt(file="crates/compiler/src/tast.rs", kw="enum", name="Ty", rules=["attrs"]),
        Adt(file="crates/compiler/src/common.rs", kw="enum", name="Prim", rules=["attrs"]),
        Raw(text="#[verifier::external_body] pub struct Constructor { _p: u64 }\n#[verifier::external_body] pub struct MySyntaxNodePtr { _p: u64 }\n"),
        Adt(file="crates/compiler/src/tast.rs", kw="struct", name="TastIdent", rules=["attrs"]),
        Adt(file="crates/compiler/src/tast.rs", kw="enum", name="Pat", rules=["attrs"]),
        Raw(path="contracts/patlit.shim.rs"),
        Fn(file=C, name="check_pat_unit", container="Typer", ret="r", rewrites=[VC],
           obligation="a unit pattern: the scrutinee's type must be unit",
           contract="ensures equates(old(self).constraints(), final(self).constraints(), Ty::TUnit, *ty), r matches Pat::PPrim { value, ty: t } && value is Unit && t is TUnit,"),
        Fn(file=C, name="check_pat_bool", container="Typer", ret="r", rewrites=[VC],
           obligation="a boolean pattern: the scrutinee's type must be bool; the literal keeps its value",
           contract="ensures equates(old(self).constraints(), final(self).constraints(), Ty::TBool, *ty), r matches Pat::PPrim { value: p, ty: t } && p == (Prim::Bool { value }) && t is TBool,"),
        Fn(file=C, name="check_pat_string", container="Typer", ret="r", rewrites=[VC, ("value.to_owned()", "string_to_owned(value)")],
           obligation="a string pattern: the scrutinee's type must be string",
           contract="ensures equates(old(self).constraints(), final(self).constraints(), Ty::TString, *ty), r matches Pat::PPrim { value: p, ty: t } && t is TString,"),
        Fn(file=C, name="check_pat_typed_int", container="Typer", ret="r", rewrites=[VC], pre_rewrites=[UNWRAP],
           obligation="a suffixed integer pattern: the scrutinee's type must be the suffix's type",
           contract="ensures equates(old(self).constraints(), final(self).constraints(), *literal_ty, *expected_ty), r matches Pat::PPrim { value: p, ty: t } && t == *literal_ty,"),
        Fn(file=C, name="check_pat_int", container="Typer", ret="r", rewrites=[VC, ("integer_literal_target(ty).unwrap_or(Ty::TInt32)", "ty_or_int32(integer_literal_target(ty))")], pre_rewrites=[UNWRAP],
           obligation="an unsuffixed integer pattern: it takes an integer type (the scrutinee's if that is one, else int32) that must equal the scrutinee's type",
           contract="ensures equates(old(self).constraints(), final(self).constraints(), (if int_target(*ty) is Some { int_target(*ty)->0 } else { Ty::TInt32 }), *ty), r matches Pat::PPrim { value: p, ty: t } && t == *ty,"),
    ],
)
