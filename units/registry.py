"""property -> unit modules.  (module, tier) ; tier 'quick' units also run in thorough."""
import importlib

PROPS = {
    "C14": [("u_chkbuild", "quick"), ("u_corefloat", "quick"), ("u_loadpkg", "quick"), ("u_genphase", "quick"), ("u_depenv", "quick"), ("u_deprec", "quick"), ("u_stagegate", "quick"), ("u_sepdiag", "quick"), ("u_exports", "quick")],
    "C20": [("u_querytxt", "quick"), ("u_lowernames", "quick"), ("u_constrname", "quick"), ("u_qindex", "quick"), ("u_normty", "quick"), ("u_calleety", "quick"), ("u_complmeth", "quick"), ("u_qderive", "quick"), ("u_ccvariants", "quick")],
    "C18": [("u_derive", "quick")],
    "C02": [("u_gopkgs", "quick"), ("u_importname", "quick"), ("u_gotypedoc", "quick"), ("u_gotype", "quick"), ("u_envfield", "quick"), ("u_rttypes", "quick"), ("u_swbind", "quick"), ("u_dynvt", "quick"), ("u_dceblk", "quick"), ("u_dcelive", "quick"), ("u_varname", "quick"), ("u_arrset", "quick"), ("u_capt", "quick"), ("u_fieldnames", "quick"), ("u_posfields", "quick"), ("u_dynimpl", "quick"), ("u_dynorigin", "quick"), ("u_entryname", "quick"), ("u_fnshape", "quick"), ("u_imm", "quick"), ("u_dynreq", "quick"), ("u_goops", "quick"), ("u_deadfn", "quick"), ("u_exprreads", "quick"), ("u_encodety", "quick"), ("u_refname", "quick"), ("u_dynnames", "quick")],
    "C13": [("u_discover", "quick"), ("u_topo", "quick"), ("u_diagord", "quick"), ("u_link", "quick"), ("u_loadpkg", "quick"), ("u_goimports", "quick"), ("u_hirorder", "quick"), ("u_uniqenum", "quick"), ("u_branchvar", "quick")],
    "C08": [("u_capt", "quick"), ("u_closenv", "quick"), ("u_liftty", "quick"), ("u_envname", "quick"), ("u_closty", "quick"), ("u_scopestack", "quick")],
    "C03": [("u_msubst", "quick"), ("u_munify", "quick"), ("u_tmono", "quick"), ("u_patlit", "quick"), ("u_numarms", "quick"), ("u_annot", "quick"), ("u_inst", "quick"), ("u_capt", "quick"), ("u_arrset", "quick"), ("u_fieldinst", "quick"), ("u_optypes", "quick"), ("u_mcall", "quick"), ("u_validty", "quick"), ("u_selfty", "quick"), ("u_concrete", "quick"), ("u_dynvis", "quick"), ("u_localcall", "quick"), ("u_inferctrl", "quick"), ("u_tunify", "quick"), ("u_substreport", "quick"), ("u_solveloop", "quick"), ("u_normshape", "quick"), ("u_decomp", "quick"), ("u_cmfields", "quick"), ("u_fnbody", "quick"), ("u_ctorty", "quick")],
    "C05": [("u_scope", "quick"), ("u_inferctrl", "quick"), ("u_anfren", "quick"), ("u_tyenv", "quick"), ("u_localalloc", "quick")],
    "C06": [("u_rows", "quick"), ("u_switch", "quick"), ("u_matchentry", "quick"), ("u_structpat", "quick"), ("u_rowdispatch", "quick"), ("u_intcase", "quick"), ("u_variantty", "quick"), ("u_dceblk", "quick"), ("u_decomp", "quick"), ("u_cmfields", "quick"), ("u_ctorty", "quick")],
    "C19": [("u_goident", "quick"), ("u_reserved", "quick"), ("u_gensym", "quick"), ("u_varname", "quick"), ("u_genphase", "quick"), ("u_entryname", "quick"), ("u_implname", "quick"), ("u_envfield", "quick"), ("u_localname", "quick"), ("u_inhname", "quick"), ("u_gotypename", "quick"), ("u_instname", "quick"), ("u_anfren", "quick"), ("u_localalloc", "quick"), ("u_encodety", "quick"), ("u_refname", "quick"), ("u_dynnames", "quick"), ("u_envname", "quick"), ("u_tuplehelper", "quick")],
    "C17": [("u_dynvis", "quick"), ("u_ceffect", "quick"), ("u_block", "quick"), ("u_inherent", "quick"), ("u_dynpayload", "quick"), ("u_dynimpl", "quick"), ("u_dynorigin", "quick"), ("u_dyngate", "quick"), ("u_traitname", "quick"), ("u_implname", "quick"), ("u_selfty", "quick"), ("u_concrete", "quick"), ("u_mtraitcall", "quick"), ("u_overload", "quick"), ("u_boundmeth", "quick"), ("u_dynreq", "quick"), ("u_inhname", "quick"), ("u_coerce", "quick"), ("u_fnbody", "quick"), ("u_traitlookup", "quick")],
    "C16": [("u_overload", "quick"), ("u_pkgallow", "quick"), ("u_orphan", "quick"), ("u_topo", "quick"), ("u_depenv", "quick"), ("u_cohere", "quick"), ("u_loadpkg", "quick"), ("u_scope", "quick"), ("u_deprec", "quick"), ("u_link", "quick"), ("u_tygate", "quick"), ("u_lowertype", "quick"), ("u_pathgate", "quick")],
    "C10": [("u_intlit", "quick"), ("u_dcefx", "quick"), ("u_tastlit", "quick"), ("u_golit", "quick"), ("u_cexpr", "quick"), ("u_numarms", "quick"), ("u_fmtverb", "quick"), ("u_corefloat", "quick"), ("u_floatlit", "quick"), ("u_intcase", "quick"), ("u_gotype", "quick"), ("u_imm", "quick"), ("u_goops", "quick"), ("u_dynpayload", "quick")],
    "C07": [("u_munify", "quick"), ("u_msubst", "quick"), ("u_mcall", "quick"), ("u_tmono", "quick"), ("u_minst", "quick"), ("u_fieldinst", "quick"), ("u_mtraitcall", "quick"), ("u_mwork", "quick"), ("u_instname", "quick"), ("u_ctorty", "quick")],
    "C15": [("u_art", "quick"), ("u_link", "quick"), ("u_deprec", "quick"), ("u_clilink", "quick")],
    "C09": [("u_dcefx", "quick"), ("u_ceffect", "quick"), ("u_dceblk", "quick"), ("u_ctrl", "quick"), ("u_letlow", "quick"), ("u_cexpr", "quick"), ("u_binop", "quick"), ("u_block", "quick"), ("u_matchentry", "quick"), ("u_anf", "quick"), ("u_anfmatch", "quick"), ("u_imm", "quick"), ("u_goops", "quick")],
    "C11": [("u_bp", "quick"), ("u_pratt", "quick"), ("u_strlit", "quick"), ("u_calllower", "quick"), ("u_tylower", "quick"), ("u_floatlit", "quick"), ("u_binlower", "quick")],
    "C04": [("u_mls", "quick"), ("u_input", "quick"), ("u_pcore", "quick"), ("u_tree", "quick"), ("u_kind", "quick"), ("u_grammar", "quick"), ("u_parse", "quick"), ("u_occurs", "quick"), ("u_tmono", "quick"), ("u_patlit", "quick"), ("u_annot", "quick"), ("u_dynvis", "quick"), ("u_link", "quick"), ("u_constrname", "quick"), ("u_placeholder", "quick"), ("u_report", "quick"), ("u_validty", "quick"), ("u_stagegate", "quick"), ("u_letlow", "quick"), ("u_munify", "quick")],
    "C12": [("u_lex", "quick"), ("u_mls", "quick"), ("u_input", "quick"), ("u_pcore", "quick"), ("u_tree", "quick"), ("u_kind", "quick"), ("u_grammar", "quick"), ("u_parse", "quick"), ("u_loadpkg", "quick")],
}


def units_for(prop, tier):
    return [m for (m, t) in PROPS[prop] if t == "quick" or tier == "thorough"]


def load(module):
    return importlib.import_module("units." + module).UNIT
