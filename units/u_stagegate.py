"""U-STAGEGATE: pipeline::compile, the two error gates (fragments) — C04, C14."""
import re
from vlib.gen import Unit, Fn, Adt, Raw

P = "crates/compiler/src/pipeline/pipeline.rs"

UNIT = Unit(
    name="U-STAGEGATE",
    properties=["C04", "C14"],
    rules=["attrs"],
    describe="pipeline::compile (whole-program driver), its two error gates (fragments): after type checking, error diagnostics end the compilation with Err(Typer) before the match "
             "compiler runs; after Core generation, error diagnostics (a non-exhaustive integer match, a refutable pattern ..) end it with Err(Compile) before monomorphisation, "
             "lambda lifting, A-normalisation and Go generation run — the back end is entered only on a program for which no stage reported an error (the same rule "
             "separate::build_package follows, U-CHKBUILD)",
    trusted=["FRAGMENTS typer_gate (from `let tast = full_tast;` to `let gensym`) and core_gate (from `let core = link_packages(..)` to the construction of the result): everything "
             "else in compile() — parsing, package loading, the per-package loop that calls the match compiler — is dropped; FRAGMENT link_gate (separate::link_cores from its error test to the result; the concatenation of the Core files of the packages is replaced by the stub concat_cores: NOT verified); the four back-end calls mono / lambda_lift / anf_file / "
             "go_file are read as ONE stub `backend` whose precondition is `no error so far` (site rewrite of the four `let` statements)",
             "Diagnostics is opaque (uninterpreted errors()); CompilationError is the real enum"],
    items=[
        Raw(path="contracts/stagegate.shim.rs"),
        Adt(file=P, kw="enum", name="CompilationError", rules=["attrs"]),
        Fn(file=P, name="compile", rename="typer_gate", ret="r",
           cut_from=re.compile(r"if diagnostics\.has_errors\(\) \{\s*return Err\(CompilationError::Typer \{\s*diagnostics: diagnostics\.clone\(\),\s*\}\);\s*\}\s*let tast = full_tast;|let tast = full_tast;"), cut_before="let gensym = Gensym::new();", cut_tail="    Ok(())",
           sig="fn typer_gate(diagnostics: Diagnostics, full_tast: CoreFile) -> Result<(), CompilationError>",
           obligation="type errors end the compilation with Err(Typer) before Core generation",
           contract="ensures r is Ok ==> !diagnostics.errors(), r is Err ==> r matches Err(CompilationError::Typer { .. }),"),
        Fn(file=P, name="compile", rename="core_gate", ret="r",
           cut_from=re.compile(r"if diagnostics\.has_errors\(\) \{\s*return Err\(CompilationError::Compile \{ diagnostics \}\);\s*\}\s*let core = link_packages\(package_cores\);|let core = link_packages\(package_cores\);"), cut_before="Ok(Compilation {", cut_tail="    Ok(__out)",
           sig="fn core_gate(diagnostics: Diagnostics, package_cores: Vec<CoreFile>, genv: GlobalTypeEnv, gensym: Gensym) -> Result<BackendOut, CompilationError>",
           pre_rewrites=[(re.compile(r"let \(mono, monoenv\) = mono::mono\(genv\.clone\(\), core\.clone\(\)\);\s*let \(lifted_core, liftenv\) = lift::lambda_lift\([^;]*\);\s*"
                                     r"let \(anf, anfenv\) = anf::anf_file\([^;]*\);\s*let \(go, goenv\) = go::compile::go_file\([^;]*\);"),
                          "let __out = backend(Ghost(diagnostics.errors()), &genv, &gensym, &core);", 1)],
           obligation="errors of Core generation end the compilation with Err(Compile) before the back end runs",
           contract="ensures r is Ok ==> !diagnostics.errors(), r is Err ==> r matches Err(CompilationError::Compile { .. }),"),
        Fn(file="crates/compiler/src/pipeline/separate.rs", name="link_cores", rename="link_gate", ret="r",
           cut_from="let order = topo_sort(&by_name)?;", cut_before="Ok(LinkOutput {", cut_tail="    Ok(__out)",
           sig="fn link_gate(by_name: CoreMap) -> Result<BackendOut, CompilationError>",
           pre_rewrites=[("let order = topo_sort(&by_name)?;", "let order = match topo_sort(&by_name) { Ok(o) => o, Err(e) => { return Err(e); } };", 1),
                         # the loop that merges the packages' exports and reports duplicate trait implementations (U-COHERE): its result is the environment and the diagnostics
                         (re.compile(r"let mut genv = GlobalTypeEnv::new\(\);\s*let mut diagnostics = Diagnostics::new\(\);\s*for pkg in order\.iter\(\) \{.*?\n    \}\n(?=\s*if diagnostics\.has_errors|\s*let mut linked)", re.S),
                          "let (genv, diagnostics) = merge_exports(&by_name, &order);\n", 1),
                         (re.compile(r"let mut linked = crate::core::File \{.*?\n    \}\n(?=\s*let gensym)", re.S), "let linked = concat_cores(&by_name, order);\n", 1),
                         (re.compile(r"let gensym = Gensym::new\(\);\s*let \(mono, monoenv\) = mono::mono\(genv\.clone\(\), linked\.clone\(\)\);\s*let \(lifted, liftenv\) = lift::lambda_lift\([^;]*\);\s*"
                                     r"let \(anf, anfenv\) = crate::anf::anf_file\([^;]*\);\s*let \(go, goenv\) = go::compile::go_file\([^;]*\);"),
                          "let gensym = gensym_new(); let __out = backend(Ghost(diagnostics.errors()), &genv, &gensym, &linked);", 1)],
           obligation="`link`: a duplicate trait implementation across the linked packages ends the link with an error before the back end runs",
           contract=""),
    ],
)
