"""U-CONCRETE: typer::unify::Typer::solve::is_concrete (nested fn, whole) — C17, C03."""
import re
from vlib.gen import Unit, Fn, Adt, Raw

U = "crates/compiler/src/typer/unify.rs"


def loops(k, header, kw):
    mt = re.search(r"while (__j(\d+)) < (\w+)\.len\(\)", header)
    if not mt:
        return None
    i, n, recv = mt.group(1), mt.group(2), mt.group(3)
    # `all`: the loop leaves early with false at the first element that is not concrete
    return (f"invariant_except_break __q{n}, !any_tvar({recv}@, {i} as int),\n invariant {i} <= {recv}.len(),\n"
            f" ensures __q{n} == !any_tvar({recv}@, {recv}@.len() as int),\n decreases {recv}.len() - {i},")


def at_break(mt):
    """a proof step where an `all` loop takes its early exit: the element just found makes the whole list non-concrete"""
    el, recv, i, n, cond, r = mt.groups()
    return (f"proof {{ assert(any_tvar({recv}@, {i} as int + 1) == (any_tvar({recv}@, {i} as int) || has_tvar({recv}@[{i} as int]))); }} "
            f"let {el} = &{recv}[{i}]; if !({cond}) {{ {r} = false; proof {{ any_tvar_at({recv}@, {recv}@.len() as int, {i} as int); }} break; }}")


UNIT = Unit(
    name="U-CONCRETE",
    properties=["C17", "C03"],
    rules=["attrs", ("strip", "tast::"), "iter_all", "box_as_ref"],
    describe="typer::unify::Typer::solve, nested function is_concrete (whole, recursive): a type counts as concrete exactly when NO inference variable occurs in it at any depth (tuple "
             "elements, type arguments and head, array / Vec / Ref elements, a function type's parameters and result) — the test that decides when an overloaded (trait) call is "
             "resolved to its one implementation: resolved too early (a variable still inside), the impl is chosen for a type that later turns out different",
    trusted=["`X.iter().all(F)` is an index loop with early exit (rule iter_all); a type parameter counts as concrete (as in the code: it is rigid)"],
    items=[
        Adt(file="crates/compiler/src/tast.rs", kw="enum", name="Ty", rules=["attrs"]),
        Raw(path="contracts/concrete.shim.rs"),
        Raw(text="pub proof fn any_tvar_at(ts: Seq<Ty>, n: int, j: int) requires 0 <= j < n <= ts.len(), has_tvar(ts[j]) ensures any_tvar(ts, n) decreases n { if j < n - 1 { any_tvar_at(ts, n - 1, j); } }\n"),
        Raw(path="contracts/box.shim.rs"),
        Fn(file=U, name="is_concrete", container="@nested", drop_self_impl=True, ret="r", attrs="#[verifier::loop_isolation(false)]\n#[verifier::allow_complex_invariants]",
           rewrites=[(re.compile(r"let (\w+) = &(\w+)\[(__j(\d+))\]; if !\((.*?)\) \{ (__q\4) = false; break; \}"), at_break, "*")],
           loop_fn=loops,
           obligation="concrete <=> no inference variable anywhere in the type",
           contract="ensures r == !has_tvar(*norm_ty),\n decreases *norm_ty,"),
    ],
)
