from vlib.gen import Unit, Fn, Adt, Raw
from units.common import TOKENKIND, TOKEN, IS_TRIVIA, PAR

F = PAR + "input.rs"
SAME = "final(self).tokens == old(self).tokens"

INPUT_ITEMS = [
    Adt(file=F, kw="struct", name="Input"),
    Raw(path="contracts/input.spec.rs"),
    Fn(file=F, name="peek_raw_kind", container="Input", as_method_of="<'t> Input<'t>", ret="r",
       rewrites=[("self.tokens.get(self.cursor).map_or(TokenKind::Eof, |it| it.kind)",
                  "match self.tokens.get(self.cursor) { Some(it) => it.kind, None => TokenKind::Eof }")],
       contract="ensures r == kind_at(self.tokens@, self.cursor as int),"),
    Fn(file=F, name="at_trivia", container="Input", as_method_of="<'t> Input<'t>", ret="r",
       contract="ensures r == (self.cursor < self.tokens.len() && is_trivia_k(self.tokens@[self.cursor as int].kind)),"),
    Fn(file=F, name="eat_trivia", container="Input", as_method_of="<'t> Input<'t>",
       obligation="cursor moves to the first non-trivia token; tokens untouched; terminates",
       contract=f"""requires old(self).wf(),
          ensures {SAME}, final(self).wf(), final(self).cursor == skip_trivia(old(self).tokens@, old(self).cursor as int),""",
       loops={0: """invariant self.tokens == old(self).tokens, self.wf(),
                 skip_trivia(self.tokens@, self.cursor as int) == skip_trivia(old(self).tokens@, old(self).cursor as int),
                 decreases self.tokens.len() - self.cursor,"""}),
    Fn(file=F, name="eof", container="Input", as_method_of="<'t> Input<'t>", ret="r",
       contract=f"""requires old(self).wf(),
          ensures {SAME}, final(self).wf(), final(self).cursor == skip_trivia(old(self).tokens@, old(self).cursor as int),
                  r == (final(self).cursor == final(self).tokens.len()),"""),
    Fn(file=F, name="skip", container="Input", as_method_of="<'t> Input<'t>",
       obligation="skip consumes exactly one non-trivia token iff one exists",
       contract=f"""requires old(self).wf(),
          ensures {SAME}, final(self).wf(),
                  ({{ let c = skip_trivia(old(self).tokens@, old(self).cursor as int);
                     final(self).cursor == if c < old(self).tokens.len() {{ c + 1 }} else {{ c }} }}),""",
       ghost=[("@entry", "", "proof { lemma_skip_trivia_bounds(self.tokens@, self.cursor as int); }")]),
    Fn(file=F, name="peek", container="Input", as_method_of="<'t> Input<'t>", ret="r",
       obligation="peek == kind of the first non-trivia token at/after the cursor, else Eof",
       contract=f"""requires old(self).wf(),
          ensures {SAME}, final(self).wf(), final(self).cursor == skip_trivia(old(self).tokens@, old(self).cursor as int),
                  r == kind_at(final(self).tokens@, final(self).cursor as int),
                  r == nth_kind(old(self).tokens@, old(self).cursor as int, 0),""",
       ghost=[("@entry", "", "proof { lemma_nth0(self.tokens@, self.cursor as int); }")]),
    Fn(file=F, name="nth", container="Input", as_method_of="<'t> Input<'t>", ret="r",
       obligation="nth(n) == kind of the n-th non-trivia token at/after the cursor, else Eof; terminates",
       contract="""requires self.wf(),
          ensures r == nth_kind(self.tokens@, self.cursor as int, n as int),""",
       loops={0: """invariant self.cursor <= idx <= self.tokens.len(),
                 nth_kind(self.tokens@, idx as int, remaining as int) == nth_kind(self.tokens@, self.cursor as int, n as int),
                 decreases self.tokens.len() - idx,"""}),
    Fn(file=F, name="current_range", container="Input", as_method_of="<'t> Input<'t>", ret="r",
       rewrites=[("self.tokens.get(self.cursor).map(|token| token.range)",
                  "match self.tokens.get(self.cursor) { Some(token) => Some(token.range), None => None }")],
       contract="ensures r == (if self.cursor < self.tokens.len() { Some(self.tokens@[self.cursor as int].range) } else { None }),"),
]

LEMMA_NTH0 = Raw(text="""
pub proof fn lemma_nth0(ts: Seq<Token>, c: int)
    requires 0 <= c <= ts.len(),
    ensures nth_kind(ts, c, 0) == kind_at(ts, skip_trivia(ts, c)),
    decreases ts.len() - c,
{
    if c < ts.len() && is_trivia_k(ts[c].kind) { lemma_nth0(ts, c + 1); }
}
""")

UNIT = Unit(
    name="U-INPUT",
    properties=["C04", "C12"],
    describe="parser::input::Input: cursor stays in range, trivia skipping, peek/nth/skip against spec functions over the token vector; loops terminate",
    items=[Raw(path="contracts/parser.shim.rs")] + TOKENKIND + IS_TRIVIA + TOKEN + INPUT_ITEMS[:2] + [LEMMA_NTH0] + INPUT_ITEMS[2:],
)
