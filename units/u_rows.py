import re
from vlib.gen import Unit, Fn, Adt, Raw

CM = "crates/compiler/src/compile_match.rs"
T = "crates/compiler/src/tast.rs"

V = "bvar.name@"
STEP = "ctor_split(rows0, n_b + 1, bvar.name@, c, cases0[c].vars@, (#[trigger] cases@[c]).rows@)"
H1 = ("proof { reveal_with_fuel(ctor_split, 2); "
      "let kk = choose|k: int| col_of(r0, bvar.name@, k) && col_g == r0.columns@[k] && base == r0.columns@.remove(k); "
      "assert forall|c: int| 0 <= c < cases@.len() implies " + STEP + " by { "
      "if c == idx as int { let o = cases@[c].rows@.last(); assert(cases@[c].rows@.drop_last() =~= cs_b[c].rows@); assert(col_of(r0, bvar.name@, kk)); "
      "assert(pat_case(r0.columns@[kk].pat) == Some(c)); "
      "assert(o.columns@.subrange(0, r0.columns@.len() - 1) =~= r0.columns@.remove(kk)); "
      "let cs = o.columns@.subrange(r0.columns@.len() - 1, o.columns@.len() as int); "
      "assert(base.len() == r0.columns@.len() - 1); assert(o.columns@.len() == base.len() + __zi); "
      "assert(r0.columns@[kk].pat->PConstr_args@ == args0); assert(cases0[c].vars@ == cs_b[c].vars@); "
      "assert(__zi as int == (if cases0[c].vars@.len() <= args0.len() { cases0[c].vars@.len() as int } else { args0.len() as int })); "
      "assert forall|i: int| 0 <= i < cs.len() implies (#[trigger] cs[i]).var@ == cases0[c].vars@[i].name@ && cs[i].pat == args0[i] by { assert(cs[i] == o.columns@[base.len() + i]); } "
      "assert(sub_cols(cs, cases0[c].vars@, r0.columns@[kk].pat->PConstr_args@)); "
      "assert(ctor_img(r0, bvar.name@, c, cases0[c].vars@, seq![o])); } "
      "else { assert(cases@[c].rows@ == cs_b[c].rows@); assert(col_of(r0, bvar.name@, kk)); "
      "assert(ctor_img(r0, bvar.name@, c, cases0[c].vars@, Seq::<Row>::empty())); } } }")
H2 = ("proof { reveal_with_fuel(ctor_split, 2); let r0 = rows0[n_b]; "
      "assert forall|c: int| 0 <= c < cases@.len() implies " + STEP + " by { "
      "assert(cases@[c].rows@.drop_last() =~= cs_b[c].rows@); assert(no_col(r0, bvar.name@)); "
      "assert(ctor_img(r0, bvar.name@, c, cases0[c].vars@, seq![cases@[c].rows@.last()])); } }")


class LitSplit:
    """invariant and proof hints for the row-splitting loop of compile_string_case / compile_int_case_impl
    (kf: the spec function reading a literal's key; keyv: the view of the exec `key`; kt: the spec key type)"""

    def __init__(self, kf, keyv, kt):
        self.kf, self.keyv, self.kt = kf, keyv, kt
        v, n = V, "rows0.len() - __rv@.len()"
        self.inv = (f"invariant __rv@.len() <= rows0.len(), __rv@ == rows0.subrange(rows0.len() - __rv@.len(), rows0.len() as int), rows0 == rows@,\n"
                    f"  forall|i: int| 0 <= i < value_rows.entries().len() ==> lit_split(rows0, {n}, {v}, {kf}, Some((#[trigger] value_rows.entries()[i]).0), value_rows.entries()[i].1),\n"
                    f"  lit_split(rows0, {n}, {v}, {kf}, None::<{kt}>, fallback_rows@), lit_split(rows0, {n}, {v}, {kf}, None::<{kt}>, default_rows@),\n"
                    f"  forall|j: int, s: {kt}| 0 <= j < {n} && #[trigger] tests_lit(rows0[j], {v}, {kf}, s) ==> value_rows.has(s),\n"
                    "decreases __rv@.len(),")
        self.body = ("let ghost n_b = rows0.len() - __rv@.len(); let ghost es_b = value_rows.entries(); let ghost fb_b = fallback_rows@; "
                     "let ghost df_b = default_rows@; let ghost vr_b = value_rows;")
        self.row = "let ghost r0 = rows0[n_b]; proof { reveal_with_fuel(lit_split, 2); }"
        self.col = (f"let ghost col_g = col; let ghost kk = choose|k: int| col_of(r0, {v}, k) && col_g == r0.columns@[k] && row.columns@ == r0.columns@.remove(k);\n"
                    f"proof {{ assert(col_of(r0, {v}, kk)); }}")
        self.key = f"proof {{ assert(lit_at(r0, kk, {kf}) == Some({keyv})); assert(tests_lit(r0, {v}, {kf}, {keyv})); }}"
        self.new = (f"proof {{ assert forall|j: int| 0 <= j < n_b implies !tests_lit(#[trigger] rows0[j], {v}, {kf}, {keyv}) by {{ if tests_lit(rows0[j], {v}, {kf}, {keyv}) {{ assert(vr_b.has({keyv})); }} }}\n"
                    f"  if lit_split(rows0, n_b as int, {v}, {kf}, None::<{kt}>, __init@) {{ lemma_split_unseen(rows0, n_b as int, {v}, {kf}, {keyv}, __init@); }} }}")
        self.pre = (f"proof {{ if !vr_b.has({keyv}) {{ assert(value_rows.entries()[es_b.len() as int].0 == {keyv}); }} assert(value_rows.has({keyv})); }}\n"
                    "let ghost es_m = value_rows.entries(); let ghost vr_m = value_rows;")
        self.post = f"""proof {{
    assert(lit_img(r0, {v}, {kf}, None::<{kt}>, Seq::<Row>::empty()));
    assert forall|i: int| 0 <= i < value_rows.entries().len() implies lit_split(rows0, n_b + 1, {v}, {kf}, Some((#[trigger] value_rows.entries()[i]).0), value_rows.entries()[i].1) by {{
        let e = value_rows.entries()[i];
        assert(lit_split(rows0, n_b as int, {v}, {kf}, Some(es_m[i].0), es_m[i].1));
        if e.0 == {keyv} {{ assert(e.1.drop_last() =~= es_m[i].1); assert(lit_img(r0, {v}, {kf}, Some({keyv}), seq![e.1.last()])); }}
        else {{ assert(e.1 == es_m[i].1); assert(lit_img(r0, {v}, {kf}, Some(e.0), Seq::<Row>::empty())); }}
    }}
    assert forall|j: int, s: {kt}| 0 <= j < n_b + 1 && #[trigger] tests_lit(rows0[j], {v}, {kf}, s) implies value_rows.has(s) by {{
        if j == n_b {{ let k2 = choose|k: int| #[trigger] col_of(r0, {v}, k) && lit_at(r0, k, {kf}) == Some(s); assert(k2 == kk); assert(s == {keyv}); }}
        else {{ assert(vr_b.has(s)); let w0 = choose|i: int| 0 <= i < es_b.len() && (#[trigger] es_b[i]).0 == s; assert(es_m[w0].0 == s); }}
        assert(vr_m.has(s));
        let w = choose|i: int| 0 <= i < es_m.len() && (#[trigger] es_m[i]).0 == s; assert(value_rows.entries()[w].0 == s);
    }}
}}"""

    def loop(self, header):
        return self.inv if "__rv.len()" in header else None

    def all(self, nolit):
        # an unconstrained row (wildcard test / no test) was appended to every sub-matrix
        v, kf, kt = V, self.kf, self.kt
        return f"""proof {{
    assert forall|i: int| 0 <= i < value_rows.entries().len() implies lit_split(rows0, n_b + 1, {v}, {kf}, Some((#[trigger] value_rows.entries()[i]).0), value_rows.entries()[i].1) by {{
        let e = value_rows.entries()[i];
        assert(lit_split(rows0, n_b as int, {v}, {kf}, Some(es_b[i].0), es_b[i].1));
        assert(e.1.drop_last() =~= es_b[i].1); assert(lit_img(r0, {v}, {kf}, Some(e.0), seq![e.1.last()]));
    }}
    assert(fallback_rows@.drop_last() =~= fb_b); assert(lit_img(r0, {v}, {kf}, None::<{kt}>, seq![fallback_rows@.last()]));
    assert(default_rows@.drop_last() =~= df_b); assert(lit_img(r0, {v}, {kf}, None::<{kt}>, seq![default_rows@.last()]));
    assert forall|j: int, s: {kt}| 0 <= j < n_b + 1 && #[trigger] tests_lit(rows0[j], {v}, {kf}, s) implies value_rows.has(s) by {{
        if j == n_b {{ let k2 = choose|k: int| #[trigger] col_of(r0, {v}, k) && lit_at(r0, k, {kf}) == Some(s); {nolit} assert(false); }}
        assert(vr_b.has(s)); let w0 = choose|i: int| 0 <= i < es_b.len() && (#[trigger] es_b[i]).0 == s; assert(value_rows.entries()[w0].0 == s);
    }}
}}"""

    def ghost(self):
        return [("if let Some(col) = row.remove_column(&bvar.name) {", "line-after", self.col),
                ("?default_rows.push(row);", "line-after", self.all("assert(k2 == kk);"), 0),
                ("?default_rows.push(row);", "line-after", self.all(f"assert(col_of(r0, {V}, k2));"), 1)]

    def placeholders(self):
        return [("SPLIT_BODY", self.body), ("SPLIT_ROW", self.row), ("SPLIT_KEY", self.key), ("SPLIT_NEW_KEY", self.new), ("SPLIT_PRE", self.pre), ("SPLIT_POST", self.post)]

    def contract(self, extra_req=""):
        v, kf, kt = V, self.kf, self.kt
        return f"""{extra_req}ensures forall|i: int| 0 <= i < r.0.entries().len() ==> lit_split(rows@, rows@.len() as int, {v}, {kf}, Some((#[trigger] r.0.entries()[i]).0), r.0.entries()[i].1),
            lit_split(rows@, rows@.len() as int, {v}, {kf}, None::<{kt}>, r.1@),
            forall|j: int, s: {kt}| 0 <= j < rows@.len() && #[trigger] tests_lit(rows@[j], {v}, {kf}, s) ==> r.0.has(s),"""


SPLIT_S = LitSplit("str_kf()", "key@", "Seq<char>")
SPLIT_I = LitSplit("ext_of(extract)", "key", "T")
SPLIT_PRE_RW = [
    ("for mut row in rows {", "let ghost rows0 = rows@; let mut __rv = rows; while __rv.len() > 0 { SPLIT_BODY let mut row = __rv.remove(0); SPLIT_ROW"),
    (re.compile(r"for rows in value_rows\.values_mut\(\) \{\s*rows\.push\((\w+)\.clone\(\)\);\s*\}"), r"value_rows.push_all(&\1);", "*"),
]
SPLIT_OBL = ("every literal's sub-matrix and the default sub-matrix are, in the original relative order, the rows' contributions: an "
             "unconstrained row (no test / wildcard) goes to EVERY sub-matrix — also to those of literals first seen later — and to "
             "the default; a row testing literal s goes to the sub-matrix of s only; every tested literal has a sub-matrix")


def CC_LOOPS(header):
    keep = ("cases@.len() == cases0.len(), forall|c: int| 0 <= c < cases@.len() ==> (#[trigger] cases@[c]).vars == cases0[c].vars && cases@[c].constructor == cases0[c].constructor,")
    if "__rv.len()" in header:
        return (f"invariant __rv@.len() <= rows0.len(), __rv@ == rows0.subrange(rows0.len() - __rv@.len(), rows0.len() as int), rows0 == rows@, {keep}\n"
                f"  forall|c: int| 0 <= c < cases@.len() ==> ctor_split(rows0, rows0.len() - __rv@.len(), {V}, c, cases0[c].vars@, (#[trigger] cases@[c]).rows@),\n"
                "decreases __rv@.len(),")
    if "__zi <" in header:
        return (f"invariant {keep} cases@ == cs_b, idx < cases@.len(), __zi <= cases@[idx as int].vars@.len(), __zi + __za@.len() == args0.len(), __za@ == args0.subrange(__zi as int, args0.len() as int),\n"
                "  cols@.len() == base.len() + __zi, cols@.subrange(0, base.len() as int) == base,\n"
                "  forall|i: int| 0 <= i < __zi ==> (#[trigger] cols@[base.len() + i]).var@ == cases@[idx as int].vars@[i].name@ && cols@[base.len() + i].pat == args0[i],\n"
                "decreases __za@.len(),")
    if "__ci <" in header:
        return (f"invariant {keep} __ci <= cases@.len(), cases_b == cs_b,\n"
                "  forall|c: int| 0 <= c < __ci ==> (#[trigger] cases@[c]).rows@.len() == cases_b[c].rows@.len() + 1 && cases@[c].rows@.drop_last() == cases_b[c].rows@ "
                "&& cases@[c].rows@.last().body == row.body && cases@[c].rows@.last().columns@ == row.columns@,\n"
                "  forall|c: int| __ci <= c < cases@.len() ==> (#[trigger] cases@[c]).rows == cases_b[c].rows,\n"
                "decreases cases@.len() - __ci,")
    if "__cv.len()" in header:
        return ("invariant arms@.len() + __cv@.len() == cases_f.len(), __cv@ == cases_f.subrange(arms@.len() as int, cases_f.len() as int), cases_f.len() == cases0.len(),\n"
                "  forall|c: int| 0 <= c < cases_f.len() ==> (#[trigger] cases_f[c]).vars == cases0[c].vars && cases_f[c].constructor == cases0[c].constructor "
                f"&& ctor_split(rows0, rows0.len() as int, {V}, c, cases0[c].vars@, cases_f[c].rows@),\n"
                "  forall|c: int| 0 <= c < arms@.len() ==> ((#[trigger] arms@[c]).lhs matches core::Expr::EConstr { constructor, args, ty: _ } "
                "&& constructor == cases0[c].constructor && args@.len() == cases0[c].vars@.len() "
                "&& (forall|i: int| 0 <= i < args@.len() ==> #[trigger] args@[i] == var_core(cases0[c].vars@[i])) "
                "&& arms@[c].body == rows_core(cases_f[c].rows@, *ty)),\n"
                "decreases __cv@.len(),")
    return None


def TUP_LOOPS(header):
    if "__mi0 <" in header:
        return "invariant __mi0 <= typs@.len(), __mo0@.len() == __mi0,\ndecreases typs@.len() - __mi0,"
    if "__ni > 0" in header:
        return ("invariant __ni <= names@.len(), names@.len() == typs@.len(), result == proj_chain(names@, *bvar, typs@, *ty, __ni as int, hole_g),\n"
                "decreases __ni,")
    if "__nf <" in header:
        return ("invariant __nf <= names@.len(), names@.len() == typs@.len(), result == proj_chain_desc(names@, *bvar, typs@, *ty, __nf as int, hole_g),\n"
                "decreases names@.len() - __nf,")
    if "__rv.len()" in header:
        return ("invariant __rv@.len() <= rows0.len(), __rv@ == rows0.subrange(rows0.len() - __rv@.len(), rows0.len() as int), rows0 == rows@, names@ == names_g,\n"
                "  new_rows@.len() == rows0.len() - __rv@.len(),\n"
                f"  forall|k: int| 0 <= k < new_rows@.len() ==> (#[trigger] new_rows@[k]).body == rows0[k].body && new_rows@[k].columns@ == tuple_cols(rows0[k].columns@, {V}, names_g, rows0[k].columns@.len() as int),\n"
                "decreases __rv@.len(),")
    if "__cv.len()" in header:
        return ("invariant __cv@.len() <= cols0.len(), __cv@ == cols0.subrange(cols0.len() - __cv@.len(), cols0.len() as int), names@ == names_g,\n"
                f"  cols@ == tuple_cols(cols0, {V}, names_g, cols0.len() - __cv@.len()),\n"
                "decreases __cv@.len(),")
    if "__it.len()" in header:
        return ("invariant __ii + __it@.len() == items0.len(), items0.len() == __in, __it@ == items0.subrange(__ii as int, items0.len() as int), names@ == names_g,\n"
                "  cols@ == base + sub_tuple_cols(names_g, items0, __ii as int),\n"
                "decreases __it@.len(),")
    return None


def ENUM_LOOPS(header):
    if "__ci <" in header:
        return ("invariant __ci <= cases@.len(), __ci <= nvariants, results@.len() == __ci,\n"
                "  forall|c: int| 0 <= c < results@.len() ==> is_get_chain(#[trigger] results@[c], cases@[c].vars@, *bvar, cases@[c].constructor, *ty, eunit_spec()),\n"
                "decreases cases@.len() - __ci,")
    if "__fi > 0" in header:
        return ("invariant __fi <= case.vars@.len(), result == get_chain(case.vars@, *bvar, case.constructor, *ty, __fi as int, eunit_spec()),\n"
                "decreases __fi,")
    if "__ff <" in header:
        return ("invariant __ff <= case.vars@.len(), result == get_chain_desc(case.vars@, *bvar, case.constructor, *ty, __ff as int, eunit_spec()),\n"
                "decreases case.vars@.len() - __ff,")
    return None


def STRUCT_LOOPS(header):
    if "__fi > 0" in header:
        return ("invariant __fi <= field_vars@.len(), result == get_chain(field_vars@, *bvar, constructor, *ty, __fi as int, hole_g),\n"
                "decreases __fi,")
    if "__ff <" in header:
        return ("invariant __ff <= field_vars@.len(), result == get_chain_desc(field_vars@, *bvar, constructor, *ty, __ff as int, hole_g),\n"
                "decreases field_vars@.len() - __ff,")
    if "__rv.len()" in header:
        return ("invariant __rv@.len() <= rows0.len(), __rv@ == rows0.subrange(rows0.len() - __rv@.len(), rows0.len() as int), rows0 == rows@,\n"
                "  new_rows@.len() == rows0.len() - __rv@.len(),\n"
                f"  forall|k: int| 0 <= k < new_rows@.len() ==> (#[trigger] new_rows@[k]).body == rows0[k].body && new_rows@[k].columns@ == struct_cols(rows0[k].columns@, {V}, field_vars@, rows0[k].columns@.len() as int),\n"
                "decreases __rv@.len(),")
    if "__cv.len()" in header:
        return ("invariant __cv@.len() <= cols0.len(), __cv@ == cols0.subrange(cols0.len() - __cv@.len(), cols0.len() as int),\n"
                f"  cols@ == struct_cols(cols0, {V}, field_vars@, cols0.len() - __cv@.len()),\n"
                "decreases __cv@.len(),")
    if "__zi <" in header:
        return ("invariant __zi <= field_vars@.len(), __zi + __za@.len() == args0.len(), __za@ == args0.subrange(__zi as int, args0.len() as int),\n"
                "  cols@ == base + sub_field_cols(field_vars@, args0, __zi as int),\n"
                "decreases __za@.len(),")
    if "__ro0.len()" in header:
        return "invariant true,\ndecreases __ro0@.len(),"      # a filtering step: nothing is known about what it keeps (and nothing needs to be, if it is harmless)
    return None


def BV_LOOPS(header):
    seen = ("forall|i: int, j: int| 0 <= i < {I} && 0 <= j < rows@[i].columns@.len() ==> var_ty@.dom().contains((#[trigger] rows@[i].columns@[j]).var@),\n"
            "  forall|v: Seq<char>| var_ty@.dom().contains(v) ==> tested_at(rows@, v, #[trigger] var_ty@[v]),")
    if "__ri <" in header:
        return "invariant __ri <= rows@.len(),\n  " + seen.format(I="__ri") + "\ndecreases rows@.len() - __ri,"
    if "__cj <" in header:
        return ("invariant 0 < __ri <= rows@.len(), __cj <= row.columns@.len(), *row == rows@[__ri - 1],\n  " + seen.format(I="__ri - 1") + "\n"
                "  forall|j: int| 0 <= j < __cj ==> var_ty@.dom().contains((#[trigger] row.columns@[j]).var@),\n"
                "decreases row.columns@.len() - __cj,")
    if "__bi <" in header:
        return "invariant __best < __cs@.len(), 1 <= __bi, *__cs == rows@[0].columns,\ndecreases __cs@.len() - __bi,"
    return None


UNIT = Unit(
    name="U-ROWS",
    properties=["C06"],
    rules=["attrs", ("strip", "tast::"), ("strip", "common_defs::"), "pubfields"],
    describe="compile_match::{make_rows, Row::remove_column} (the pattern matrix the match compiler starts from and its column removal): "
             "make_rows yields one row per arm IN SOURCE ORDER, each with the single column (scrutinee variable, the arm's pattern) and "
             "the arm's body; remove_column removes exactly the first column for the given variable, returns it, and keeps the other "
             "columns in order",
    trusted=["derived Clone is an identical copy; String == &str compares the text",
             "`for (i, col) in v.iter().enumerate()` / `for Arm { pat, body } in arms.iter()` are rewritten to index loops (std semantics)"],
    items=[
        Adt(file="crates/common-defs/src/lib.rs", kw="enum", name="BinaryOp", rules=["attrs"]),
        Adt(file="crates/common-defs/src/lib.rs", kw="enum", name="UnaryOp", rules=["attrs"]),
        Adt(file=T, kw="enum", name="Ty", rules=["attrs"]),
        Adt(file=T, kw="struct", name="TastIdent", rules=["attrs"]),
        Adt(file=T, kw="enum", name="UnaryResolution", rules=["attrs"]),
        Adt(file=T, kw="enum", name="BinaryResolution", rules=["attrs"]),
        Adt(file=T, kw="enum", name="Expr", rules=["attrs", ("strip", "common_defs::")]),
        Adt(file=T, kw="struct", name="Arm", rules=["attrs"]),
        Adt(file=T, kw="enum", name="Pat", rules=["attrs"]),
        Adt(file=CM, kw="struct", name="Column", rules=["attrs", "pubfields", ("strip", "tast::")]),
        Adt(file=CM, kw="struct", name="Row", rules=["attrs", "pubfields", ("strip", "tast::")]),
        Raw(text="pub mod core {\nuse vstd::prelude::*;\nuse super::*;\n"),
        Adt(file="crates/compiler/src/core.rs", kw="enum", name="Expr", rules=["attrs", ("strip", "tast::"), ("strip", "common_defs::")]),
        Adt(file="crates/compiler/src/core.rs", kw="struct", name="Arm", rules=["attrs"]),
        Raw(text="}\n"),
        Raw(path="contracts/rows.shim.rs"),
        Fn(file=CM, name="make_rows", ret="r", attrs="#[verifier::loop_isolation(false)]",
           pre_rewrites=[("for Arm { pat, body } in arms.iter() {", "let mut __ai: usize = 0; while __ai < arms.len() { let Arm { pat, body } = &arms[__ai]; __ai += 1;")],
           rewrites=[("name.to_string()", "str_to_string(name)"), (re.compile(r"\.clone\(\)"), ".vclone()", "*"),
                     ("let mut result = Vec::new();", "let mut result: Vec<Row> = Vec::new();"), ("arms: &[Arm]", "arms: &Vec<Arm>")],
           obligation="one row per arm, in source order: column (scrutinee, arm pattern), body = arm body",
           contract="""ensures r@.len() == arms@.len(),
            forall|i: int| 0 <= i < arms@.len() ==> (#[trigger] r@[i]).columns@.len() == 1 && r@[i].columns@[0].var@ == name@
                && r@[i].columns@[0].pat == arms@[i].pat && r@[i].body == arms@[i].body,""",
           loop_fn=lambda k, header, kw: ("invariant __ai <= arms@.len(), result@.len() == __ai,\n"
                                          "  forall|i: int| 0 <= i < __ai ==> (#[trigger] result@[i]).columns@.len() == 1 && result@[i].columns@[0].var@ == name@ "
                                          "&& result@[i].columns@[0].pat == arms@[i].pat && result@[i].body == arms@[i].body,\ndecreases arms@.len() - __ai,")),
        Fn(file=CM, name="remove_column", container="Row", ret="r",
           pre_rewrites=[("for (i, col) in self.columns.iter().enumerate() {", "let mut __ci: usize = 0; while __ci < self.columns.len() { let i = __ci; let col = &self.columns[__ci]; __ci += 1;")],
           rewrites=[("if col.var == var {", "if string_eq_str(&col.var, var) {"), ("let mut index = None;", "let mut index: Option<usize> = None;"),
                     # proof hint in front of the `return Some(<the removed column>)`, whatever that local is called
                     (re.compile(r"\n([ \t]*)return Some\((\w+)\);"), "\n\\1" + 'proof { let k = i as int; assert(\\2 == old(self).columns@[k]); assert(self.columns@ == old(self).columns@.remove(k)); assert(\\2.var@ == var@); assert(forall|j: int| 0 <= j < k ==> (#[trigger] old(self).columns@[j]).var@ != var@); assert(col_of(*old(self), var@, k)); }' + "\n\\1return Some(\\2);", "*")],
           obligation="removes exactly the FIRST column for the variable and returns it; other columns keep their order; None iff there is none",
           contract="""ensures final(self).body == old(self).body,
            r is None ==> final(self).columns@ == old(self).columns@ && forall|j: int| 0 <= j < old(self).columns@.len() ==> (#[trigger] old(self).columns@[j]).var@ != var@,
            r matches Some(c) ==> exists|k: int| 0 <= k < old(self).columns@.len() && c == #[trigger] old(self).columns@[k] && c.var@ == var@
                && final(self).columns@ == old(self).columns@.remove(k)
                && forall|j: int| 0 <= j < k ==> (#[trigger] old(self).columns@[j]).var@ != var@,
            r is None ==> no_col(*old(self), var@),
            r matches Some(c) ==> exists|k: int| #[trigger] col_of(*old(self), var@, k) && c == old(self).columns@[k] && final(self).columns@ == old(self).columns@.remove(k),""",
           loop_fn=lambda k, header, kw: (
               "invariant_except_break index is None, forall|j: int| 0 <= j < __ci ==> (#[trigger] old(self).columns@[j]).var@ != var@,\n"
               "invariant __ci <= self.columns@.len(), self.columns@ == old(self).columns@, self.body == old(self).body,\n"
               "ensures index is None ==> forall|j: int| 0 <= j < old(self).columns@.len() ==> (#[trigger] old(self).columns@[j]).var@ != var@,\n"
               "  index is Some ==> (index->0 < old(self).columns@.len() && old(self).columns@[index->0 as int].var@ == var@ "
               "&& forall|j: int| 0 <= j < index->0 ==> (#[trigger] old(self).columns@[j]).var@ != var@),\n"
               "decreases self.columns@.len() - __ci,")),
        Raw(text="use Expr::*;\nuse Pat::*;\n"),
        Fn(file=CM, name="move_variable_patterns", attrs="#[verifier::loop_isolation(false)]", rules=["attrs", ("strip", "tast::"), "vec_retain"],
           rewrites=[(re.compile(r"\.clone\(\)"), ".vclone()", "*")],
           obligation="variable / wildcard columns disappear, the other columns stay in order; every variable column adds `let <pattern var> = <column var>` around the body",
           contract="""ensures final(row).columns@ == kept_cols(old(row).columns@, old(row).columns@.len() as int),
            wrapped(final(row).body, old(row).columns@, old(row).columns@.len() as int, old(row).body),""",
           ghost=[("@entry", "", "let ghost cs0 = row.columns@; let ghost b0 = row.body;"),
                  ("@loop:0:body", "", "let ghost bi = row.body; let ghost ki = cs0.len() - __ro0@.len();"),
                  ("@loop:0:end", "", "proof { reveal_with_fuel(kept_cols, 2); reveal_with_fuel(wrapped, 2); if is_var_col(cs0[ki]) { assert(binds_col(row.body, cs0[ki], bi)); } }")],
           loop_fn=lambda k, header, kw: ("invariant __ro0@.len() <= cs0.len(), __ro0@ == cs0.subrange(cs0.len() - __ro0@.len(), cs0.len() as int),\n"
                                          "  row.columns@ == kept_cols(cs0, cs0.len() - __ro0@.len()), wrapped(row.body, cs0, cs0.len() - __ro0@.len(), b0),\n"
                                          "decreases __ro0@.len(),")),
        Fn(file=CM, name="compile_rows", ret="r", attrs="#[verifier::loop_isolation(false)]", rules=["attrs", ("strip", "tast::")],
           cut_before="let bvar = branch_variable(&rows);", cut_tail="    compile_rows_rest(genv, gensym, diagnostics, rows, ty, match_range)",
           pre_rewrites=[("for row in &mut rows {\n        move_variable_patterns(row);\n    }",
                          "let ghost rows0 = rows@; let mut __ri: usize = 0; while __ri < rows.len() { move_variable_patterns(&mut rows[__ri]); __ri += 1; }"),
                         ("rows.first().is_some_and(|c| c.columns.is_empty())", "(rows.len() > 0 && rows[0].columns.is_empty())")],
           rewrites=[("    mut rows: Vec<Row>,", "    rows_in: Vec<Row>,"), ("if rows.is_empty() {", "let mut rows = rows_in; if rows.is_empty() {"),
                     ("-> core::Expr", "-> CoreExpr")],
           obligation="no rows left: the `missing` call (the match fails at that point); first row fully matched: ITS body is the result, whatever rows follow",
           contract="""ensures rows_in@.len() == 0 ==> r == missing_of(*ty),
            (rows_in@.len() > 0 && kept_cols(rows_in@[0].columns@, rows_in@[0].columns@.len() as int).len() == 0) ==>
                exists|b: Expr| wrapped(b, rows_in@[0].columns@, rows_in@[0].columns@.len() as int, rows_in@[0].body) && r == #[trigger] core_of(b),""",
           loop_fn=lambda k, header, kw: ("invariant __ri <= rows@.len(), rows@.len() == rows0.len(), rows0 == rows_in@,\n"
                                          "  forall|i: int| 0 <= i < __ri ==> moved(rows0[i], #[trigger] rows@[i]),\n"
                                          "  forall|i: int| __ri <= i < rows@.len() ==> rows@[i] == rows0[i],\ndecreases rows@.len() - __ri,")),
        Fn(file=CM, name="compile_bool_case", ret="r", attrs="#[verifier::loop_isolation(false)]", rules=["attrs", ("strip", "tast::")],
           pre_rewrites=[("let body_ty = rows.first().map(|r| r.get_ty()).unwrap_or(Ty::TUnit);", "let body_ty = first_row_ty(&rows);"),
                         ("for mut r in rows {", "let ghost rows0 = rows@; let mut __rv = rows; while __rv.len() > 0 { let mut r = __rv.remove(0);")],
           rewrites=[("-> core::Expr", "-> CoreExpr"),
                     ("let mut true_rows = vec![];", "let mut true_rows: Vec<Row> = Vec::new();"), ("let mut false_rows = vec![];", "let mut false_rows: Vec<Row> = Vec::new();"),
                     ('if value.as_bool().expect("expected boolean primitive pattern") {', "if (match value.as_bool() { Some(__b) => __b, None => { proof { assume(false); } unreached() } }) {"),
                     ('_ => unreachable!("expected bool pattern"),', "_ => { proof { assume(false); } }"),
                     (re.compile(r"\.clone\(\)"), ".vclone()", "*"),
                     (re.compile(r"core::ebool\("), "core_ebool(", 2),
                     (re.compile(r"body: compile_rows\("), "body: compile_rows_rec(", 2)],
           obligation="the rows are split on the boolean scrutinee without changing their relative order: a row goes (minus the test) to the side "
                      "it tests, to both sides if it does not test the variable; the result switches on that variable with exactly these two sub-matrices",
           contract="""ensures exists|tr: Seq<Row>, fr: Seq<Row>| bool_split(rows@, rows@.len() as int, bvar.name@, true, tr) && bool_split(rows@, rows@.len() as int, bvar.name@, false, fr)
                && (r matches core::Expr::EMatch { expr, arms, default, ty: _ } && *expr == var_core(*bvar) && default is None && arms@.len() == 2
                    && arms@[0].lhs == ebool_spec(true) && arms@[0].body == #[trigger] rows_core(tr, bvar.ty)
                    && arms@[1].lhs == ebool_spec(false) && arms@[1].body == #[trigger] rows_core(fr, bvar.ty)),""",
           ghost=[("@loop:0:body", "", "let ghost t_b = true_rows@; let ghost f_b = false_rows@; let ghost n_b = rows0.len() - __rv@.len();"),
                  ("@loop:0:end", "", "proof { reveal_with_fuel(bool_split, 2); "
                                      "if true_rows@.len() > t_b.len() { assert(true_rows@.drop_last() =~= t_b); } "
                                      "if false_rows@.len() > f_b.len() { assert(false_rows@.drop_last() =~= f_b); } }")],
           loop_fn=lambda k, header, kw: ("invariant __rv@.len() <= rows0.len(), __rv@ == rows0.subrange(rows0.len() - __rv@.len(), rows0.len() as int), rows0 == rows@,\n"
                                          "  bool_split(rows0, rows0.len() - __rv@.len(), bvar.name@, true, true_rows@), bool_split(rows0, rows0.len() - __rv@.len(), bvar.name@, false, false_rows@),\n"
                                          "decreases __rv@.len(),")),
        Adt(file=CM, kw="struct", name="ConstructorCase", rules=["attrs", "pubfields"]),
        Fn(file=CM, name="compile_constructor_cases", ret="r", attrs="#[verifier::loop_isolation(false)]\n#[verifier::rlimit(60)]", rules=["attrs", ("strip", "tast::")],
           pre_rewrites=[
               ("for mut row in rows {", "let ghost rows0 = rows@; let ghost cases0 = cases@; let mut __rv = rows; while __rv.len() > 0 { let mut row = __rv.remove(0);"),
               ("for (var, pat) in cases[idx].vars.iter().zip(args.into_iter()) {",
                "let ghost base = cols@; let ghost args0 = args@; let mut __za = args; let mut __zi: usize = 0; "
                "while __zi < cases[idx].vars.len() && __za.len() > 0 { let var = &cases[idx].vars[__zi]; let pat = __za.remove(0); __zi += 1;"),
               ("for ConstructorCase { rows, .. } in &mut cases {\n                rows.push(row.clone())\n            }",
                "let ghost cases_b = cases@; let mut __ci: usize = 0; while __ci < cases.len() { cases[__ci].rows.push(row.vclone()); __ci += 1; }"),
               ("for case in cases.into_iter() {", "let ghost cases_f = cases@; let mut __cv = cases; while __cv.len() > 0 { let case = __cv.remove(0);"),
               ("let args = case.vars.into_iter().map(|var| var.to_core()).collect();", "let args = vars_to_core(case.vars);"),
           ],
           rewrites=[("-> Vec<core::Arm>", "-> Vec<core::Arm>"),
                     (re.compile(r"let idx = constructor\s*\.as_enum\(\)\s*\.expect\(\"[^\"]*\"\)\s*\.enum_index\(\);"),
                      "let idx = match constructor.as_enum() { Some(__e) => __e.enum_index(), None => { proof { assume(false); } unreached() } }; proof { assume(idx < cases@.len()); }", 1),
                     ("                    body: row.body,\n                })\n", "                    body: row.body,\n                });\n"),
                     ("unreachable!()", "{ proof { assume(false); } }"),
                     (re.compile(r"\.clone\(\)"), ".vclone()", "*"),
                     ("let mut arms = vec![];", "let mut arms: Vec<core::Arm> = Vec::new();"),
                     (re.compile(r"body: compile_rows\("), "body: compile_rows_rec(", 1)],
           obligation="for every case: its sub-matrix is, in the original relative order, each row's contribution (untested: the row; tests this case: "
                      "the row minus the test plus its sub-pattern tests against the case's variables; tests another case: nothing); arm c is "
                      "`Constructor_c(vars_c) => decision tree of sub-matrix c`",
           contract=f"""requires forall|c: int| 0 <= c < cases@.len() ==> (#[trigger] cases@[c]).rows@.len() == 0,
        ensures r@.len() == cases@.len(),
            forall|c: int| 0 <= c < cases@.len() ==> ((#[trigger] r@[c]).lhs matches core::Expr::EConstr {{ constructor, args, ty: _ }}
                && constructor == cases@[c].constructor && args@.len() == cases@[c].vars@.len()
                && (forall|i: int| 0 <= i < args@.len() ==> #[trigger] args@[i] == var_core(cases@[c].vars@[i]))
                && exists|rs: Seq<Row>| ctor_split(rows@, rows@.len() as int, {V}, c, cases@[c].vars@, rs) && r@[c].body == #[trigger] rows_core(rs, *ty)),""",
           ghost=[("@loop:0:body", "", "let ghost cs_b = cases@; let ghost n_b = rows0.len() - __rv@.len();"),
                  ("if let Some(col) = row.remove_column(&bvar.name) {", "line-after", "let ghost col_g = col; let ghost r0 = rows0[n_b];"),
                  ("                    body: row.body,\n                });", "line-after", H1),
                  (r"@after-loop:__ci\s*<", "", H2)],
           loop_fn=lambda k, header, kw: CC_LOOPS(header)),
        Fn(file=CM, name="compile_string_case", rename="string_case_split", ret="r", attrs="#[verifier::loop_isolation(false)]\n#[verifier::rlimit(60)]",
           rules=["attrs", ("strip", "tast::"), "mem_take"],
           cut_before="let arms = value_rows", cut_tail="    (value_rows, default_rows)",
           pre_rewrites=SPLIT_PRE_RW + [
               ("let body_ty = rows.first().map(|r| r.get_ty()).unwrap_or(Ty::TUnit);", "let body_ty = first_row_ty(&rows);"),
               ("let mut value_rows: IndexMap<String, Vec<Row>> = IndexMap::new();", "let mut value_rows: ValMap = ValMap::new();"),
               (re.compile(r'let key = value\s*\.as_str\(\)\s*\.expect\("[^"]*"\)\s*\.to_string\(\);'),
                "let key = match value.as_str() { Some(__s) => str_to_string(__s), None => { proof { assume(false); } unreached() } }; SPLIT_KEY", 1),
               (re.compile(r"let entry = value_rows\s*\.entry\(key\)\s*\.or_insert_with\(\|\| ((?:[^()]|\([^()]*\))*)\);"),
                r"if !value_rows.contains_key(&key) { let __init = \1; SPLIT_NEW_KEY value_rows.insert_new(key.clone(), __init); } SPLIT_PRE", "*"),
               (re.compile(r"\bentry\.push\(row\);"), "value_rows.push_to(&key, row); SPLIT_POST", "*"),
               # `value_rows.entry(key).or_default().push(row)`: a literal first seen now starts from an EMPTY sub-matrix
               (re.compile(r"value_rows\s*\.entry\(key\)\s*\.or_default\(\)\s*\.push\(row\);"),
                "if !value_rows.contains_key(&key) { let __init: Vec<Row> = Vec::new(); SPLIT_NEW_KEY value_rows.insert_new(key.clone(), __init); } SPLIT_PRE value_rows.push_to(&key, row); SPLIT_POST", "*"),
               # a variant that keeps no list of the unconstrained rows seen so far: the contract is stated against an empty one
               (re.compile(r"(?s)\A.*\Z"), lambda mt: mt.group(0) if "fallback_rows" in mt.group(0) else mt.group(0).replace("let mut default_rows: Vec<Row> = Vec::new();", "let mut fallback_rows: Vec<Row> = Vec::new(); let mut default_rows: Vec<Row> = Vec::new();", 1), 1),
           ],
           rewrites=[(re.compile(r"\) -> core::Expr \{"), ") -> (ValMap, Vec<Row>) {", 1),
                     (re.compile(r'_ => unreachable!\("expected string pattern"\),'), "_ => { proof { assume(false); } }", "*"),
                     (re.compile(r"\.clone\(\)"), ".vclone()", "*")] + SPLIT_S.placeholders(),
           obligation=SPLIT_OBL, contract=SPLIT_S.contract(), ghost=SPLIT_S.ghost(),
           loop_fn=lambda k, header, kw: SPLIT_S.loop(header)),
        Fn(file=CM, name="compile_int_case_impl", rename="int_case_split", ret="r", attrs="#[verifier::loop_isolation(false)]\n#[verifier::rlimit(60)]",
           rules=["attrs", ("strip", "tast::"), "mem_take"],
           cut_before="if default_rows.is_empty() {\n        let message", cut_tail="    (value_rows, default_rows)",
           pre_rewrites=SPLIT_PRE_RW + [
               ("let body_ty = rows.first().map(|r| r.get_ty()).unwrap_or(Ty::TUnit);", "let body_ty = first_row_ty(&rows);"),
               ("let mut value_rows: IndexMap<T, Vec<Row>> = IndexMap::new();", "let mut value_rows: IntMap<T> = IntMap::<T>::new();"),
               (re.compile(r'let key = extract\(&value\)\.expect\("[^"]*"\);'),
                "let key = match extract(&value) { Some(__k) => __k, None => { proof { assume(false); } unreached() } }; SPLIT_KEY", 1),
               (re.compile(r"let entry = value_rows\s*\.entry\(key\)\s*\.or_insert_with\(\|\| ((?:[^()]|\([^()]*\))*)\);"),
                r"if !value_rows.contains_key(&key) { let __init = \1; SPLIT_NEW_KEY value_rows.insert_new(key, __init); } SPLIT_PRE", 1),
               (re.compile(r"\bentry\.push\(row\);"), "value_rows.push_to(&key, row); SPLIT_POST", 1),
           ],
           rewrites=[(re.compile(r"\) -> core::Expr\s*where"), ") -> (IntMap<T>, Vec<Row>)\nwhere", 1),
                     ('_ => unreachable!("expected integer pattern"),', "_ => { proof { assume(false); } }"),
                     (re.compile(r"\.clone\(\)"), ".vclone()", "*")] + SPLIT_I.placeholders(),
           obligation=SPLIT_OBL + " (integer literals of every width: the literal's key is whatever the `extract` closure reads from the pattern)",
           contract=SPLIT_I.contract("requires ext_ok(extract),\n        "), ghost=SPLIT_I.ghost(),
           loop_fn=lambda k, header, kw: SPLIT_I.loop(header)),
        Fn(file=CM, name="compile_string_case", rename="string_case_tail", ret="r", attrs="#[verifier::loop_isolation(false)]",
           rules=["attrs", ("strip", "tast::")],
           cut_from="let arms = value_rows",
           sig="fn string_case_tail(genv: &GlobalTypeEnv, gensym: &Gensym, diagnostics: &mut Diagnostics, value_rows: ValMap, default_rows: Vec<Row>, "
               "bvar: &Variable, ty: &Ty, match_range: Option<TextRange>, body_ty: Ty) -> core::Expr",
           pre_rewrites=[(re.compile(r"let arms = value_rows\s*\.into_iter\(\)\s*\.map\(\|\((\w+), (\w+)\)\| core::Arm \{(.*?)\}\)\s*\.collect\(\);", re.S),
                r"let mut arms: Vec<core::Arm> = Vec::new(); let mut __vm = value_rows; while __vm.len() > 0 { let (\1, \2) = __vm.pop_front(); let __a = core::Arm {\3}; arms.push(__a); }", 1)],
           rewrites=[(re.compile(r"\bcompile_rows\("), "compile_rows_rec(", 2), (re.compile(r"\.clone\(\)"), ".vclone()", "*")],
           obligation="the switch is on the scrutinee variable, has exactly one arm per literal sub-matrix — the literal itself as the arm's "
                      "left-hand side, the decision tree of THAT literal's sub-matrix as its body — and its default is the decision tree of the "
                      "default sub-matrix (none if that is empty)",
           contract="ensures lit_switch(r, *bvar, value_rows.entries(), default_rows@, *ty, str_lhs()),",
           ghost=[(r"@after-loop:__vm", "", "let ghost arms_f = arms@; let ghost es_f = value_rows.entries(); proof { "
                   "assert forall|i: int| 0 <= i < arms_f.len() implies has_entry(es_f, #[trigger] arms_f[i], *ty, str_lhs()) by { reveal(has_entry); assert(arm_of(arms_f[i], es_f[i], *ty, str_lhs())); } "
                   "assert forall|j: int| 0 <= j < es_f.len() implies has_arm(arms_f, #[trigger] es_f[j], *ty, str_lhs()) by { reveal(has_arm); assert(arm_of(arms_f[j], es_f[j], *ty, str_lhs())); } }")],
           loop_fn=lambda k, header, kw: (
               "invariant arms@.len() + __vm.entries().len() == value_rows.entries().len(), __vm.entries() == value_rows.entries().subrange(arms@.len() as int, value_rows.entries().len() as int),\n"
               "  forall|i: int| 0 <= i < arms@.len() ==> arm_of(#[trigger] arms@[i], value_rows.entries()[i], *ty, str_lhs()),\n"
               "decreases __vm.entries().len(),")),
        Fn(file=CM, name="compile_int_case_impl", rename="int_case_tail", ret="r", attrs="#[verifier::loop_isolation(false)]",
           rules=["attrs", ("strip", "tast::"), "fmtmsg"],
           cut_from="if default_rows.is_empty() {\n        let message",
           sig="fn int_case_tail<T, ToPrim>(genv: &GlobalTypeEnv, gensym: &Gensym, diagnostics: &mut Diagnostics, value_rows: IntMap<T>, default_rows: Vec<Row>, "
               "bvar: &Variable, ty: &Ty, literal_ty: Ty, match_range: Option<TextRange>, to_prim: ToPrim, body_ty: Ty) -> core::Expr\nwhere T: Copy, ToPrim: Fn(T) -> Prim,",
           pre_rewrites=[(re.compile(r"let arms = value_rows\s*\.into_iter\(\)\s*\.map\(\|\((\w+), (\w+)\)\| core::Arm \{(.*?)\}\)\s*\.collect\(\);", re.S),
                r"let mut arms: Vec<core::Arm> = Vec::new(); let mut __vm = value_rows; while __vm.len() > 0 { let (\1, \2) = __vm.pop_front(); let __a = core::Arm {\3}; arms.push(__a); }", 1)],
           rewrites=[(re.compile(r"\bcompile_rows\("), "compile_rows_rec(", 2), (re.compile(r"\.clone\(\)"), ".vclone()", "*")],
           obligation="with an empty default sub-matrix (no wildcard arm) the integer match is reported as non-exhaustive (one error diagnostic) and "
                      "compiles to the `missing` call; otherwise the switch is as for strings, each arm's literal being to_prim(key)",
           contract="""requires forall|k: T| #[trigger] to_prim.requires((k,)),
        ensures default_rows@.len() == 0 ==> r == missing_of(*ty) && final(diagnostics).errors() == old(diagnostics).errors() + 1,
            default_rows@.len() > 0 ==> lit_switch(r, *bvar, value_rows.entries(), default_rows@, *ty, int_lhs(to_prim, literal_ty)),""",
           ghost=[(r"@after-loop:__vm", "", "let ghost arms_f = arms@; let ghost es_f = value_rows.entries(); proof { "
                   "assert forall|i: int| 0 <= i < arms_f.len() implies has_entry(es_f, #[trigger] arms_f[i], *ty, int_lhs(to_prim, literal_ty)) by { reveal(has_entry); assert(arm_of(arms_f[i], es_f[i], *ty, int_lhs(to_prim, literal_ty))); } "
                   "assert forall|j: int| 0 <= j < es_f.len() implies has_arm(arms_f, #[trigger] es_f[j], *ty, int_lhs(to_prim, literal_ty)) by { reveal(has_arm); assert(arm_of(arms_f[j], es_f[j], *ty, int_lhs(to_prim, literal_ty))); } }")],
           loop_fn=lambda k, header, kw: (
               "invariant arms@.len() + __vm.entries().len() == value_rows.entries().len(), __vm.entries() == value_rows.entries().subrange(arms@.len() as int, value_rows.entries().len() as int),\n"
               "  forall|i: int| 0 <= i < arms@.len() ==> arm_of(#[trigger] arms@[i], value_rows.entries()[i], *ty, int_lhs(to_prim, literal_ty)),\n"
               "decreases __vm.entries().len(),")),
        Fn(file=CM, name="replace_default_expr", attrs="#[verifier::loop_isolation(false)]", rules=["attrs", ("strip", "tast::")],
           obligation="the innermost body of a chain of lets is replaced, the lets themselves are kept",
           contract="ensures *final(expr) == replace_tail(*old(expr), replacement),\n    decreases *old(expr),"),
        Fn(file=CM, name="compile_tuple_case", ret="r", attrs="#[verifier::loop_isolation(false)]\n#[verifier::rlimit(60)]", rules=["attrs", ("strip", "tast::"), "iter_map_collect"],
           pre_rewrites=[
               ("for (i, name) in names.iter().enumerate().rev() {", "let mut __ni: usize = names.len(); while __ni > 0 { __ni -= 1; let i = __ni; let name = &names[i];", "*"),
               ("for (i, name) in names.iter().enumerate() {", "let mut __nf: usize = 0; while __nf < names.len() { let i = __nf; let name = &names[i]; __nf += 1;", "*"),
               ("for row in rows {", "let ghost rows0 = rows@; let mut __rv = rows; while __rv.len() > 0 { let row = __rv.remove(0);"),
               ("for Column { var, pat } in row.columns {", "let ghost cols0 = row.columns@; let mut __cv = row.columns; while __cv.len() > 0 { let Column { var, pat } = __cv.remove(0);"),
               ("for (i, item) in items.into_iter().enumerate() {",
                "let ghost items0 = items@; let ghost base = cols@; let __in: usize = items.len(); let mut __it = items; let mut __ii: usize = 0; while __it.len() > 0 { let item = __it.remove(0); let i = __ii; __ii += 1; "
                "proof { assume(i < names@.len()); }"),
           ],
           rewrites=[("typs: &[Ty]", "typs: &Vec<Ty>"), ("let mut new_rows = vec![];", "let mut new_rows: Vec<Row> = Vec::new();"), ("let mut cols = vec![];", "let mut cols: Vec<Column> = Vec::new();"),
                     ("let hole = core::eunit();", "let hole = core_eunit(); let ghost hole_g = hole;"), ("if var == bvar.name {", "if string_eq(&var, &bvar.name) {"),
                     ("unreachable!()", "{ proof { assume(false); } }"), (re.compile(r"\.clone\(\)"), ".vclone()", "*"),
                     (re.compile(r"let inner = compile_rows\("), "let inner = compile_rows_rec(", 1),
                     # the witness of the postcondition's `exists`, stated just before the tail expression
                     (re.compile(r"\n    result\n\}\s*$"), "\n    proof { lemma_chain_tail(names_g, *bvar, typs@, *ty, 0, hole_g, rows_core(new_rows@, *ty)); lemma_chain_desc_tail(names_g, *bvar, typs@, *ty, names_g.len() as int, hole_g, rows_core(new_rows@, *ty)); assert(tuple_case_of(result, rows@, *bvar, typs@, *ty, names_g, new_rows@)); }\n    result\n}", 1)],
           obligation="the tuple scrutinee's component i is bound to the i-th fresh variable (`let x_i = bvar.i`, with the i-th component type), around the "
                      "decision tree of the rewritten matrix (the order of these lets is free: first or last component outermost): same rows in the same order with the same bodies, every column on the tuple variable "
                      "replaced in place by one column per sub-pattern (sub-pattern i against x_i), other columns kept",
           contract="ensures exists|names: Seq<String>, rs: Seq<Row>| #[trigger] tuple_case_of(r, rows@, *bvar, typs@, *ty, names, rs),",
           ghost=[("let mut result = hole;", "line-after", "let ghost names_g = names@;")],
           loop_fn=lambda k, header, kw: TUP_LOOPS(header)),
        Fn(file=CM, name="compile_unit_case", ret="r", attrs="#[verifier::loop_isolation(false)]", rules=["attrs", ("strip", "tast::")],
           pre_rewrites=[("for mut r in rows {", "let ghost rows0 = rows@; let mut __rv = rows; while __rv.len() > 0 { let mut r = __rv.remove(0);"),
                         ("let body_ty = rows.first().map(|r| r.get_ty()).unwrap_or(Ty::TUnit);", "let body_ty = first_row_ty(&rows);")],
           rewrites=[("let mut new_rows = vec![];", "let mut new_rows: Vec<Row> = Vec::new();"), ("core::eunit()", "core_eunit()"),
                     ("arms: vec![core::Arm {", "arms: vec_one_arm(core::Arm {"), (re.compile(r"\}\],\s*default: None,"), "}),\n        default: None,", 1),
                     (re.compile(r"body: compile_rows\("), "body: compile_rows_rec(", 1),
                     # name the tail expression so that the witness of the postcondition's `exists` can be stated
                     (re.compile(r"\n    core::Expr::EMatch \{(.*)\n    \}\n\}\s*$", re.S),
                      r"\n    let __res = core::Expr::EMatch {\1\n    };\n    proof { assert(unit_case_of(__res, rows@, *bvar, rs_g)); }\n    __res\n}", 1)],
           obligation="every row stays, in order, minus its test on the unit variable; one arm `() => decision tree of these rows`, no default",
           contract="ensures exists|rs: Seq<Row>| #[trigger] unit_case_of(r, rows@, *bvar, rs),",
           ghost=[("@after-loop:__rv", "", "let ghost rs_g = new_rows@;")],
           loop_fn=lambda k, header, kw: (
               "invariant __rv@.len() <= rows0.len(), __rv@ == rows0.subrange(rows0.len() - __rv@.len(), rows0.len() as int), rows0 == rows@,\n"
               f"  new_rows@.len() == rows0.len() - __rv@.len(), forall|k: int| 0 <= k < new_rows@.len() ==> unit_row(rows0[k], {V}, #[trigger] new_rows@[k]),\n"
               "decreases __rv@.len(),")),
        Fn(file=CM, name="branch_variable", ret="r", attrs="#[verifier::loop_isolation(false)]", rules=["attrs", ("strip", "tast::")],
           pre_rewrites=[
               ("for row in rows {", "let mut __ri: usize = 0; while __ri < rows.len() { let row = &rows[__ri]; __ri += 1;"),
               ("for col in &row.columns {", "let mut __cj: usize = 0; while __cj < row.columns.len() { let col = &row.columns[__cj]; __cj += 1;"),
               ("*counts.entry(&col.var).or_insert(0_usize) += 1;", "counts.bump(&col.var);"),
               # `C.iter().map(|c| c.var.clone()).max_by_key(|v| counts[v]).unwrap()`: std semantics (the LAST element with the greatest key; panics on an empty C)
               (re.compile(r"let var = ([^;]+?)\s*\.iter\(\)\s*\.map\(\|(\w+)\| \2\.var\.clone\(\)\)\s*\.max_by_key\(\|(\w+)\| counts\[\3\]\)\s*\.unwrap\(\);"),
                r"let __cs = &\1; let mut __best: usize = 0; let mut __bi: usize = 1; while __bi < __cs.len() { "
                r"if counts.get_count(&__cs[__bi].var) >= counts.get_count(&__cs[__best].var) { __best = __bi; } __bi += 1; } let var = __cs[__best].var.clone();", "*"),
               # min_by_key: the FIRST element with the least key
               (re.compile(r"let var = ([^;]+?)\s*\.iter\(\)\s*\.map\(\|(\w+)\| \2\.var\.clone\(\)\)\s*\.min_by_key\(\|(\w+)\| counts\[\3\]\)\s*\.unwrap\(\);"),
                r"let __cs = &\1; let mut __best: usize = 0; let mut __bi: usize = 1; while __bi < __cs.len() { "
                r"if counts.get_count(&__cs[__bi].var) < counts.get_count(&__cs[__best].var) { __best = __bi; } __bi += 1; } let var = __cs[__best].var.clone();", "*"),
           ],
           rewrites=[("rows: &[Row]", "rows: &Vec<Row>"), ("let mut counts = HashMap::new();", "let mut counts = CountMap::new();"),
                     ("let mut var_ty: HashMap<String, Ty> = HashMap::new();", "let mut var_ty: TyMap = TyMap::new();"),
                     ("var_ty[&var]", "var_ty.index(&var)"), (re.compile(r"\.clone\(\)"), ".vclone()", "*")],
           obligation="the branch variable is one the FIRST row tests (so the split makes progress and the first row's test is what the case "
                      "functions expect), its type is the type of a pattern some row tests against it, and the table lookup cannot panic",
           contract="""requires rows@.len() > 0, rows@[0].columns@.len() > 0,
        ensures exists|k: int| 0 <= k < rows@[0].columns@.len() && r.name@ == (#[trigger] rows@[0].columns@[k]).var@,
            tested_at(rows@, r.name@, r.ty),""",
           loop_fn=lambda k, header, kw: BV_LOOPS(header)),
        Adt(file="crates/compiler/src/env.rs", kw="struct", name="EnumDef", rules=["attrs", ("strip", "tast::")]),
        Fn(file=CM, name="compile_enum_case", rename="enum_case_cases", ret="r", attrs="#[verifier::loop_isolation(false)]", rules=["attrs", ("strip", "tast::"), "iter_map_collect"],
           cut_from="let cases: Vec<ConstructorCase> = tydef", cut_before="let mut results = Vec::new();", cut_tail="    cases",
           sig="fn enum_case_cases(tydef: &EnumDef, name: &TastIdent, gensym: &Gensym, subst: HashMap<String, Ty>) -> Vec<ConstructorCase>",
           pre_rewrites=[(re.compile(r"let cases: Vec<ConstructorCase> = tydef\s*\.variants\s*\.iter\(\)\s*\.enumerate\(\)\s*\.map\(\|\(index, \(variant, args\)\)\| (ConstructorCase \{.*?\n        \})\)\s*\.collect\(\);", re.S),
                          r"let mut cases: Vec<ConstructorCase> = Vec::new(); let mut __vi: usize = 0; while __vi < tydef.variants.len() { let index = __vi; let (variant, args) = &tydef.variants[__vi]; let __c = \1; cases.push(__c); __vi += 1; }", 1),
                         (re.compile(r"Constructor::Enum\(common::EnumConstructor \{\s*type_name: name\.clone\(\),\s*variant: variant\.clone\(\),\s*index,\s*\}\)"),
                          "mk_enum_constructor(name.clone(), variant.clone(), index)", "*"),
                         (re.compile(r"Constructor::Enum\(common::EnumConstructor \{\s*type_name: name\.clone\(\),\s*variant: variant\.clone\(\),\s*index: ([^,{}]+),\s*\}\)"),
                          r"mk_enum_constructor(name.clone(), variant.clone(), \1)", "*")],
           rewrites=[("rows: vec![],", "rows: Vec::new(),"), (re.compile(r"\.clone\(\)"), ".vclone()", "*")],
           obligation="one case per variant of the enum, case i carrying the constructor with index i (compile_constructor_cases files a row under "
                      "cases[index of the pattern's constructor]) and one fresh variable per field of variant i; no rows yet",
           contract="""ensures r@.len() == tydef.variants@.len(),
            forall|i: int| 0 <= i < r@.len() ==> ((#[trigger] r@[i]).constructor.enum_part() matches Some(e) && e.idx() == i && e.variant_name() == tydef.variants@[i].0)
                && r@[i].vars@.len() == tydef.variants@[i].1@.len() && r@[i].rows@.len() == 0,""",
           loop_fn=lambda k, header, kw: (
               ("invariant __vi <= tydef.variants@.len(), cases@.len() == __vi,\n"
                "  forall|i: int| 0 <= i < cases@.len() ==> ((#[trigger] cases@[i]).constructor.enum_part() matches Some(e) && e.idx() == i && e.variant_name() == tydef.variants@[i].0)\n"
                "    && cases@[i].vars@.len() == tydef.variants@[i].1@.len() && cases@[i].rows@.len() == 0,\n"
                "decreases tydef.variants@.len() - __vi,") if "__vi <" in header else
               ("invariant __mi0 <= args@.len(), __mo0@.len() == __mi0,\ndecreases args@.len() - __mi0," if "__mi0 <" in header else None))),
        Fn(file=CM, name="compile_enum_case", rename="enum_case_lets", ret="r", attrs="#[verifier::loop_isolation(false)]", rules=["attrs", ("strip", "tast::")],
           cut_from="let mut results = Vec::new();", cut_before="let arms = compile_constructor_cases(", cut_tail="    results",
           sig="fn enum_case_lets(cases: &Vec<ConstructorCase>, nvariants: usize, bvar: &Variable, ty: &Ty) -> Vec<core::Expr>",
           pre_rewrites=[("for case in cases.iter().take(tydef.variants.len()) {", "let mut __ci: usize = 0; while __ci < cases.len() && __ci < nvariants { let case = &cases[__ci]; __ci += 1;"),
                         ("for (field, var) in case.vars.iter().enumerate().rev() {", "let mut __fi: usize = case.vars.len(); while __fi > 0 { __fi -= 1; let field = __fi; let var = &case.vars[field];", "*"),
                         ("for (field, var) in case.vars.iter().enumerate() {", "let mut __ff: usize = 0; while __ff < case.vars.len() { let field = __ff; let var = &case.vars[field]; __ff += 1;", "*")],
           rewrites=[("let mut results = Vec::new();", "let mut results: Vec<core::Expr> = Vec::new();"), ("core::eunit()", "core_eunit()"), (re.compile(r"\.clone\(\)"), ".vclone()", "*")],
           obligation="for every case: field i of the matched constructor is bound to the case's i-th fresh variable at that variable's type "
                      "(`let x_i = bvar.<ctor>.i`), around a hole to be filled with the case's decision tree",
           contract="""ensures r@.len() == min_len(cases@.len() as int, nvariants as int),
            forall|c: int| 0 <= c < r@.len() ==> is_get_chain(#[trigger] r@[c], cases@[c].vars@, *bvar, cases@[c].constructor, *ty, eunit_spec()),""",
           loop_fn=lambda k, header, kw: ENUM_LOOPS(header)),
        Fn(file=CM, name="compile_enum_case", rename="enum_case_tail", ret="r", attrs="#[verifier::loop_isolation(false)]", rules=["attrs", ("strip", "tast::")],
           cut_from="let mut new_arms = vec![];",
           sig="fn enum_case_tail(results: Vec<core::Expr>, arms: Vec<core::Arm>, bvar: &Variable, body_ty: Ty) -> core::Expr",
           pre_rewrites=[("for (mut res, mut arm) in results.into_iter().zip(arms.into_iter()) {",
                          "let ghost res0 = results@; let ghost arms0 = arms@; let mut __rs = results; let mut __as = arms; "
                          "while __rs.len() > 0 && __as.len() > 0 { let mut res = __rs.remove(0); let mut arm = __as.remove(0);")],
           rewrites=[("let mut new_arms = vec![];", "let mut new_arms: Vec<core::Arm> = Vec::new();")],
           obligation="arm c of the switch keeps its constructor pattern and gets, as body, case c's field bindings around case c's decision tree; no default",
           contract="""ensures r matches core::Expr::EMatch { expr, arms: na, default, ty: _ } && *expr == var_core(*bvar) && default is None
                && na@.len() == min_len(results@.len() as int, arms@.len() as int)
                && forall|c: int| 0 <= c < na@.len() ==> (#[trigger] na@[c]).lhs == arms@[c].lhs && na@[c].body == replace_tail(results@[c], arms@[c].body),""",
           loop_fn=lambda k, header, kw: (
               "invariant __rs@.len() <= res0.len(), __as@.len() <= arms0.len(), res0 == results@, arms0 == arms@, new_arms@.len() + __rs@.len() == res0.len(), new_arms@.len() + __as@.len() == arms0.len(),\n"
               "  __rs@ == res0.subrange(new_arms@.len() as int, res0.len() as int), __as@ == arms0.subrange(new_arms@.len() as int, arms0.len() as int),\n"
               "  forall|c: int| 0 <= c < new_arms@.len() ==> (#[trigger] new_arms@[c]).lhs == arms0[c].lhs && new_arms@[c].body == replace_tail(res0[c], arms0[c].body),\n"
               "decreases __rs@.len(),")),
        Fn(file=CM, name="compile_struct_case", rename="struct_case_body", ret="r", attrs="#[verifier::loop_isolation(false)]\n#[verifier::rlimit(60)]", rules=["attrs", ("strip", "tast::"), "vec_retain"],
           cut_from="let hole = core::eunit();",
           sig="fn struct_case_body(genv: &GlobalTypeEnv, gensym: &Gensym, diagnostics: &mut Diagnostics, rows: Vec<Row>, bvar: &Variable, ty: &Ty, "
               "field_vars: Vec<Variable>, constructor: Constructor, match_range: Option<TextRange>) -> core::Expr",
           pre_rewrites=[
               ("for (field_index, var) in field_vars.iter().enumerate().rev() {", "let mut __fi: usize = field_vars.len(); while __fi > 0 { __fi -= 1; let field_index = __fi; let var = &field_vars[field_index];", "*"),
               ("for (field_index, var) in field_vars.iter().enumerate() {", "let mut __ff: usize = 0; while __ff < field_vars.len() { let field_index = __ff; let var = &field_vars[field_index]; __ff += 1;", "*"),
               ("for row in rows {", "let ghost rows0 = rows@; let mut __rv = rows; while __rv.len() > 0 { let row = __rv.remove(0);"),
               ("for Column { var, pat } in row.columns {", "let ghost cols0 = row.columns@; let mut __cv = row.columns; while __cv.len() > 0 { let Column { var, pat } = __cv.remove(0);"),
               # a filtering step in front of the zip is followed: `let N = V.into_iter().filter(|x| P);` is `V.retain(|x| P)` renamed (rule vec_retain)
               (re.compile(r"let (\w+) = (\w+)\s*\.into_iter\(\)\s*\.filter\(\|(\w+)\| ([^;]*?)\);", re.S), r"let mut \1 = \2; \1.retain(|\3| \4);", "*"),
               (re.compile(r"for \(var, arg_pat\) in field_vars\.iter\(\)\.zip\((\w+)(?:\.into_iter\(\))?\) \{"),
                r"let ghost args0 = \1@; let ghost base = cols@; let mut __za = \1; let mut __zi: usize = 0; "
                r"while __zi < field_vars.len() && __za.len() > 0 { let var = &field_vars[__zi]; let arg_pat = __za.remove(0); __zi += 1;", 1),
           ],
           rewrites=[("let mut new_rows = vec![];", "let mut new_rows: Vec<Row> = Vec::new();"), ("let mut cols = vec![];", "let mut cols: Vec<Column> = Vec::new();"),
                     ("let hole = core::eunit();", "let hole = core_eunit(); let ghost hole_g = hole;"), ("if var == bvar.name {", "if string_eq(&var, &bvar.name) {"),
                     ('_ => unreachable!("expected struct pattern"),', "_ => { proof { assume(false); } }"), (re.compile(r"\.clone\(\)"), ".vclone()", "*"),
                     (re.compile(r"let inner = compile_rows\("), "let inner = compile_rows_rec(", 1),
                     (re.compile(r"\n    result\n\}\s*$"),
                      "\n    proof { lemma_is_get_chain_tail(res_g, field_vars@, *bvar, constructor, *ty, hole_g, rows_core(new_rows@, *ty)); "
                      "assert(struct_case_of(result, rows@, *bvar, field_vars@, constructor, *ty, new_rows@)); }\n    result\n}", 1)],
           obligation="field i of the struct scrutinee is bound to the i-th field variable (`let x_i = bvar.<Struct>.i`) around the decision tree of the "
                      "rewritten matrix: same rows, same order, same bodies, each column on the struct variable replaced in place by one column per "
                      "field pattern (field pattern i against x_i), other columns kept",
           contract="ensures exists|rs: Seq<Row>| #[trigger] struct_case_of(r, rows@, *bvar, field_vars@, constructor, *ty, rs),",
           ghost=[("let mut new_rows", "line-before", "let ghost res_g = result;")],
           loop_fn=lambda k, header, kw: STRUCT_LOOPS(header)),
    ],
)
