"""U-TUNIFY: typer::unify::Typer::unify (whole; the recursive calls as the stub unify_sub) — C03."""
import re
from vlib.gen import Unit, Fn, Adt, Raw

U = "crates/compiler/src/typer/unify.rs"
VC = (re.compile(r"\.clone\(\)"), ".vclone()", "*")


def snap():
    n = [0]

    def f(mt):
        """a ghost snapshot `__uN` of the set of accepted pairs in front of the N-th `for .. zip ..` loop (textual order) — proof-only"""
        k = n[0]
        n[0] += 1
        return f"let ghost __u{k} = self.unified(); " + mt.group(0)
    return f


def loops(k, header, kw):
    mt = re.search(r"while\s+(__zk\d+)\s*<\s*(\w+)\.len\(\)\s*&&\s*__zk\d+\s*<\s*(\w+)\.len\(\)", header)
    if not mt:
        return None
    i, a, b = mt.group(1), mt.group(2), mt.group(3)
    n = i[4:]
    return (f"invariant {i} <= {a}.len(), {i} <= {b}.len(), diagnostics.n() >= old(diagnostics).n(), __u{n}.subset_of(self.unified()),\n"
            f"  forall|j: int| 0 <= j < {i} ==> self.unified().contains((#[trigger] {a}@[j], {b}@[j])),\n decreases {a}.len() - {i},")


UNIT = Unit(
    name="U-TUNIFY",
    properties=["C03"],
    rules=["attrs", "fmtmsg", ("strip", "tast::"), "for_zip", "box_as_ref"],
    describe="typer::unify::Typer::unify (whole): the unifier answers `true` only when the two normal forms can, at this level, be the same type — the same head constructor, the "
             "same enum / struct / trait / type-parameter name, the same number of tuple components / parameters / type arguments, array lengths that agree (or the builtins' "
             "wildcard), and EVERY pair of corresponding components (tuple items, parameters AND result, element types, the head and the arguments of an application) accepted "
             "by a recursive call; an inference variable goes with anything (it is bound, after the occurs check); and every `false` comes with a diagnostic",
    trusted=["the recursive calls are the stub unify_sub (induction hypothesis: success recorded in the ghost set unified(), failure reported); Typer::norm is a stub (uninterpreted "
             "normed); ena's union-find (unify_var_var / unify_var_value) are stubs bind_var_var / bind_var_value; occurs carries U-OCCURS' reporting clause; that binding a "
             "variable is sound is ena's business; termination is not claimed (the table is outside)"],
    items=[
        Adt(file="crates/compiler/src/tast.rs", kw="enum", name="Ty", rules=["attrs"]),
        Raw(path="contracts/tunify.shim.rs"),
        Fn(file=U, name="unify", container="Typer", ret="ok", attrs="#[verifier::loop_isolation(false)]",
           pre_rewrites=[(re.compile(r"for \(\w+, \w+\) in \w+\.iter\(\)\.zip\("), snap(), "*"), (re.compile(r"self\.unify\("), "self.unify_sub(", "*"),
                         (re.compile(r"self\.uni\.unify_var_var\(\*(\w+), \*(\w+)\)\.is_err\(\)"), r"self.bind_var_var(*\1, *\2)", "*"),
                         (re.compile(r"self\.uni\.unify_var_value\(\*(\w+), Some\((\w+)\.clone\(\)\)\)\.is_err\(\)"), r"self.bind_var_value(*\1, \2)", "*"),
                         (re.compile(r"diagnostics\.push\(Diagnostic::new\(\s*Stage::Typer,\s*Severity::Error,\s*((?:[^()]|\((?:[^()]|\([^()]*\))*\))*?),?\s*\)\);"), r"push_error(diagnostics, \1);", "*"),
                         (re.compile(r"tast::ARRAY_WILDCARD_LEN"), "ARRAY_WILDCARD_LEN", "*"),
                         (re.compile(r"\bif (n1|t1|name) != (n2|t2|name2) \{"), r"if string_ne(\1, \2) {", "*")],
           rewrites=[VC],
           obligation="`true` only for types that can be the same at this level with every pair of components accepted; every `false` is reported",
           contract="ensures final(diagnostics).n() >= old(diagnostics).n(), !ok ==> final(diagnostics).n() > old(diagnostics).n(),\n"
                    "  ok ==> exists|ln: Ty, rn: Ty| #![trigger normed(*l, ln), normed(*r, rn)] normed(*l, ln) && normed(*r, rn) && level_ok(ln, rn, final(self).unified()),",
           ghost=[("        true\n    }", "line-before", "proof { assert(level_ok(l_norm, r_norm, self.unified())); }")],
           loop_fn=loops),
    ],
)
