"""U-ENTRYNAME: go::compile::compile_fn, the Go name of a top-level function (fragment) — C19, C02."""
import copy
import re
from vlib.gen import Unit, Fn, Adt, Raw
from units.u_goident import UNIT as GOIDENT

GC = "crates/compiler/src/go/compile.rs"
go_ident = copy.copy([it for it in GOIDENT.items if isinstance(it, Fn) and it.name == "go_ident"][0])
go_ident.contract_only = True

UNIT = Unit(
    name="U-ENTRYNAME",
    properties=["C19", "C02"],
    rules=["attrs"],
    describe="go::compile::compile_fn, the name a top-level function is emitted under: `main0` — the function Go's `main` calls — exactly for the program's entry "
             "function (global name `main`: the root package is always `Main`, whose functions are unqualified), go_ident(name) for every other function; and "
             "since go_ident never answers `main0` (U-GOIDENT: it is reserved), exactly one function of a program is called `main0`",
    trusted=["FRAGMENT fn_go_name: the two statements of compile_fn that compute `is_entry` and `patched_name`; `f.name` is the parameter `fname`",
             "go_ident appears with the contract U-GOIDENT proves (contract-only); `a == \"lit\"` on a String is the shim string_is; `\"main0\".to_string()` is str_to_string",
             "that global function names are unique before this point (name resolution) and that the entry is named `main` (separate::link_cores tests `f.name == \"main\"`; "
             "packages::discover requires the root package to be `Main`) are not part of the unit"],
    items=[
        Raw(path="contracts/goident.shim.rs"),
        go_ident,
        Raw(text='#[verifier::external_body] pub fn string_is(a: &String, lit: &str) -> (r: bool) ensures r == (a@ == lit@) { unimplemented!() }          // `a == "lit"`\n'
                 '#[verifier::external_body] pub fn string_ends_with(a: &String, lit: &str) -> (r: bool) { unimplemented!() }      // String::ends_with (unspecified: any use of it in the entry test is not provable)\n'),
        Fn(file=GC, name="compile_fn", rename="fn_go_name", ret="r",
           cut_from=re.compile(r"let is_entry\b"), cut_before="let body = f.body;", cut_tail="    patched_name",
           sig="fn fn_go_name(fname: &String) -> String",
           rewrites=[(re.compile(r"\bf\.name == (\"[^\"]*\")"), r"string_is(fname, \1)", "*"), (re.compile(r"\bf\.name\.ends_with\((\"[^\"]*\")\)"), r"string_ends_with(fname, \1)", "*"),
                     (re.compile(r"(\"[^\"]*\")\.to_string\(\)"), r"str_to_string(\1)", "*"), ("go_ident(&f.name)", "go_ident(fname.as_str())", "*")],
           obligation="`main0` exactly for the function whose global name is `main`; go_ident(name) — never `main0` — for every other function",
           contract="ensures (r@ == \"main0\"@) == (fname@ == \"main\"@), fname@ != \"main\"@ ==> (legal_go_ident(r@) && !go_reserved(r@)),",
           ghost=[("@exit", "", "proof { reveal_strlit(\"main0\"); reveal_strlit(\"main\"); }")] if False else []),
    ],
)
