"""U-TYGATE: name_resolution::NameResolution::{lower_enum_def, lower_struct_def, lower_trait_def, lower_extern_go, lower_extern_builtin} (whole) — C16:
every type written in a definition's signature is lowered through lower_type_expr, the function that applies the import gate."""
import re
from vlib.gen import Unit, Fn, Adt, Raw

NR = "crates/compiler/src/typer/name_resolution.rs"
AST = "crates/ast/src/ast.rs"
HIR = "crates/compiler/src/hir.rs"
NAMES = ["TraitDef", "TraitMethodSignature", "EnumDef", "StructDef", "ExternGo", "ExternBuiltin"]


def ren(prefix):
    out = [(re.compile(r"\b(?<!Ast)(?<!Hir)TypeExpr\b"), prefix + "TypeExpr", "*"), (re.compile(r"\b(?<!Ast)(?<!Hir)Attribute\b"), prefix + "Attribute", "*")]
    for n in NAMES:
        out.append((re.compile(r"\b(?<!Ast)(?<!Hir)" + n + r"\b"), prefix + n, "*"))
    return out


ELEM = {"def.method_sigs": ("HirTraitMethodSignature", "sig_ok({r}@[j], #[trigger] {o}@[j], current_package@, imports@)"),
        "def.variants": ("(HirIdent, Vec<HirTypeExpr>)", "variant_ok({r}@[j], #[trigger] {o}@[j], current_package@, imports@)"),
        "def.fields": ("(HirIdent, HirTypeExpr)", "(#[trigger] {o}@[j]).1 == gated({r}@[j].1, current_package@, imports@)"),
        "def.params": ("(HirIdent, HirTypeExpr)", "(#[trigger] {o}@[j]).1 == gated({r}@[j].1, current_package@, imports@)"),
        "sig.params": ("HirTypeExpr", "#[trigger] {o}@[j] == gated({r}@[j], current_package@, imports@)"),
        "tys": ("HirTypeExpr", "#[trigger] {o}@[j] == gated({r}@[j], current_package@, imports@)")}


def typed_vec(mt):
    """the Vec a map+collect loop fills gets its element type written out (needed before the invariant mentions its elements)"""
    recv = re.sub(r"\s+", "", mt.group(3))
    if recv not in ELEM:
        return mt.group(0)
    return f"let mut {mt.group(1)}: Vec<{ELEM[recv][0]}> = Vec::new(); let mut {mt.group(2)}: usize = 0; while {mt.group(2)} < {recv}.len()"


def loops(k, header, kw):
    mt = re.search(r"while (__mi(\d+)) < ([\w.\s]+?)\.len\(\)", header)
    if not mt:
        return None
    i, n, recv = mt.group(1), mt.group(2), re.sub(r"\s+", "", mt.group(3))
    o = f"__mo{n}"
    if recv not in ELEM:
        return None
    return (f"invariant {i} <= {recv}.len(), {o}@.len() == {i},\n  forall|j: int| 0 <= j < {i} ==> " + ELEM[recv][1].format(r=recv, o=o) + f",\ndecreases {recv}.len() - {i},")


COMMON_PRE = [(re.compile(r"def\s*\.attrs\s*\.iter\(\)\s*\.map\(\|a\| a\.into\(\)\)\s*\.collect\(\)"), "lower_attrs(&def.attrs)", "*"),
              (re.compile(r"def\s*\.generics\s*\.iter\(\)\s*\.map\(\|g\| HirIdent::name\(&g\.0\)\)\s*\.collect\(\)"), "lower_generics(&def.generics)", "*")]
COMMON_RW = ren("Hir")[:0] + [
    (re.compile(r"\bast::(\w+)"), r"Ast\1", "*"), (re.compile(r"\bhir::(\w+)"), r"Hir\1", "*"),
    (re.compile(r"let mut (__mo\d+) = Vec::new\(\); let mut (__mi\d+): usize = 0; while \2 < ([\w.\s]+?)\.len\(\)"), typed_vec, "*"),
    (re.compile(r"\(&([\w.]+)\)\.into\(\)"), r"type_expr_into(&\1)", "*"), (re.compile(r"\b(ty|t|p)\.into\(\)"), r"type_expr_into(\1)", "*"),
    (re.compile(r"\b(def\.\w+)\.clone\(\)"), r"string_clone(&\1)", "*"),
    ("type_param_set(&def.generics)", "type_param_set(&def.generics)", "*")]
RULES = ["attrs", "iter_map_collect", "opt_map"]


NO_IMPORTS = "arbitrary::<HashSet<String>>()"


def ghost_imports(mt):
    """a lowering function that is not even GIVEN the package's import set: the contract is then stated for an arbitrary fixed set (`let ghost imports = arbitrary()`)"""
    t = mt.group(0)
    b = t.index("{", t.index(")", t.index("fn ")))
    if re.search(r"\bimports\s*:", t[:b]):
        return t
    return t[:b + 1] + f"\n        let ghost imports: HashSet<String> = {NO_IMPORTS};" + t[b + 1:]


def fn(name, contract, obligation):
    def ctr(sig):
        return contract if re.search(r"\bimports\s*:", sig) else contract.replace("imports@", NO_IMPORTS + "@")
    return Fn(file=NR, name=name, container="NameResolution", ret="r", rules=RULES, attrs="#[verifier::loop_isolation(false)]",
              pre_rewrites=COMMON_PRE + [(re.compile(r"(?s)\A.*\Z"), ghost_imports, 1)], rewrites=COMMON_RW, loop_fn=loops, contract=ctr, obligation=obligation)


UNIT = Unit(
    name="U-TYGATE",
    properties=["C16"],
    rules=RULES,
    describe="name_resolution::NameResolution::{lower_enum_def, lower_struct_def, lower_trait_def, lower_extern_go, lower_extern_builtin} (whole functions): every "
             "type written in the definition — variant payloads, struct fields, trait method parameters and results, extern parameters and results — reaches the HIR "
             "as the result of lower_type_expr for the declaring package and ITS import set, i.e. through the import gate (`package X not imported`); none is "
             "converted by the gate-less `From<&ast::TypeExpr>`",
    trusted=["lower_type_expr is a stub: its result is an uninterpreted function `gated` of (type, package, imports), assumed independent of the type-parameter set; "
             "the gate-less conversion is another uninterpreted function; that lower_type_expr itself applies package_allowed at every qualified name is not part of this unit (U-PKGALLOW has the predicate)",
             "ast / hir definition structs are extracted under the names Ast* / Hir* (one file, no modules); attribute and generics conversion are stubs; full_def_name (U-RESERVED) is a stub",
             "`X.iter().map(|p| E).collect()` is a push loop (rule iter_map_collect), `X.as_ref().map(|t| E)` a match (rule opt_map)"],
    items=[Adt(file=AST, kw="struct", name=n, rules=["attrs"], rewrites=ren("Ast")) for n in NAMES]
        + [Adt(file=HIR, kw="struct", name=n, rules=["attrs"], rewrites=ren("Hir")) for n in NAMES]
        + [Raw(path="contracts/tygate.shim.rs"),
           fn("lower_enum_def", "ensures r.variants@.len() == def.variants@.len(), forall|i: int| 0 <= i < def.variants@.len() ==> variant_ok(def.variants@[i], #[trigger] r.variants@[i], current_package@, imports@),",
              "every payload type of every variant goes through the gate"),
           fn("lower_struct_def", "ensures named_tys_ok(def.fields@, r.fields@, current_package@, imports@),", "every field type goes through the gate"),
           fn("lower_trait_def", "ensures r.method_sigs@.len() == def.method_sigs@.len(), forall|i: int| 0 <= i < def.method_sigs@.len() ==> sig_ok(def.method_sigs@[i], #[trigger] r.method_sigs@[i], current_package@, imports@),",
              "every parameter and result type of every trait method signature goes through the gate"),
           fn("lower_extern_go", "ensures named_tys_ok(def.params@, r.params@, current_package@, imports@), opt_ty_ok(def.ret_ty, r.ret_ty, current_package@, imports@),",
              "parameter and result types of an extern Go function go through the gate"),
           fn("lower_extern_builtin", "ensures named_tys_ok(def.params@, r.params@, current_package@, imports@), opt_ty_ok(def.ret_ty, r.ret_ty, current_package@, imports@),",
              "parameter and result types of an extern builtin go through the gate")],
)
