import re
from vlib.gen import Unit, Fn, Adt, Raw

T = "crates/compiler/src/typer/toplevel.rs"

UNIT = Unit(
    name="U-ORPHAN",
    properties=["C16"],
    rules=["attrs", ("strip", "tast::")],
    describe="typer::toplevel locality tests of the orphan rule: is_local_name / is_local_nominal_type answer true exactly when the package "
             "segment (the text before the first `::`) IS the current package (unqualified names: Main/Builtin only) — for all names and types",
    trusted=["std str::split_once / contains / starts_with / == are modelled by text-level specs (shims str_*)",
             "the orphan check that *uses* these predicates sits inside define_trait_impl (HashMap-heavy) and is not under contract"],
    items=[
        Adt(file="crates/compiler/src/tast.rs", kw="enum", name="Ty", rules=["attrs"]),
        Raw(path="contracts/orphan.shim.rs"),
        Fn(file=T, name="is_local_name", ret="r",
           obligation="a name is local iff its package segment equals the current package",
           # every string operation of the body goes through a text-level shim (optional patterns: whichever occur)
           rewrites=[(re.compile(r'(\b[a-z_]\w*)\.split_once\("::"\)'), r"str_split_once_colons(\1)", "*"),
                     (re.compile(r'(\b[a-z_]\w*)\.contains\("::"\)'), r"str_contains_colons(\1)", "*"),
                     (re.compile(r'(\b[a-z_]\w*)\.starts_with\((\b[a-z_]\w*)\)'), r"str_starts_with(\1, \2)", "*"),
                     (re.compile(r'(\b[a-z_]\w*) == (\b[a-z_]\w*\b|"[^"]*")'), r"str_eq(\1, \2)", "*")],
           contract="ensures r == name_is_local(current_package@, name@),"),
        Fn(file=T, name="is_local_nominal_type", ret="r",
           rewrites=[("is_local_name(current_package, name)", "is_local_name(current_package, string_as_str(name))")],
           contract="ensures r == nominal_is_local(current_package@, *ty),\n decreases *ty,"),
    ],
)
