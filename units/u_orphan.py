import re
from vlib.gen import Unit, Fn, Adt, Raw

T = "crates/compiler/src/typer/toplevel.rs"

UNIT = Unit(
    name="U-ORPHAN",
    properties=["C16"],
    rules=["attrs", ("strip", "tast::")],
    describe="typer::toplevel locality tests of the orphan rule: is_local_name / is_local_nominal_type answer true exactly when the package "
             "segment (the text before the first `::`) IS the current package (unqualified names: Main/Builtin only) — for all names and types; and the two gates of define_trait_impl that use them (orphan rule; one impl per resolved trait and type)",
    trusted=["std str::split_once / contains / starts_with / == are modelled by text-level specs (shims str_*)",
             "FRAGMENT trait_impl_gates: define_trait_impl from the orphan test to the duplicate test (after the trait name has been resolved); the "
             "rest of the function (method checking, the insertion under the same key) is not in this unit; the impl table and diagnostics are shims"],
    items=[
        Adt(file="crates/compiler/src/tast.rs", kw="enum", name="Ty", rules=["attrs"]),
        Adt(file="crates/compiler/src/env.rs", kw="enum", name="InherentImplKey", rules=["attrs", ("strip", "tast::")]),
        Raw(path="contracts/orphan.shim.rs"),
        Fn(file=T, name="is_local_name", ret="r",
           obligation="a name is local iff its package segment equals the current package",
           # every string operation of the body goes through a text-level shim (optional patterns: whichever occur)
           rewrites=[(re.compile(r'(\b[a-z_]\w*)\.split_once\("::"\)'), r"str_split_once_colons(\1)", "*"),
                     (re.compile(r'(\b[a-z_]\w*)\.contains\("::"\)'), r"str_contains_colons(\1)", "*"),
                     (re.compile(r'(\b[a-z_]\w*)\.starts_with\((\b[a-z_]\w*)\)'), r"str_starts_with(\1, \2)", "*"),
                     (re.compile(r'(\b[a-z_]\w*) == (\b[a-z_]\w*\b|"[^"]*")'), r"str_eq(\1, \2)", "*")],
           contract="ensures r == name_is_local(current_package@, name@),"),
        Fn(file=T, name="is_local_nominal_type", ret="r", rules=["attrs", ("strip", "tast::"), "iter_any"],
           # should the body ask `xs.iter().any(..)` (it does not on the pinned tree), the loop gets the weakest annotation: nothing is known about its answer
           loop_fn=lambda k, header, kw: (lambda mt: (f"invariant_except_break !__r{mt.group(2)},\ninvariant {mt.group(1)} <= {mt.group(3)}.len(),\n decreases {mt.group(3)}.len() - {mt.group(1)},") if mt else None)(
               re.search(r"while\s+(__i(\d+))\s*<\s*(\w+)\.len\(\)", header)),
           rewrites=[("is_local_name(current_package, name)", "is_local_name(current_package, string_as_str(name))")],
           contract="ensures r == nominal_is_local(current_package@, *ty),\n decreases *ty,"),
        Fn(file=T, name="define_trait_impl", rename="trait_impl_gates", ret="r", rules=["attrs", ("strip", "tast::"), "fmtmsg"],
           cut_from="let trait_local = is_local_name(&env.package, &trait_name_str);", cut_before="let trait_method_names: HashSet<String>", cut_tail="    true",
           sig="fn trait_impl_gates(env: &PackageTypeEnv, diagnostics: &mut Diagnostics, trait_name_str: String, for_ty: Ty) -> bool",
           rewrites=[(re.compile(r"diagnostics\.push\(Diagnostic::new\(\s*Stage::Typer,\s*Severity::Error,\s*rt_msg\(\),?\s*\)\);"), "push_error(diagnostics, rt_msg());", "*"),
                     (re.compile(r"\breturn;"), "return false;", "*"), (re.compile(r"\.clone\(\)"), ".vclone()", "*"),
                     ("is_local_name(&env.package, &trait_name_str)", "is_local_name(string_as_str(&env.package), string_as_str(&trait_name_str))"),
                     ("is_local_nominal_type(&env.package, &for_ty)", "is_local_nominal_type(string_as_str(&env.package), &for_ty)")],
           obligation="an impl gets past the gates of define_trait_impl only if the trait or the type is local to the package (orphan rule) AND no impl "
                      "for the same (RESOLVED trait name, type) is registered yet (one implementation per trait and type); every refusal is an error diagnostic",
           contract="""ensures r ==> (name_is_local(env.package@, trait_name_str@) || nominal_is_local(env.package@, for_ty)) && !env.cur.trait_env.trait_impls.has(trait_name_str@, for_ty),
            !r ==> final(diagnostics).errors() == old(diagnostics).errors() + 1,"""),
    ],
)
