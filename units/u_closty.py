"""U-CLOSTY: lift::State::ty_contains_closure (whole) — C08."""
import re
from vlib.gen import Unit, Fn, Adt, Raw

L = "crates/compiler/src/lift.rs"


RECVS = ["typs", "params", "args"]


def loops(k, header, kw):
    mt = re.search(r"while (__i(\d+)) < (\w+)\.len\(\)", header)
    if not mt:
        return None
    i, n, recv = mt.group(1), mt.group(2), mt.group(3)
    nm = "self.closure_types.names()"
    return (f"invariant_except_break !__r{n}, !any_holds({nm}, {recv}@, {i} as int),\n"
            f"invariant {i} <= {recv}.len(), forall|j: int| 0 <= j < {recv}@.len() ==> vec_free(#[trigger] {recv}@[j]),\n"
            f"ensures __r{n} == any_holds({nm}, {recv}@, {recv}@.len() as int),\n decreases {recv}.len() - {i},")


def at_break(mt):
    """in front of the early exit of an `any` loop a proof step: the element just found is a witness for the whole list"""
    el, recv, i, n, cond, r = mt.groups()
    nm = "self.closure_types.names()"
    return (f"proof {{ assert(any_holds({nm}, {recv}@, {i} as int + 1) == (any_holds({nm}, {recv}@, {i} as int) || holds({nm}, {recv}@[{i} as int]))); }} "
            f"let {el} = &{recv}[{i}]; if {cond} {{ {r} = true; proof {{ any_holds_at(self.closure_types.names(), {recv}@, {recv}@.len() as int, {i} as int); }} break; }}")


UNIT = Unit(
    name="U-CLOSTY",
    properties=["C08"],
    rules=["attrs", "iter_any"],
    describe="lift::State::ty_contains_closure (whole, recursive): a type is recognised as holding a closure exactly when it is a closure environment struct or has a component "
             "that holds one — tuple elements, array elements, type arguments, a function type's parameters AND ITS RESULT; this is what decides whether a call's result, a "
             "function's return type or a tuple projection keeps the environment type (U-LIFTTY uses it as an uninterpreted predicate)",
    trusted=["stated for types without Vec / Ref element types, where C08's known finding lives (a closure stored there keeps its pre-lifting type)",
             "closure_types is the shim ClosureTypes (the set of registered environment struct names); `X.iter().any(F)` is an index loop with early exit (rule iter_any)"],
    items=[
        Adt(file="crates/compiler/src/tast.rs", kw="enum", name="Ty", rules=["attrs"]),
        Raw(path="contracts/closty.shim.rs"),
        Fn(file=L, name="ty_contains_closure", container="State", as_method_of="State", ret="r", attrs="#[verifier::loop_isolation(false)]\n#[verifier::allow_complex_invariants]",
           obligation="r <=> the type holds a closure environment (any component, a function's result included)",
           contract="requires vec_free(*ty),\n ensures r == holds(self.closure_types.names(), *ty),\n decreases *ty,",
           ghost=[("@entry", "", "proof { reveal_with_fuel(any_holds, 2); match ty { Ty::TTuple { typs } => { all_vec_free_forall(typs@); } Ty::TFunc { params, .. } => { all_vec_free_forall(params@); } "
                                 "Ty::TApp { args, .. } => { all_vec_free_forall(args@); } _ => {} } }")],

           rewrites=[(re.compile(r"let (\w+) = &(\w+)\[(__i(\d+))\]; if (.*?) \{ (__r\4) = true; break; \}"), at_break, "*")],
           loop_fn=loops),
    ],
)
