"""U-GOLIT: go::compile::go_literal_from_primitive (all non-float primitives) and the Prim accessors it relies on."""
import re
from vlib.gen import Unit, Fn, Adt, Raw
from units.u_dcefx import UNIT as DCE

G = "crates/compiler/src/go/compile.rs"
T = "crates/compiler/src/tast.rs"
goast_types = [it for it in DCE.items if isinstance(it, Adt)]
ACC = [("as_bool", "Bool", "bool"), ("as_int8", "Int8", "i8"), ("as_int16", "Int16", "i16"), ("as_int32", "Int32", "i32"), ("as_int64", "Int64", "i64"),
       ("as_uint8", "UInt8", "u8"), ("as_uint16", "UInt16", "u16"), ("as_uint32", "UInt32", "u32"), ("as_uint64", "UInt64", "u64")]

UNIT = Unit(
    name="U-GOLIT",
    properties=["C10"],
    rules=["attrs", ("strip", "goast::"), ("strip", "tast::")],
    describe="go::compile::go_literal_from_primitive and tast's Prim accessors: an integer primitive of any of the eight widths becomes a Go integer "
             "literal whose text is the decimal text of EXACTLY its value (read through the accessor of its own width), a boolean / string "
             "literal keeps its value, each at the Go type of the literal's type",
    trusted=["FRAGMENT: the float tail of go_literal_from_primitive (as_float32 / as_float64 and the final panic!) is replaced by a stub — printing "
             "floats is outside what a contract can state (DESIGN.md §5 notes the `7 / 2` defect there)",
             "`<int>::to_string()` is a shim returning the decimal text of the value (std); tast_ty_to_go_type is a stub (uninterpreted)"],
    items=goast_types + [
        Adt(file="crates/compiler/src/common.rs", kw="enum", name="Prim", rules=["attrs"]),
        Raw(path="contracts/golit.shim.rs"),
    ] + [
        Fn(file=T, name=n, container="Prim", ret="r", obligation=f"Some(v) exactly for Prim::{v} {{ value: v }}",
           contract=f"ensures r == (if let Prim::{v} {{ value }} = *self {{ Some(value) }} else {{ None::<{t}> }}),") for (n, v, t) in ACC
    ] + [
        Fn(file=T, name="as_str", container="Prim", ret="r", rewrites=[("Some(value.as_str())", "Some(string_as_str(value))")],
           contract="ensures (*self matches Prim::String { value } ==> (r matches Some(s) && s@ == value@)), !(*self is String) ==> r is None,"),
        Fn(file=G, name="go_literal_from_primitive", ret="r",
           cut_before="if let Some(v) = value.as_float32() {", cut_tail="    go_float_literal(value, ty)",
           rewrites=[(re.compile(r"\bv\.to_string\(\)"), "v.dec_string()", "*"), ("str_value.to_string()", "str_to_string(str_value)", "*")],
           obligation="integers (all eight widths): decimal text of exactly the value; booleans and strings unchanged; Go type from the literal's type",
           contract="ensures go_lit_ok(*value, *ty, r),"),
    ],
)
