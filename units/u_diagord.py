"""U-DIAGORD: the tail of typer::toplevel::define_trait_impl that reports unimplemented trait methods, as a fragment.

Three loop shapes are recognised on each run (anything else: UNDECIDED):
  A  `for m in <HashSet>.iter()`            -- order = the hash set's iteration order (NOT a function of its contents)
  C  `for m in <HashSet>.difference(&implemented_methods)` -- the same walk, skipping the implemented ones
  B  `for m in trait_def.methods.keys()`    -- order = the trait's declaration order (IndexMap insertion order)
The postcondition is the same: the diagnostics pushed are, in ORDER, one per declared method that is not implemented, where ORDER
must be a function of the program (B: declaration order; A: could only be some canonical order of the set's contents)."""
import re

from vlib.gen import Unit, Fn, Adt, Raw, load_source
from vlib.rsitems import AnchorLost

T = "crates/compiler/src/typer/toplevel.rs"
END = "env.current_mut().trait_env.trait_impls.insert("
RE_A = re.compile(r"for\s+(\w+)\s+in\s+(\w+)\.iter\(\)\s*\{")
RE_B = re.compile(r"for\s+(\w+)\s+in\s+trait_def\.methods\.keys\(\)\s*\{")
RE_C = re.compile(r"for\s+(\w+)\s+in\s+(\w+)\.difference\(&implemented_methods\)\s*\{")
FMT = (re.compile(r'format!\(\s*"[^"]*missing method[^"]*",\s*trait_name_str,\s*for_ty,\s*(\w+)\s*,?\s*\)', re.S), r"fmt_missing(&trait_name_str, &for_ty, \1)", 1)
LOOP = "let __ord = {src}; let mut __fk0: usize = 0; while __fk0 < __ord.len() {{ let {x} = &__ord[__fk0]; __fk0 += 1;"


def fragment():
    src = load_source(T)
    s, b, e = src.find_fn("define_trait_impl")
    body = src.text[s:e]
    if END not in body:
        raise AnchorLost("define_trait_impl: end anchor lost")
    head = body[:body.index(END)]
    # the LAST loop before the impl is inserted is the one that reports missing methods
    cands = ([(m.start(), "A", m) for m in RE_A.finditer(head)] + [(m.start(), "B", m) for m in RE_B.finditer(head)]
             + [(m.start(), "C", m) for m in RE_C.finditer(head)])
    cands = [c for c in cands if "missing method" in head[c[0]:]]
    if not cands:
        raise AnchorLost("define_trait_impl: the loop reporting missing methods has none of the three supported shapes")
    _pos, shape, m = max(cands)
    return shape, m


def item():
    shape, m = fragment()
    x = m.group(1)
    if shape in ("A", "C"):
        setv = m.group(2)
        sig = (f"fn define_trait_impl_missing({setv}: &HashSet<String>, implemented_methods: &HashSet<String>, diagnostics: &mut Diagnostics, "
               "trait_name_str: String, for_ty: Ty)")
        order = f"canonical({setv}@)"
        rw = (m.group(0), LOOP.format(src=f"{setv}.iter_order()", x=x), 1)
        if shape == "C":
            # `A.difference(&B)` walks A in A's iteration order and skips the members of B
            rw = (m.group(0), LOOP.format(src=f"{setv}.iter_order()", x=x) + f" if implemented_methods.contains({x}) {{ continue; }}", 1)
    else:
        sig = ("fn define_trait_impl_missing(trait_def: TraitDef, implemented_methods: &HashSet<String>, diagnostics: &mut Diagnostics, "
               "trait_name_str: String, for_ty: Ty)")
        order = "trait_def.methods.key_seq()"
        rw = (m.group(0), LOOP.format(src="trait_def.methods.keys_vec()", x=x), 1)
    return Fn(file=T, name="define_trait_impl", rename="define_trait_impl_missing", cut_from=m.group(0), sig=sig, cut_before=END, cut_tail="",
              obligation="the `missing method` diagnostics are pushed in an order that is a function of the program: one per declared, "
                         "unimplemented method, in the trait's declaration order",
              rewrites=[rw, FMT],
              contract=f"""ensures final(diagnostics)@ == old(diagnostics)@ + missing_msgs(trait_name_str@, {order}, implemented_methods@, {order}.len() as int),""",
              loops={0: f"""invariant __fk0 <= __ord.len(), views(__ord@) == {order},
                    diagnostics@ == old(diagnostics)@ + missing_msgs(trait_name_str@, {order}, implemented_methods@, __fk0 as int),
                 decreases __ord.len() - __fk0,"""})


C = "crates/compiler/src/typer/check.rs"
UNK_RW = [
    (re.compile(r"(\w+)\.keys\(\)\s*\.cloned\(\)\s*\.collect::<Vec<_>>\(\)"), r"\1.keys_vec()", "*"),
    (re.compile(r"((?:\w+\.)*\w+(?:\(\))?)\.join\((\"[^\"]*\")\)"), r"join_strs(&\1, \2)", "*"),
    (re.compile(r"\b(\w+)\.sort\(\);"), r"sort_strs(&mut \1);", "*"),
    (re.compile(r'format!\(\s*"[^"]*unknown fields[^"]*",\s*name_display,\s*(\w+)\s*,?\s*\)', re.S), r"fmt_unknown(&name_display, &\1)", 1),
]
UNKNOWN = Fn(file=C, name="check_pat_constructor", container="Typer", as_method_of="Typer", rename="check_pat_unknown_fields", ret=None, 
             cut_from="if !field_map.is_empty() {", cut_before="self.push_constraint(Constraint::TypeEqual(ret_ty.clone(), ty.clone()));", cut_tail="",
             sig="fn check_pat_unknown_fields(&mut self, genv: &GenvShim, local_env: &mut LocalEnvShim, field_map: HashMap<String, PatId>, diagnostics: &mut Diagnostics, name_display: String)",
             # `field_map.into_values()` / `.values()`: the map's values in hash order
             pre_rewrites=[(re.compile(r"for (\w+) in field_map\.(?:into_values|values)\(\) \{"), r"let mut __hv = iter_order(&field_map); while __hv.len() > 0 { let \1 = __hv.remove(0);", "*")],
             obligation="the `unknown fields` diagnostic lists the leftover field names in an order that is a function of the names "
                        "(not of the hash map's iteration order)",
             rewrites=UNK_RW, loop_fn=lambda k, header, kw: ("invariant true,\ndecreases __hv@.len()," if "__hv.len()" in header else None),
             contract="""ensures field_map.key_set() =~= Set::<Seq<char>>::empty() ==> final(diagnostics)@ == old(diagnostics)@,
            !(field_map.key_set() =~= Set::<Seq<char>>::empty()) ==> exists|sep: Seq<char>| final(diagnostics)@ == old(diagnostics)@.push(
                unknown_text(name_display@, #[trigger] join_text(canonical(field_map.key_set()), sep))),""")

UNIT = Unit(
    name="U-DIAGORD",
    properties=["C13"],
    # a failed proof refutes determinism only when the extracted loop walks a hash set (shape A / C: stub iter_order); a loop over the
    # declaration order that reports in ANOTHER deterministic order is UNDECIDED, not an alarm
    alarm_only_with=["iter_order("],
    rules=["attrs", ("strip", "tast::"), ("strip", "env::"), ("strip", "super::util::")],
    describe="typer::toplevel::define_trait_impl, the part reporting unimplemented trait methods: the diagnostics are pushed in the trait's "
             "declaration order (a function of the program), one per declared method the impl lacks",
    trusted=["FRAGMENT: everything of define_trait_impl before the reporting loop (resolution, orphan rule, per-method checks) and the final "
             "insertion of the impl are dropped; the fragment's live variables become parameters",
             "HashSet/IndexMap are shims: a HashSet's iteration order is unspecified, an IndexMap's keys() follows its insertion order",
             "the message text is an uninterpreted function of trait and method name (the type's Debug text is dropped)"],
    items=[
        Raw(path="contracts/diagord.shim.rs"),
        Adt(file="crates/compiler/src/env.rs", kw="struct", name="TraitDef", rules=["attrs"]),
    ],
)
UNIT.items = UNIT.items + [item(), UNKNOWN]
