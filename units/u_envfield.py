"""U-ENVFIELD: lift::make_field_name (whole) — C19, C02."""
import re
from vlib.gen import Unit, Fn, Adt, Raw

L = "crates/compiler/src/lift.rs"

UNIT = Unit(
    name="U-ENVFIELD",
    properties=["C19", "C02"],
    rules=["attrs", "opt_unwrap_or_else"],
    describe="lift::make_field_name (whole): the field under which capture number `index` sits in a closure's environment struct is named `<base>_<index>` — the index is part of "
             "the name — and (lemma) two such names are equal only for the same index, so the fields of one environment struct are pairwise different whatever the captured "
             "variables are called (sanitize_env_name is NOT injective: `x` and `x_` both give `x`)",
    trusted=["`format!(\"{}_{}\", base, index)` is read as base, `_`, and the decimal text of the index concatenated; Display of usize: digits only, injective (std, ASSUMED); "
             "sanitize_env_name is a stub with an arbitrary result"],
    items=[
        Raw(path="contracts/envfield.shim.rs"),
        Fn(file=L, name="make_field_name", ret="r",
           rewrites=[(re.compile(r'format!\("\{\}_\{\}", (\w+), (\w+)\)'), r'str_cat(&str_cat(&\1, "_"), string_text(&usize_to_string(\2)))', "*"),
                     (re.compile(r'format!\("\{\}", (\w+)\)'), r"\1", "*"),
                     (re.compile(r'"(\w+)"\.to_string\(\)'), r'str_to_string("\1")', "*")],
           obligation="the name is some base, `_`, the capture's index",
           contract="ensures field_name_ok(r@, index),"),
    ],
)
