"""U-DYNORIGIN: mono::rewrite_expr_types (EToDyn fragment) — C02, C17."""
import re
from vlib.gen import Unit, Fn, Adt, Raw

MO = "crates/compiler/src/mono.rs"

UNIT = Unit(
    name="U-DYNORIGIN",
    properties=["C02", "C17"],
    rules=["attrs"],
    describe="where mono collapses the receiver type of a dyn coercion (`Box[int32]` -> `Box__int32`) it records, under the collapsed type, the type the impl was "
             "written for — the table U-DYNIMPL's wrappers read to name the impl function",
    trusted=["FRAGMENT todyn_for_ty: the EToDyn arm of mono::rewrite_expr_types up to the construction of the result; TypeMono::collapse_type_apps is a stub (a "
             "deterministic function of the type that leaves the table alone); `&'a mut GlobalMonoEnv` is an owned field; `a != b` on Ty is the stub ty_ne; "
             "IndexMap<Ty, Ty> is the shim TyMap. NOT covered: two different source types that collapse to one type (instance-name injectivity, C07)",
             "the Go back end reads the table of the SAME environment (GlobalGoEnv.liftenv.monoenv): not part of this unit"],
    items=[
        Raw(path="contracts/dynorigin.shim.rs"),
        Fn(file=MO, name="rewrite_expr_types", rename="todyn_for_ty", ret="r", rules=["attrs"],
           cut_from="let collapsed_for_ty = m.collapse_type_apps(&for_ty);", cut_before="MonoExpr::EToDyn {\n                trait_name,\n                for_ty: collapsed_for_ty,",
           cut_tail="    collapsed_for_ty",
           sig="fn todyn_for_ty(m: &mut TypeMono, for_ty: Ty) -> Ty",
           rewrites=[("collapsed_for_ty != for_ty", "ty_ne(&collapsed_for_ty, &for_ty)", "*"), ("for_ty != collapsed_for_ty", "ty_ne(&for_ty, &collapsed_for_ty)", "*"),
                     # a test on the SHAPE of a type (`matches!(t, Ty::TApp { .. })`) is an uninterpreted predicate of the type here
                     (re.compile(r"matches!\(\s*&?(\w+),\s*Ty::(\w+)\s*(?:\{ \.\. \}|\(\.\.\))?\s*\)"), r'ty_has_shape(&\1, "\2")', "*"), (re.compile(r"\b(\w+)\.clone\(\)"), r"ty_clone(&\1)", "*")],
           obligation="the coercion carries the collapsed receiver type, and afterwards the table gives, for that type, the type the impl was written for (unless "
                      "nothing was collapsed and an entry of that key exists already: a name collision, C07)",
           contract="ensures r == collapse_of(for_ty),\n"
                    "  origin(final(m).monoenv.dyn_impl_tys@, r) == for_ty || (r == for_ty && old(m).monoenv.dyn_impl_tys@.dom().contains(r)),\n"
                    "  forall|k: Ty| k != r ==> origin(final(m).monoenv.dyn_impl_tys@, k) == origin(old(m).monoenv.dyn_impl_tys@, k),"),
    ],
)
