import re
from vlib.gen import Unit, Fn, Adt, Raw

P = "crates/compiler/src/pipeline/packages.rs"

UNIT = Unit(
    name="U-DISCOVER",
    properties=["C13"],
    rules=["attrs", "fmtmsg", "msg_to_string"],
    describe="packages::discover_packages_with_layout under a determinism discipline: every sequence obtained from a hash collection must be "
             "sorted before any order-sensitive use (pop / in-order traversal); the work list that fixes `discovery_order` (and with it the "
             "order of all emitted code) therefore never depends on hash iteration order",
    trusted=["the discipline is conservative: `det` is a ghost flag on sequences that came out of hash collections (shim OVec); sorting sets it, "
             "collecting a hash iterator clears it, order-sensitive operations require it",
             "load_package, the file system and PackageLayout are stubs (arbitrary results)"],
    items=[
        Adt(file=P, kw="struct", name="PackageUnit", rules=["attrs"]),
        Adt(file=P, kw="struct", name="PackageGraph", rules=["attrs"]),
        Raw(path="contracts/discover.shim.rs"),
        Fn(file=P, name="discover_packages_with_layout", ret="r",
           attrs="#[verifier::exec_allows_no_decreases_clause]\n#[verifier::loop_isolation(false)]",
           obligation="the discovery work list is popped only while its order is a function of the inputs (never straight out of a HashSet)",
           rewrites=[("layout: &impl PackageLayout", "layout: &Layout"), ("root_dir: &Path", "root_dir: &PathBuf"),
                     ("entry_path: Option<&Path>", "entry_path: Option<&PathBuf>"), ("entry_ast: Option<ast::File>", "entry_ast: Option<AstFile>"),
                     ("load_package(root_dir, entry_path, entry_ast)?", "(match load_package(root_dir, entry_path, entry_ast) { Ok(v) => v, Err(e) => { return Err(e); } })"),
                     ("load_package(&package_dir, None, None)?", "(match load_package(&package_dir, None, None) { Ok(v) => v, Err(e) => { return Err(e); } })"),
                     ("entry_name != layout.root_package_name()", "string_ne_str(&entry_name, layout.root_package_name())"),
                     ("package.name != package_name", "string_ne(&package.name, &package_name)"),
                     (re.compile(r"let mut (\w+): Vec<String> = ([\w\.]+)\.iter\(\)\.cloned\(\)\.collect\(\);"), r"let mut \1 = OVec::from_set(&\2);", "*"),
                     (re.compile(r"(\w+)\.extend\(([\w\.]+)\.iter\(\)\.cloned\(\)\);"), r"\1.extend_from_set(&\2);", "*"),
                     (re.compile(r"\b(entry_name|declared_name)\.clone\(\)"), r"string_clone(&\1)", "*"),
                     (re.compile(r"\b(entry_package|package)\.name\.clone\(\)"), r"string_clone(&\1.name)", "*"),
                     ("let mut loaded = HashSet::new();", "let mut loaded = HashSet::<String>::new();"),
                     ("let mut packages = HashMap::new();", "let mut packages = HashMap::<String, PackageUnit>::new();"),
                     ("let mut package_dirs = HashMap::new();", "let mut package_dirs = HashMap::<String, PathBuf>::new();"),
                     ],
           contract="",
           loops={0: "invariant queue.det(),"}),
    ],
)
