"""U-ANFREN: anf::anf_renamer::{rename_imm, rename_cexpr, rename_aexpr} (whole; recursive calls as stubs) — C05, C19."""
import re
from vlib.gen import Unit, Fn, Adt, Raw

A = "crates/compiler/src/anf.rs"
MOD = "@nested-mod:anf_renamer"
REN = (re.compile(r"\b(\w+)\.replace\((\"[^\"\\]*\"), (\"[^\"\\]*\")\)"), r"rename_local(\1, \2, \3)", "*")


def derived_ren():
    """`ren`: the spelling rename_imm gives a variable use — read from its `name.replace(A, B)` on every run"""
    from vlib import gen
    from vlib.rsitems import AnchorLost
    src = gen.load_source(A)
    s0, b0, e0 = src.find_fn("rename_imm", "@nested")
    hits = re.findall(r"\bname\.replace\((\"[^\"\\]*\"), (\"[^\"\\]*\")\)", src.text[b0:e0])
    if len(hits) != 1:
        raise AnchorLost(f"rename_imm: {len(hits)} `name.replace(A, B)`, expected 1")
    a, b = hits[0]
    return ("// DERIVED from anf_renamer::rename_imm on every run: how a variable USE is spelled\n"
            f"pub open spec fn ren(name: Seq<char>) -> Seq<char> {{ ren2(name, {a}@, {b}@) }}\n")



def arms_loop(mt):
    """`arms.into_iter().map(|arm| anf::Arm { lhs: rename_imm(arm.lhs), body: rename_aexpr(arm.body) }).collect()` -> a front-to-back loop that builds the same vector (std's map / collect)"""
    body = mt.group(1)
    return ("{ let mut __src = arms; let ghost __a0 = __src@; let mut __out: Vec<Arm> = Vec::new(); "
            "while __src.len() > 0 invariant __out@.len() + __src@.len() == __a0.len(), forall|j: int| 0 <= j < __src@.len() ==> __src@[j] == __a0[__out@.len() + j], "
            "forall|j: int| 0 <= j < __out@.len() ==> imm_renamed(__a0[j].lhs, (#[trigger] __out@[j]).lhs) && renamed_a(__a0[j].body, __out@[j].body), decreases __src@.len(), "
            "{ let arm = __src.remove(0); let __n = " + body + "; __out.push(__n); } __out }")


UNIT = Unit(
    name="U-ANFREN",
    properties=["C05", "C19"],
    rules=["attrs", ("strip", "anf::"), "opt_map"],
    describe="anf::anf_renamer::{rename_imm, rename_cexpr, rename_aexpr} (whole), the pass that turns `hint/idx` into `hint__idx` before Go is emitted: EVERY occurrence of a local — "
             "the binder of a let, and a variable in every position an immediate can stand in (arguments, items, scrutinee, arm patterns, condition, operands, callee, receiver, "
             "closure of `go`, projected tuple, coerced value) — is spelled by ONE function of its name, and every sub-expression (arm bodies, default, branches, loop condition and "
             "body, let value and body) goes through the renamer; nothing else changes. A use spelled differently from its binder would be an unbound Go variable",
    trusted=["the recursive calls are stubs (renamed_a / renamed_c, uninterpreted: which sub-expression the call was made on); `name.replace(A, B)` is the stub rename_local "
             "(an uninterpreted function of the name and the two literals; `ren` is the one rename_imm uses); `v.into_iter().map(rename_imm).collect()` is the stub map_rename_imm (every item through rename_imm, in order); the arms' "
             "`into_iter().map(|arm| ..).collect()` is read as a front-to-back loop; Strings are compared by their text (string_ext); rename_fn's parameter list "
             "(`.map(|(n, t)| (n.replace(..), t))`) is not in the unit"],
    items=[
        Adt(file="crates/compiler/src/common.rs", kw="enum", name="Constructor", rules=["attrs"]),
        Adt(file=A, kw="enum", name="ImmExpr", rules=["attrs"]),
        Adt(file=A, kw="enum", name="CExpr", rules=["attrs"]),
        Adt(file=A, kw="enum", name="AExpr", rules=["attrs"]),
        Adt(file=A, kw="struct", name="Arm", rules=["attrs"]),
        Adt(file="crates/common-defs/src/lib.rs", kw="enum", name="UnaryOp", rules=["attrs"]),
        Adt(file="crates/common-defs/src/lib.rs", kw="enum", name="BinaryOp", rules=["attrs"]),
        Raw(text=derived_ren, item="crates/compiler/src/anf.rs::anf_renamer::rename_imm spelling of a use (ren)"),
        Raw(path="contracts/anfren.shim.rs"),
        Fn(file=A, name="rename_imm", container="@nested", drop_self_impl=True, ret="r", rewrites=[REN],
           obligation="a variable is spelled by ren; constants untouched",
           contract="ensures imm_renamed(imm, r),"),
        Fn(file=A, name="rename_cexpr", container="@nested", drop_self_impl=True, ret="r", attrs="#[verifier::loop_isolation(false)]",
           pre_rewrites=[(re.compile(r"\b(\w+)\.into_iter\(\)\.map\(rename_imm\)\.collect\(\)"), r"map_rename_imm(\1)", "*"),
                         (re.compile(r"arms\s*\.into_iter\(\)\s*\.map\(\|arm\| (anf::Arm \{.*?\})\)\s*\.collect\(\)", re.S), arms_loop, 1),
                         (re.compile(r"\brename_aexpr\("), "rename_aexpr_sub(", "*")],
           obligation="same form; every immediate through rename_imm, every sub-expression through the renamer; nothing else changes",
           contract="ensures ren_c_level(e, r),"),
        Fn(file=A, name="rename_aexpr", container="@nested", drop_self_impl=True, ret="r", rewrites=[REN],
           pre_rewrites=[(re.compile(r"\brename_aexpr\("), "rename_aexpr_sub(", "*"), (re.compile(r"\brename_cexpr\("), "rename_cexpr_sub(", "*"), ("fn rename_aexpr_sub(e:", "fn rename_aexpr(e:", 1)],
           obligation="a let's binder is spelled by the same function as the uses; value and body go through the renamer",
           contract="ensures ren_a_level(e, r),"),
    ],
)
