"""U-ARRSET: Typer::infer_call_expr, the result type of a call by name (fragments: both twin sites) — C02 / C03."""
import re
from vlib.gen import Unit, Fn, Adt, Raw
from units.u_annot import UNIT as ANNOT

C = "crates/compiler/src/typer/check.rs"
base = [it for it in ANNOT.items if isinstance(it, Adt)] + [Raw(path="contracts/numarms.shim.rs"), Raw(path="contracts/arrset.shim.rs")]
START = r'let ret_ty = if name\.as_str\(\) == "ref" && args_tast\.len\(\) == 1 \{'
RW = [(re.compile(r'\bname\.as_str\(\) == ("[a-z_]+")'), r"str_eq(name, \1)", "*"),
      (re.compile(r"args_tast\s*\.first\(\)\s*\.map\(\|arg\| arg\.get_ty\(\)\)\s*\.unwrap_or_else\(\|\| \{\s*super::util::push_ice\(\s*diagnostics,\s*\"[^\"]*\",\s*\);\s*self\.fresh_ty_var\(\)\s*\}\)", re.S),
       "(if args_tast.len() > 0 { expr_get_ty(&args_tast[0]) } else { push_ice_msg(diagnostics); self.fresh_ty_var() })", "*"),
      (re.compile(r"args_tast\[(\d+)\]\.get_ty\(\)"), r"expr_get_ty(&args_tast[\1])", "*")]
CONTRACT = ("ensures (name@ == \"array_set\"@ && args_tast@.len() == 3) ==> r == ty_of(args_tast@[0]),\n"
            "        (name@ == \"ref\"@ && args_tast@.len() == 1) ==> (r matches Ty::TRef { elem } && *elem == ty_of(args_tast@[0])),")


def site(n, pat):
    return Fn(file=C, name="infer_call_expr", container="Typer", as_method_of="Typer", rename=f"call_ret_ty_{n}", ret="r",
              rules=["attrs", ("strip", "tast::"), ("strip", "hir::")],
              cut_from=re.compile(pat, re.S), cut_before="let call_site_func_ty = tast::Ty::TFunc {", cut_tail="    ret_ty",
              sig=f"pub fn call_ret_ty_{n}(&mut self, name: &String, args_tast: &Vec<Expr>, diagnostics: &mut Diagnostics) -> Ty",
              rewrites=RW,
              obligation="the result of array_set(a, i, v) has the type — and so the length — of its array argument (the declared result type carries the wildcard "
                         "length, which nothing would ever replace); the result of ref(x) is a reference to the type of x",
              contract=CONTRACT)


UNIT = Unit(
    name="U-ARRSET",
    properties=["C02", "C03"],
    rules=["attrs", ("strip", "tast::")],
    describe="Typer::infer_call_expr (fragments: the `let ret_ty = ..` statement at both places a call by name is typed): a call of array_set with three arguments "
             "is given the type of its array argument as its result — otherwise `let b = array_set(a, 0, 5)` types b as an array of length usize::MAX and the "
             "emitted Go declares `[18446744073709551615]int32` and calls an undeclared helper; a call of ref with one argument gets Ref of the argument's type",
    trusted=["FRAGMENTS of one function; the arguments have been checked already (ty_of: the type the checker assigned, uninterpreted); fresh_ty_var / push_ice are stubs",
             "that unification then propagates this type is not part of the unit"],
    items=base + [
        site(1, START + r"(?=.*" + START + ")"),
        site(2, START + r"(?!.*" + START + ")"),
    ],
)
