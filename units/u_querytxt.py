"""U-QUERYTXT: query::{is_ident_char, is_path_char, ident_prefix_at_offset, path_segments_at_offset, strip_namespace_member} — C20 (no panic on any text / offset)."""
import re
from vlib.gen import Unit, Fn, Raw

Q = "crates/compiler/src/query.rs"


def byte_ranges(mt):
    """`matches!(b, b'a'..=b'z' | .. | b'_')` on a byte -> the disjunction of the range / equality tests it means"""
    alts = [a.strip() for a in mt.group(2).split("|")]
    out = []
    for a in alts:
        m = re.fullmatch(r"b'(.)'\.\.=b'(.)'", a)
        if m:
            out.append(f"({ord(m.group(1))}u8 <= {mt.group(1)} && {mt.group(1)} <= {ord(m.group(2))}u8)")
        else:
            m = re.fullmatch(r"b'(.)'", a)
            if not m:
                raise ValueError("byte pattern " + a)
            out.append(f"{mt.group(1)} == {ord(m.group(1))}u8")
    return "(" + " || ".join(out) + ")"


MATCHES = (re.compile(r"matches!\((\w+), ((?:b'.'(?:\.\.=b'.')?\s*\|?\s*)+)\)"), byte_ranges, 1)
OFF = [("u32::from(offset) as usize", "text_size_to_u32(offset) as usize", "*"), ("src.as_bytes()", "str_as_bytes(src)", "*"), ("src.len()", "str_len(src)", "*")]


def loops(k, header, kw):
    if "bytes[start - 1]" in header:
        return ("invariant start <= idx, idx < bytes@.len(), bytes@ == bytes_of(src), forall|j: int| start <= j <= idx ==> path_byte(#[trigger] bytes@[j]),\ndecreases start,")
    if "bytes[end]" in header:
        return ("invariant start <= idx < end <= bytes@.len(), bytes@ == bytes_of(src), path_byte(bytes@[start as int]), forall|j: int| idx <= j < end ==> path_byte(#[trigger] bytes@[j]),\ndecreases bytes@.len() - end,")
    return None


UNIT = Unit(
    name="U-QUERYTXT",
    properties=["C20"],
    rules=["attrs"],
    describe="the byte-level helpers the hover / completion queries use to find the word under the cursor: for EVERY text and EVERY offset they return "
             "without panicking — every byte index is in range and every string slice starts and ends on a char boundary (the run of identifier / path "
             "bytes around the cursor is ASCII, so its ends are boundaries); ident_prefix_at_offset returns the maximal run of identifier bytes that ends "
             "at the offset (None when the offset lies outside the text or inside a multi-byte character)",
    trusted=["&str is its UTF-8 bytes (bytes_of); `&s[a..b]` is the stub str_slice whose PRECONDITION is std's no-panic condition (a <= b <= len, both "
             "char boundaries); `s.get(a..b)` never panics; `starts_with` implies that the prefix length is a char boundary (std)",
             "a &str is valid UTF-8, used in one form: a continuation byte never directly follows an ASCII byte (axiom_utf8_after_ascii)",
             "TextSize is a u32 byte offset; the tail of path_segments_at_offset (trim_matches, split, filter, collect) is the stub segments_of",
             "FRAGMENT hover_token: hover_type from the computation of the offset to the choice of the token; the parse in front of it and the type lookup "
             "behind it are not part of the unit; that the tree spans exactly the text is its precondition (C12, U-TREE); LineIndex::offset may return any offset",
             "NOT claimed: everything else in C20 — that parsing / lowering / type checking of erroneous text return normally, and that what is offered "
             "agrees with the compiler"],
    items=[
        Raw(path="contracts/querytxt.shim.rs"),
        Raw(text="pub open spec fn text_size_to_u32_spec(t: TextSize) -> u32 { t.raw }\n"),
        Fn(file=Q, name="is_ident_char", ret="r", pre_rewrites=[MATCHES], obligation="true exactly for ASCII letters, digits and `_`", contract="ensures r == ident_byte(b),"),
        Fn(file=Q, name="is_path_char", ret="r", pre_rewrites=[MATCHES], obligation="true exactly for identifier bytes and `:`", contract="ensures r == path_byte(b),"),
        Fn(file=Q, name="ident_prefix_at_offset", ret="r", attrs="#[verifier::loop_isolation(false)]",
           rewrites=OFF + [(re.compile(r"\bsrc\.get\(start\.\.end\)\?\.to_string\(\)"), "(match str_get(src, start, end) { Some(__s) => str_to_string(__s), None => { return None; } })", "*"),
                           (re.compile(r"&?\bsrc\[start\.\.end\]\.to_string\(\)"), "str_to_string(str_slice(src, start, end))", "*"),
                           ("TextSize::from(start as u32)", "text_size_from_u32(start as u32)")],
           obligation="never panics; Some((start, prefix)) only with start <= offset <= length of the text, prefix = the bytes from start to offset, all of them "
                      "identifier bytes, and the byte in front of start (if any) not an identifier byte",
           contract="ensures r is Some ==> ((r->0).0.raw <= offset.raw && offset.raw <= bytes_of(src).len()\n"
                    "            && string_bytes((r->0).1) == bytes_of(src).subrange((r->0).0.raw as int, offset.raw as int)\n"
                    "            && (forall|j: int| (r->0).0.raw <= j < offset.raw ==> ident_byte(#[trigger] bytes_of(src)[j]))\n"
                    "            && boundary(src, offset.raw as int)\n"
                    "            && ((r->0).0.raw > 0 ==> !ident_byte(bytes_of(src)[(r->0).0.raw - 1]))),\n"
                    "        offset.raw > bytes_of(src).len() ==> r is None,",
           loop_fn=lambda k, header, kw: ("invariant idx <= bytes@.len(), idx <= offset.raw, bytes@ == bytes_of(src), forall|j: int| idx <= j < offset.raw ==> ident_byte(#[trigger] bytes@[j]),\n"
                                          "decreases idx,")),
        Fn(file=Q, name="path_segments_at_offset", ret="r", attrs="#[verifier::loop_isolation(false)]",
           cut_before="let trimmed = slice.trim_matches(':');", cut_tail="    segments_of(slice)",
           rewrites=OFF + [("let slice = &src[start..end];", "let slice = str_slice(src, start, end);")],
           obligation="never panics: every byte index is inside the text and the slice taken around the cursor starts and ends on a char boundary (it is a run "
                      "of ASCII path bytes); a result has at least one segment",
           contract="ensures r is Some ==> r->0@.len() > 0,",
           ghost=[("let slice = str_slice(src, start, end);", "line-before", "proof { assert(path_byte(bytes@[start as int])); assert(path_byte(bytes@[end - 1])); if end < bytes@.len() { axiom_utf8_after_ascii(src, end as int); } }")],
           loop_fn=loops),
        Fn(file=Q, name="strip_namespace_member", ret="r",
           rewrites=[(re.compile(r"\bfull\.starts_with\(ns_prefix\)"), "str_starts_with(full, ns_prefix)", "*"), ("&full[ns_prefix.len()..]", "str_slice(full, str_len(ns_prefix), str_len(full))"),
                     ("rest.is_empty()", "str_is_empty(rest)"), ('rest.contains("::")', "str_contains_colons(rest)")],
           obligation="never panics (the slice starts at the end of a matched prefix, a char boundary); Some only for a non-empty rest of a name that starts with the prefix",
           contract="ensures r is Some ==> (bytes_of(ns_prefix).len() < bytes_of(full).len() && bytes_of(r->0) == bytes_of(full).subrange(bytes_of(ns_prefix).len() as int, bytes_of(full).len() as int)),"),
        Fn(file=Q, name="hover_type", rename="hover_token", ret="r", rules=["attrs", "msg_to_string", "ok_or_else_q"],
           cut_from="let line_index = line_index::LineIndex::new(src);", cut_before="let range = token.as_ref().map(|tok| tok.text_range());", cut_tail="    Ok(token)",
           sig="fn hover_token(cst: &CstFile, src: &str, line: u32, col: u32) -> Result<Option<SyntaxToken>, String>",
           rewrites=[("line_index::LineIndex::new(src)", "line_index_new(src)"), ("line_index::LineCol { line, col }", "LineCol { line, col }"),
                     (re.compile(r"\boffset (>=?) TextSize::of\(src\)"), r"offset.raw \1 text_size_of(src).raw", "*"),
                     ("cst.syntax().token_at_offset(offset)", "token_at_offset(cst, offset)"),
                     (re.compile(r"rowan::TokenAtOffset::"), "TokenAtOffset::", "*"),
                     ("x.kind() == MySyntaxKind::Ident", "token_kind_is_ident(&x)")],
           obligation="never panics: the offset handed to rowan's token_at_offset lies inside the tree (line_index::LineIndex::offset can return an offset past the "
                      "end of the text — the tree spans exactly the text)",
           contract="requires tree_len(cst) == bytes_of(src).len(),"),
        Fn(file=Q, name="dot_completions", rename="dot_prefix", ret="r",
           cut_from="let line_index = line_index::LineIndex::new(src);", cut_before="let result = parser::parse(path, &parse_src);", cut_tail="    Some((offset, dot_offset, parse_src))",
           sig="fn dot_prefix(src: &str, line: u32, col: u32) -> Option<(TextSize, TextSize, String)>",
           rewrites=[("line_index::LineIndex::new(src)", "line_index_new(src)"), ("line_index::LineCol { line, col }", "LineCol { line, col }"),
                     ("prefix_start.checked_sub(TextSize::from(1))?", "(match text_size_checked_sub(prefix_start, 1) { Some(__v) => __v, None => { return None; } })"),
                     ("line_index.offset(LineCol { line, col })?", "(match line_index.offset(LineCol { line, col }) { Some(__v) => __v, None => { return None; } })"),
                     ("ident_prefix_at_offset(src, offset)?", "(match ident_prefix_at_offset(src, offset) { Some(__v) => __v, None => { return None; } })"),
                     ("src.as_bytes().get(u32::from(dot_offset) as usize) != Some(&b'.')", "!byte_at_is(src, text_size_to_u32(dot_offset) as usize, 46u8)"),
                     ("prefix.is_empty()", "string_is_empty(&prefix)"), ("src.to_string()", "str_to_string(src)", "*"),
                     ("u32::from(offset) as usize", "text_size_to_u32(offset) as usize", "*"),
                     (re.compile(r"\b(\w+)\.insert_str\(([^,()]+(?:\([^()]*\))?[^,()]*), COMPLETION_PLACEHOLDER\);"), r"string_insert_str(&mut \1, \2, COMPLETION_PLACEHOLDER);", "*")],
           obligation="never panics: the placeholder is inserted at a char boundary (ident_prefix_at_offset answers None for an offset inside a character or past the "
                      "text); the `.` looked for lies in front of the cursor, inside the text",
           contract="ensures r is Some ==> (r->0).1.raw < (r->0).0.raw && (r->0).0.raw <= bytes_of(src).len(),"),
        Fn(file=Q, name="colon_colon_completions", rename="colon_prefix", ret="r",
           cut_from="let line_index = line_index::LineIndex::new(src);", cut_before="let result = parser::parse(path, &parse_src);", cut_tail="    Some((offset, colon_start, parse_src))",
           sig="fn colon_prefix(src: &str, line: u32, col: u32) -> Option<(TextSize, TextSize, String)>",
           rewrites=[("line_index::LineIndex::new(src)", "line_index_new(src)"), ("line_index::LineCol { line, col }", "LineCol { line, col }"),
                     ("prefix_start.checked_sub(TextSize::from(2))?", "(match text_size_checked_sub(prefix_start, 2) { Some(__v) => __v, None => { return None; } })"),
                     ("line_index.offset(LineCol { line, col })?", "(match line_index.offset(LineCol { line, col }) { Some(__v) => __v, None => { return None; } })"),
                     ("ident_prefix_at_offset(src, offset)?", "(match ident_prefix_at_offset(src, offset) { Some(__v) => __v, None => { return None; } })"),
                     (re.compile(r"src\s*\.as_bytes\(\)\s*\.get\(u32::from\((\w+)\) as usize\.\.u32::from\((\w+)\) as usize\)\s*!= Some\(b(\"[^\"]*\")\)"),
                      r"!bytes_range_is(src, text_size_to_u32(\1) as usize, text_size_to_u32(\2) as usize, \3)", "*"),
                     # `&src[TextRange::new(a, b)]`: slicing a str PANICS off a char boundary
                     (re.compile(r"&src\[(?:rowan::)?TextRange::new\((\w+), (\w+)\)\] != (\"[^\"]*\")"), r"str_differs(str_slice(src, text_size_to_u32(\1) as usize, text_size_to_u32(\2) as usize), \3)", "*"),
                     ("prefix.is_empty()", "string_is_empty(&prefix)", "*"), ("src.to_string()", "str_to_string(src)", "*"),
                     ("u32::from(offset) as usize", "text_size_to_u32(offset) as usize", "*"),
                     (re.compile(r"\b(\w+)\.insert_str\(([^,()]+(?:\([^()]*\))?[^,()]*), COMPLETION_PLACEHOLDER\);"), r"string_insert_str(&mut \1, \2, COMPLETION_PLACEHOLDER);", "*")],
           obligation="never panics: the two bytes in front of the identifier prefix are looked at without slicing the text (they may lie inside a multi-byte character); "
                      "the placeholder is inserted at a char boundary",
           contract="ensures r is Some ==> (r->0).1.raw + 2 <= (r->0).0.raw && (r->0).0.raw <= bytes_of(src).len(),"),
    ],
)
