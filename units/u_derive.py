"""U-DERIVE: derive::{call_to_json, call_to_string, call_function, var_expr, ty_for_ident, concat_parts, ..} — C18."""
import re
from vlib.gen import Unit, Fn, Adt, Raw

D = "crates/compiler/src/derive.rs"
A = "crates/ast/src/ast.rs"
RW = [(re.compile(r"\bast::"), "", "*"), (re.compile(r"\bcommon_defs::"), "", "*"),
      (re.compile(r"\.clone\(\)"), ".vclone()", "*"),
      (re.compile(r"\"([^\"]*)\"\.to_string\(\)"), r'str_to_string("\1")', "*"),
      ("String::new()", "string_new()", "*")]


def const_lit(mt):
    """a `const NAME: &str = "..";` of derive.rs used by name -> its literal, read from the source of the tree under check on every run"""
    import os
    src = open(os.path.join(os.environ.get("VERIF_REPO", "/repo"), D)).read()
    m = re.search(r"const " + mt.group(0) + r": &str = (\"[^\"]*\");", src)
    if not m:
        raise ValueError("constant " + mt.group(0) + " not found in derive.rs")
    return m.group(1)


RW = [(re.compile(r"\b(?:TO_STRING_FN|TO_JSON_FN|SELF_PARAM_NAME|TO_STRING_TRAIT|TO_JSON_TRAIT)\b"), const_lit, "*")] + RW


def adt(kw, name):
    return Adt(file=A, kw=kw, name=name, rules=["attrs", ("strip", "common_defs::")])


# the vector of field patterns (a pure `.iter().map(..).collect()` written inside the struct literal) is bound to a local in front of the literal
HOIST = (re.compile(r"(Expr::EBlock \{.*?fields: )(struct_def\s*\.fields\s*\.iter\(\).*?\.collect\(\))(,)", re.S), r"let __pf: Vec<(AstIdent, Pat)> = \2; \1__pf\3", 1)
def fmt1(mt):
    """`format!("<pre>{}<post>", X)` / `format!("<pre>{}<mid>{}<post>", X, Y)` -> `fmt1("<pre>", &X, "<post>")` / `fmt2(..)`, stubs: the texts of X (and Y) between the literals (`{{` / `}}` unescaped)"""
    tpl = mt.group(1)
    args = [a.strip() for a in mt.group(2).split(",") if a.strip()]
    pieces, cur, i = [], "", 0
    while i < len(tpl):            # left to right: `{{` and `}}` are literal braces, `{}` is a placeholder
        two = tpl[i:i + 2]
        if two in ("{{", "}}"):
            cur += two[0]
            i += 2
        elif two == "{}":
            pieces.append(cur)
            cur = ""
            i += 2
        else:
            cur += tpl[i]
            i += 1
    pieces.append(cur)
    if len(pieces) != len(args) + 1 or len(args) not in (1, 2):
        raise ValueError("format! template / argument mismatch: " + tpl)
    if len(args) == 1:
        return f'fmt1("{pieces[0]}", &{args[0]}, "{pieces[1]}")'
    return f'fmt2("{pieces[0]}", &{args[0]}, "{pieces[1]}", &{args[1]}, "{pieces[2]}")'


FMT1 = (re.compile(r'format!\("((?:[^"\\]|\\.)*)",\s*([\w\.]+(?:,\s*[\w\.]+)?)\)'), fmt1, "*")
# `parts.push(call_to_json(var_expr(x, p), Some(t), p));` -> the two nested results are bound to locals first (same calls, same order), with a ghost copy of the variable expression
BIND_LEAF = (re.compile(r"parts\.push\((call_to_json|call_to_string)\(\s*var_expr\((&?[\w\.]+), attr_ptr\),\s*Some\((&?[\w\.]+)\),\s*attr_ptr,?\s*\)\);"),
             r"let __v = var_expr(\2, attr_ptr); let ghost __gv = __v; let __leaf = \1(__v, Some(\3), attr_ptr); parts.push(__leaf);", "*")
FIELD_OK = "#[trigger] json_field_ok(parts@, struct_def.fields@, i)"


def sj_loops(k, header, kw):
    if "__ix <" in header:
        return ("invariant __ix <= struct_def.fields.len(), parts@.len() == (if __ix == 0 { 1int } else { 3 * __ix }), is_str_lit(parts@[0], \"{\"@),\n"
                f"  forall|i: int| 0 <= i < __ix ==> {FIELD_OK},\n"
                "decreases struct_def.fields.len() - __ix,")
    mt = re.search(r"while\s+(__mi\d+)\s*<", header)
    if mt:
        i = mt.group(1)
        o = i.replace("__mi", "__mo")
        return (f"invariant {i} <= struct_def.fields.len(), {o}@.len() == {i},\n"
                f"  forall|j: int| 0 <= j < {i} ==> (#[trigger] {o}@[j]).0 == struct_def.fields@[j].0 && ({o}@[j].1 matches Pat::PVar {{ name: vn, .. }} && vn == struct_def.fields@[j].0),\n"
                f"decreases struct_def.fields.len() - {i},")
    return None


def fd_loops(k, header, kw):
    if "__fmi0 <" in header:
        return ("invariant __fmi0 <= attrs@.len(), __fmr0 is None, forall|j: int| 0 <= j < __fmi0 ==> !lists(#[trigger] attrs@[j], trait_name@),\n"
                "decreases attrs@.len() - __fmi0,")
    mt = re.search(r"while\s+(__i\d+)\s*<\s*([\w\.]+)\.len\(\)", header)
    if mt:
        i, v = mt.group(1), mt.group(2)
        r = i.replace("__i", "__r")
        return (f"invariant {i} <= {v}.len(), !{r} ==> forall|j: int| 0 <= j < {i} ==> (#[trigger] {v}@[j])@ != trait_name@,\n"
                f"  {r} ==> exists|j: int| 0 <= j < {v}.len() && (#[trigger] {v}@[j])@ == trait_name@,\n"
                f"decreases {v}.len() - {i},")
    return None


def ss_loops(k, header, kw):
    if "__ix <" in header:
        return ("invariant __ix <= struct_def.fields.len(), struct_def.fields.len() > 0,\n"
                "  parts@.len() == (if __ix == struct_def.fields.len() { 3 * __ix } else { 3 * __ix + 1 }), is_str_lit(parts@[0], \"\"@ + struct_def.name.0@ + \" { \"@),\n"
                "  forall|i: int| 0 <= i < __ix ==> #[trigger] string_field_ok(parts@, struct_def.fields@, i),\n"
                "decreases struct_def.fields.len() - __ix,")
    return sj_loops(k, header, kw)


ZIP_ENUM = (re.compile(r"for \(idx, \(binding, field_ty\)\) in bindings\.iter\(\)\.zip\(fields\.iter\(\)\)\.enumerate\(\) \{"),
            "let mut __ix: usize = 0; while __ix < bindings.len() && __ix < fields.len() { let idx = __ix; let binding = &bindings[__ix]; let field_ty = &fields[__ix]; __ix += 1;", 1)
BINDERS = (re.compile(r"\(0\.\.fields\.len\(\)\)\s*\.map\(\|idx\| AstIdent::new\(&format!\(\"__field\{\}\", idx\)\)\)\s*\.collect\(\)"), "field_binders(fields.len())", 1)
FROM2 = (re.compile(r"Path::from_idents\(vec!\[([^,\[\]]+), ([^,\[\]]+)\]\)"), r"path_from_idents2(\1, \2)", 1)


# the arm's body `concat_parts(parts, attr_ptr)`, written inside the Arm literal, is bound to a local in front of the literal (same call)
BIND_BODY = (re.compile(r"(Arm \{\s*pat: Pat::PConstr \{\s*constructor,\s*args,\s*astptr: \*attr_ptr,\s*\},\s*body: )concat_parts\(parts, attr_ptr\)(,\s*\})"),
             r"let __body = concat_parts(parts, attr_ptr);\n\1__body\2", 1)


def ej_loops(k, header, kw):
    if "__ix <" in header:
        return ("invariant __ix <= fields.len(), bindings@.len() == fields.len(), fields.len() > 0,\n"
                "  parts@.len() == (if __ix == 0 { 1int } else { 2 * __ix }), is_str_lit(parts@[0], \"{\\\"tag\\\":\\\"\"@ + variant_name.0@ + \"\\\",\\\"fields\\\":[\"@),\n"
                "  forall|i: int| 0 <= i < __ix ==> #[trigger] json_variant_field_ok(parts@, fields@, i),\n"
                "decreases fields.len() - __ix,")
    mt = re.search(r"while\s+(__mi\d+)\s*<", header)
    if mt:
        i = mt.group(1)
        o = i.replace("__mi", "__mo")
        return (f"invariant {i} <= bindings.len(), {o}@.len() == {i},\n"
                f"  forall|j: int| 0 <= j < {i} ==> (#[trigger] {o}@[j] matches Pat::PVar {{ name, .. }} && name == bindings@[j]),\n"
                f"decreases bindings.len() - {i},")
    return None


def arm_call(fn_name):
    # the closure body is the fragment verified as `fn_name` above; here the closure calls it
    return (re.compile(r"\.map\(\|\(variant_name, fields\)\| \{.*?\n        \}\)\s*\.collect\(\);", re.S),
            f".map(|__vp| {fn_name}(enum_def, &__vp.0, &__vp.1, attr_ptr)).collect();", 1)


def eb_loops(pred):
    def f(k, header, kw):
        mt = re.search(r"while\s+(__mi\d+)\s*<", header)
        if not mt:
            return None
        i = mt.group(1)
        o = i.replace("__mi", "__mo")
        return (f"invariant {i} <= enum_def.variants.len(), {o}@.len() == {i},\n"
                f"  forall|j: int| 0 <= j < {i} ==> {pred}(#[trigger] {o}@[j], enum_def.name, enum_def.variants@[j].0, enum_def.variants@[j].1@),\n"
                f"decreases enum_def.variants.len() - {i},")
    return f


def unsup_loops(k, header, kw):
    """the `.iter().any(..)` loops of the derive_* functions (rule iter_any): no hit so far <=> no unsupported type so far"""
    mt = re.search(r"while\s+(__i\d+)\s*<\s*([\w\.]+)\.len\(\)", header)
    if not mt:
        return None
    i, v = mt.group(1), mt.group(2)
    r = i.replace("__i", "__r")
    if v.endswith("fields"):
        hit = f"no_method_ty((#[trigger] {v}@[j]).1)"
    elif v.endswith("variants"):
        hit = f"(exists|q: int| 0 <= q < (#[trigger] {v}@[j]).1@.len() && no_method_ty(#[trigger] {v}@[j].1@[q]))"
    else:       # the payload types of one variant
        hit = f"no_method_ty(#[trigger] {v}@[j])"
    return (f"invariant {i} <= {v}.len(), !{r} ==> forall|j: int| 0 <= j < {i} ==> !{hit},\n"
            f"  {r} ==> exists|j: int| 0 <= j < {v}.len() && {hit},\n"
            f"decreases {v}.len() - {i},")


def expand_loops(k, header, kw):
    if "__iv.len()" in header:
        return ("invariant __iv@.len() <= items0.len(), __iv@ == items0.subrange(items0.len() - __iv@.len(), items0.len() as int),\n"
                "  (diagnostics.count() > 0) == (exists|i: int| 0 <= i < items0.len() - __iv@.len() && unsupported(#[trigger] items0[i])),\n"
                "  diagnostics.count() == 0 ==> toplevels@.len() == offset(items0, items0.len() - __iv@.len()) "
                "&& forall|i: int| 0 <= i < items0.len() - __iv@.len() ==> #[trigger] placed(items0, toplevels@, i),\n"
                "decreases __iv@.len(),")
    if "__dv.len()" in header:
        return ("invariant __dv@.len() <= di.len(), __dv@ == di.subrange(di.len() - __dv@.len(), di.len() as int), toplevels@.len() == tl1.len() + (di.len() - __dv@.len()),\n"
                "  forall|q: int| 0 <= q < tl1.len() ==> #[trigger] toplevels@[q] == tl1[q],\n"
                "  forall|q: int| 0 <= q < di.len() - __dv@.len() ==> #[trigger] toplevels@[tl1.len() + q] == Item::ImplBlock(di[q]),\n"
                "decreases __dv@.len(),")
    return None


def es_loops(k, header, kw):
    if "__ix <" in header:
        return ("invariant __ix <= fields.len(), bindings@.len() == fields.len(), fields.len() > 0,\n"
                "  parts@.len() == (if __ix == 0 { 1int } else { 2 * __ix }), is_str_lit(parts@[0], \"\"@ + enum_def.name.0@ + \"::\"@ + variant_name.0@ + \"(\"@),\n"
                "  forall|i: int| 0 <= i < __ix ==> #[trigger] string_variant_field_ok(parts@, fields@, i),\n"
                "decreases fields.len() - __ix,")
    return ej_loops(k, header, kw)


UNIT = Unit(
    name="U-DERIVE",
    properties=["C18"],
    rules=["attrs"],
    describe="derive.rs, the leaves and the glue of the generated to_string / to_json bodies: call_to_json renders a field of declared type string "
             "through json_escape_string (quoted and escaped), a bool through bool_to_json, a number by its to_string, unit as `null`, anything else by "
             "its own to_json; call_to_string keeps a string as it is and renders anything else by its own to_string; concat_parts joins the parts, all "
             "of them, once each, in order, with `+`",
    trusted=["the string constants TO_STRING_FN / TO_JSON_FN / .. are replaced by their literals, read from derive.rs on every run",
             "String / AstIdent construction and Clone are shims with their std meaning; MySyntaxNodePtr is opaque",
             "what json_escape_string / bool_to_json / the builtin to_string DO at run time (Go's %q, strconv) is outside: C18's run-time half is not claimed"],
    items=[
        Raw(path="contracts/derive.shim.rs"),
        adt("struct", "AstIdent"), adt("struct", "PathSegment"), adt("struct", "Path"), adt("enum", "TypeExpr"), adt("struct", "ClosureParam"),
        adt("struct", "Attribute"), adt("enum", "Expr"), adt("struct", "Arm"), adt("enum", "Pat"), adt("struct", "StructDef"), adt("struct", "EnumDef"), adt("struct", "Fn"), adt("struct", "ImplBlock"), adt("struct", "TraitMethodSignature"), adt("struct", "TraitDef"), adt("struct", "ExternGo"),
        adt("struct", "ExternType"), adt("struct", "ExternBuiltin"), adt("enum", "Item"), adt("struct", "File"),
        Fn(file=A, name="new", container="AstIdent", as_method_of="AstIdent", ret="r", rewrites=[("name.to_string()", "str_to_string(name)")],
           obligation="the identifier with that text", contract="ensures r.0@ == name@,"),
        Fn(file=A, name="from_ident", container="Path", as_method_of="Path", rewrites=[("vec![PathSegment::new(ident)]", "vec![PathSegment { ident }]")], ret="r",
           obligation="a path of exactly one segment, the identifier", contract="ensures r.segments@.len() == 1, r.segments@[0].ident == ident,"),
        Fn(file=D, name="var_expr", ret="r", rewrites=RW, obligation="the variable / global of that name",
           contract="ensures r matches Expr::EPath { path, .. } && ident_path(path, name.0@),"),
        Fn(file=D, name="call_function", ret="r", rewrites=RW, obligation="a call of the global function `name` with exactly these arguments",
           contract="ensures r matches Expr::ECall { func, args: a, .. } && a == args && (*func matches Expr::EPath { path, .. } && ident_path(path, name@)),"),
        Fn(file=D, name="ty_for_ident", ret="r", rewrites=RW, obligation="the type named by the identifier",
           contract="ensures r matches TypeExpr::TCon { path } && ident_path(path, name.0@),"),
        Fn(file=D, name="concat_parts", ret="r", attrs="#[verifier::loop_isolation(false)]",
           rewrites=RW + [("let mut iter = parts.into_iter();", "let ghost p0 = parts@; let mut iter = parts;"),
                          (re.compile(r"iter\.next\(\)\.unwrap_or\((Expr::EString \{.*?\})\);", re.S), r"(if iter.len() > 0 { iter.remove(0) } else { \1 });", 1),
                          (re.compile(r"\biter\.next\(\);"), "if iter.len() > 0 { iter.remove(0); }", "*"),
                          ("for part in iter {", "while iter.len() > 0 { let part = iter.remove(0);")],
           obligation="all parts, each once, in order, joined with `+` (left-nested); the empty string when there is none",
           contract="ensures chain(r, parts@),",
           ghost=[("@after-loop:iter\\.len", "", "proof { assert(p0.take(p0.len() as int) =~= p0); }"),
                  ("@loop:0:end", "", "proof { let k = p0.len() - iter@.len(); assert(p0.take(k as int).drop_last() =~= p0.take(k - 1)); assert(p0.take(k as int).last() == p0[k - 1]); }")],
           loop_fn=lambda k, header, kw: ("invariant iter@.len() <= p0.len(), p0.len() > 0 ==> iter@.len() < p0.len(), iter@ == p0.subrange(p0.len() - iter@.len(), p0.len() as int),\n"
                                          "  chain(acc, p0.take(p0.len() - iter@.len())),\n"
                                          "decreases iter@.len(),") if "iter.len()" in header else None),
        Fn(file=D, name="builtin_to_string_fn", ret="r", rewrites=RW, optional=True,
           obligation="Some(name) only for a primitive type, and then the name of ITS runtime function `<type>_to_string`; None at most for int32 among the primitive types",
           contract="ensures r is Some ==> prim_to_string_fn(*ty) == Some(r->0@),\n        r is None ==> (prim_to_string_fn(*ty) is None || *ty is TInt32),"),
        Fn(file=D, name="call_to_string_method", ret="r", rewrites=RW, optional=True, obligation="`value.to_string()`",
           contract="ensures is_method_call(r, value, \"to_string\"@),"),
        Fn(file=D, name="call_to_string", ret="r", rules=["attrs", "opt_and_then"],
           rewrites=RW + [(re.compile(r"matches!\(ty, Some\(TypeExpr::(\w+)\)\)"), r"(match ty { Some(TypeExpr::\1) => true, _ => false })", "*")],
           obligation="a string is itself; a value of another primitive type is rendered by an operation that exists for that type; anything else by its own to_string",
           contract="ensures string_leaf(r, value, ty),"),
        Fn(file=D, name="call_to_json", ret="r", rewrites=RW,
           obligation="a string is quoted and escaped (json_escape_string), a bool is true / false (bool_to_json), a number its decimal rendering, unit `null`, "
                      "anything else its own to_json",
           contract="ensures json_leaf(r, value, ty),"),
        Fn(file=D, name="find_derive_attr", ret="r", attrs="#[verifier::loop_isolation(false)]", rules=["attrs", "iter_find_map_fn", "opt_and_then", "iter_any"],
           rewrites=RW + [(re.compile(r"\btarget == trait_name\b"), "string_eq_str(target, trait_name)", "*")],
           obligation="Some exactly when SOME attribute of the item is a derive attribute that lists the trait — whichever position it has among the "
                      "attributes and among the derive attributes; the pointer returned is that attribute's",
           contract="ensures (r is Some) == derives(attrs@, trait_name@),\n"
                    "        r is Some ==> exists|i: int| 0 <= i < attrs@.len() && lists(#[trigger] attrs@[i], trait_name@) && attrs@[i].ast == r->0,",
           ghost=[("@after-loop:__i0 <", "", "proof { let ts = views(targets@); assert(ts.len() == targets@.len()); "
                   "if __r0 { let j = choose|j: int| 0 <= j < targets.len() && (#[trigger] targets@[j])@ == trait_name@; assert(ts[j] == trait_name@); assert(ts.contains(trait_name@)); } "
                   "else { assert forall|j: int| 0 <= j < ts.len() implies ts[j] != trait_name@ by { assert(ts[j] == targets@[j]@); } assert(!ts.contains(trait_name@)); } "
                   "assert(__r0 == lists(*attr, trait_name@)); }")],
           loop_fn=fd_loops),
        Fn(file=D, name="build_struct_json_body", ret="r", attrs="#[verifier::loop_isolation(false)]", rules=["attrs", "iter_map_collect"],
           pre_rewrites=[(re.compile(r"for \(idx, \(field_name, field_ty\)\) in struct_def\.fields\.iter\(\)\.enumerate\(\) \{"),
                          "let mut __ix: usize = 0; while __ix < struct_def.fields.len() { let idx = __ix; let field_name = &struct_def.fields[__ix].0; let field_ty = &struct_def.fields[__ix].1; __ix += 1;", 1),
                         FMT1, HOIST, BIND_LEAF],
           rewrites=RW + [(re.compile(r"let mut (__mo\d+) = Vec::new\(\);"), r"let mut \1: Vec<(AstIdent, Pat)> = Vec::new();", "*")],
           obligation="the body of the derived to_json of a struct: `{}` for no fields; else self is taken apart into its fields and the result is "
                      "`{` + for every field, in order, `\"name\":` + its JSON leaf, separated by `,` + `}`",
           contract="ensures struct_json_body(r, *struct_def),",
           ghost=[("@loop-body:__ix <", "", "let ghost __p0 = parts@;"),
                  ("@loop:0:end", "", "proof { assert forall|i: int| 0 <= i < __ix - 1 implies json_field_ok(parts@, struct_def.fields@, i) by { "
                                      "lemma_json_field_kept(__p0, parts@, struct_def.fields@, i); } assert(is_var(__gv, struct_def.fields@[__ix - 1].0.0@) && json_leaf(parts@[3 * (__ix - 1) + 2], __gv, Some(&struct_def.fields@[__ix - 1].1))); "
                                      "assert(json_field_ok(parts@, struct_def.fields@, __ix - 1)); }"),
                  ("@after-loop:__ix <", "", "let ghost __p1 = parts@;"),
                  ("let body = concat_parts(parts, attr_ptr);", "line-before",
                   "proof { assert forall|i: int| 0 <= i < struct_def.fields@.len() implies json_field_ok(parts@, struct_def.fields@, i) by { "
                   "lemma_json_field_kept(__p1, parts@, struct_def.fields@, i); } assert(json_object_parts(parts@, struct_def.fields@)); }\nlet ghost __pf1 = parts@;"),
                  ("let body = concat_parts(parts, attr_ptr);", "line-after", "proof { assert(chain(body, __pf1)); }")],
           loop_fn=sj_loops),
        Fn(file=D, name="build_struct_body", ret="r", attrs="#[verifier::loop_isolation(false)]", rules=["attrs", "iter_map_collect"],
           pre_rewrites=[(re.compile(r"for \(idx, \(field_name, field_ty\)\) in struct_def\.fields\.iter\(\)\.enumerate\(\) \{"),
                          "let mut __ix: usize = 0; while __ix < struct_def.fields.len() { let idx = __ix; let field_name = &struct_def.fields[__ix].0; let field_ty = &struct_def.fields[__ix].1; __ix += 1;", 1),
                         FMT1, HOIST, BIND_LEAF],
           rewrites=RW + [(re.compile(r"let mut (__mo\d+) = Vec::new\(\);"), r"let mut \1: Vec<(AstIdent, Pat)> = Vec::new();", "*")],
           obligation="the body of the derived to_string of a struct: `Name {}` for no fields; else self is taken apart into its fields and the result is "
                      "`Name { ` + for every field, in order, `name: ` + its rendering, separated by `, ` + ` }`",
           contract="ensures struct_string_body(r, *struct_def),",
           ghost=[("@loop-body:__ix <", "", "let ghost __p0 = parts@;"),
                  ("@loop:0:end", "", "proof { assert forall|i: int| 0 <= i < __ix - 1 implies string_field_ok(parts@, struct_def.fields@, i) by { "
                                      "lemma_string_field_kept(__p0, parts@, struct_def.fields@, i); } "
                                      "assert(is_var(__gv, struct_def.fields@[__ix - 1].0.0@) && string_leaf(parts@[3 * (__ix - 1) + 2], __gv, Some(&struct_def.fields@[__ix - 1].1))); "
                                      "assert(string_field_ok(parts@, struct_def.fields@, __ix - 1)); }"),
                  ("@after-loop:__ix <", "", "let ghost __p1 = parts@;"),
                  ("let body = concat_parts(parts, attr_ptr);", "line-before",
                   "proof { assert forall|i: int| 0 <= i < struct_def.fields@.len() implies string_field_ok(parts@, struct_def.fields@, i) by { "
                   "lemma_string_field_kept(__p1, parts@, struct_def.fields@, i); } assert(string_struct_parts(parts@, struct_def.name.0@, struct_def.fields@)); }\nlet ghost __pf1 = parts@;"),
                  ("let body = concat_parts(parts, attr_ptr);", "line-after", "proof { assert(chain(body, __pf1)); }")],
           loop_fn=ss_loops),
        Fn(file=D, name="unsupported_field_type", ret="r", optional=True,
           rewrites=RW + [(re.compile(r"matches!\(\s*ty,\s*((?:TypeExpr::\w+ \{ \.\. \}\s*\|?\s*)+)\)"), r"(match ty { \1 => true, _ => false })", 1)],
           obligation="true exactly for tuple, array and function types", contract="ensures r == no_method_ty(*ty),"),
        Fn(file=D, name="derive_struct_tojson", ret="r", rewrites=RW, attrs="#[verifier::loop_isolation(false)]", rules=["attrs", "iter_any"], loop_fn=unsup_loops,
           pre_rewrites=[(re.compile(r"\s*\n\s*\.(?=\w)"), ".", "*")],
           obligation="a generic struct is rejected with a diagnostic; otherwise the result is `impl Name { fn to_json(self: Name) -> string { <body> } }` with "
                      "the body build_struct_json_body builds",
           contract="ensures (r is Err) == struct_unsupported(*struct_def),\n"
                    "        r is Ok ==> derived_impl(r->Ok_0, struct_def.name.0@, \"to_json\"@) && struct_json_body(r->Ok_0.methods@[0].body, *struct_def),"),
        Fn(file=D, name="derive_struct_tostring", ret="r", rewrites=RW, attrs="#[verifier::loop_isolation(false)]", rules=["attrs", "iter_any"], loop_fn=unsup_loops,
           pre_rewrites=[(re.compile(r"\s*\n\s*\.(?=\w)"), ".", "*")],
           obligation="a generic struct is rejected with a diagnostic; otherwise the result is `impl Name { fn to_string(self: Name) -> string { <body> } }` with "
                      "the body build_struct_body builds",
           contract="ensures (r is Err) == struct_unsupported(*struct_def),\n"
                    "        r is Ok ==> derived_impl(r->Ok_0, struct_def.name.0@, \"to_string\"@) && struct_string_body(r->Ok_0.methods@[0].body, *struct_def),"),
        Fn(file=D, name="build_enum_json_body", rename="enum_json_arm", ret="r", attrs="#[verifier::loop_isolation(false)]", rules=["attrs", "iter_map_collect"],
           cut_from=".map(|(variant_name, fields)| {", cut_inside=True, cut_before="@block-end",
           sig="fn enum_json_arm(enum_def: &EnumDef, variant_name: &AstIdent, fields: &Vec<TypeExpr>, attr_ptr: &MySyntaxNodePtr) -> Arm",
           pre_rewrites=[BINDERS, FMT1, FROM2, ZIP_ENUM, BIND_LEAF, BIND_BODY],
           rewrites=RW + [(re.compile(r"let mut (__mo\d+) = Vec::new\(\);"), r"let mut \1: Vec<Pat> = Vec::new();", "*")],
           obligation="the arm of the derived to_json for one variant: the pattern `Enum::Variant(b0, .., bn-1)` with pairwise different binders, and the body "
                      "`{\"tag\":\"Variant\"}` for a variant without payload, else `{\"tag\":\"Variant\",\"fields\":[` + the JSON leaf of every payload component, in "
                      "order, separated by `,` + `]}`",
           contract="ensures json_variant_arm(r, enum_def.name, *variant_name, fields@),",
           ghost=[("@loop-body:__ix <", "", "let ghost __p0 = parts@;"),
                  ("@loop:1:end", "", "proof { assert forall|i: int| 0 <= i < __ix - 1 implies json_variant_field_ok(parts@, fields@, i) by { "
                                      "lemma_json_variant_field_kept(__p0, parts@, fields@, i); } "
                                      "assert(is_var(__gv, binder_name(__ix - 1)) && json_leaf(parts@[2 * (__ix - 1) + 1], __gv, Some(&fields@[__ix - 1]))); "
                                      "assert(json_variant_field_ok(parts@, fields@, __ix - 1)); }"),
                  ("@after-loop:__ix <", "", "let ghost __p1 = parts@;"),
                  ("let __body = concat_parts(parts, attr_ptr);", "line-before",
                   "proof { assert forall|i: int| 0 <= i < fields@.len() implies json_variant_field_ok(parts@, fields@, i) by { "
                   "lemma_json_variant_field_kept(__p1, parts@, fields@, i); } assert(json_variant_parts(parts@, variant_name.0@, fields@)); }\nlet ghost __pf1 = parts@;"),
                  ("let __body = concat_parts(parts, attr_ptr);", "line-after", "proof { assert(chain(__body, __pf1)); }")],
           loop_fn=ej_loops),
        Fn(file=D, name="build_enum_body", rename="enum_string_arm", ret="r", attrs="#[verifier::loop_isolation(false)]", rules=["attrs", "iter_map_collect"],
           cut_from=".map(|(variant_name, fields)| {", cut_inside=True, cut_before="@block-end",
           sig="fn enum_string_arm(enum_def: &EnumDef, variant_name: &AstIdent, fields: &Vec<TypeExpr>, attr_ptr: &MySyntaxNodePtr) -> Arm",
           pre_rewrites=[BINDERS, FMT1, FROM2, ZIP_ENUM, BIND_LEAF, BIND_BODY],
           rewrites=RW + [(re.compile(r"let mut (__mo\d+) = Vec::new\(\);"), r"let mut \1: Vec<Pat> = Vec::new();", "*")],
           obligation="the arm of the derived to_string for one variant: the pattern `Enum::Variant(b0, .., bn-1)` with pairwise different binders, and the body "
                      "`Enum::Variant` for a variant without payload, else `Enum::Variant(` + the rendering of every payload component, in order, separated by `, ` + `)`",
           contract="ensures string_variant_arm(r, enum_def.name, *variant_name, fields@),",
           ghost=[("@loop-body:__ix <", "", "let ghost __p0 = parts@;"),
                  ("@loop:1:end", "", "proof { assert forall|i: int| 0 <= i < __ix - 1 implies string_variant_field_ok(parts@, fields@, i) by { "
                                      "lemma_string_variant_field_kept(__p0, parts@, fields@, i); } "
                                      "assert(is_var(__gv, binder_name(__ix - 1)) && string_leaf(parts@[2 * (__ix - 1) + 1], __gv, Some(&fields@[__ix - 1]))); "
                                      "assert(string_variant_field_ok(parts@, fields@, __ix - 1)); }"),
                  ("@after-loop:__ix <", "", "let ghost __p1 = parts@;"),
                  ("let __body = concat_parts(parts, attr_ptr);", "line-before",
                   "proof { assert forall|i: int| 0 <= i < fields@.len() implies string_variant_field_ok(parts@, fields@, i) by { "
                   "lemma_string_variant_field_kept(__p1, parts@, fields@, i); } assert(string_variant_parts(parts@, enum_def.name.0@, variant_name.0@, fields@)); }\nlet ghost __pf1 = parts@;"),
                  ("let __body = concat_parts(parts, attr_ptr);", "line-after", "proof { assert(chain(__body, __pf1)); }")],
           loop_fn=es_loops),
        Fn(file=D, name="build_enum_json_body", ret="r", attrs="#[verifier::loop_isolation(false)]", rules=["attrs", "iter_map_collect"],
           pre_rewrites=[arm_call("enum_json_arm")],
           rewrites=RW + [(re.compile(r"let mut (__mo\d+) = Vec::new\(\);"), r"let mut \1: Vec<Arm> = Vec::new();", "*")],
           obligation="the body of the derived to_json of an enum: a match on self with one arm per variant, in declaration order, each as enum_json_arm builds it",
           contract="ensures enum_json_body(r, *enum_def),", loop_fn=eb_loops("json_variant_arm")),
        Fn(file=D, name="build_enum_body", ret="r", attrs="#[verifier::loop_isolation(false)]", rules=["attrs", "iter_map_collect"],
           pre_rewrites=[arm_call("enum_string_arm")],
           rewrites=RW + [(re.compile(r"let mut (__mo\d+) = Vec::new\(\);"), r"let mut \1: Vec<Arm> = Vec::new();", "*")],
           obligation="the body of the derived to_string of an enum: a match on self with one arm per variant, in declaration order, each as enum_string_arm builds it",
           contract="ensures enum_string_body(r, *enum_def),", loop_fn=eb_loops("string_variant_arm")),
        Fn(file=D, name="derive_enum_tojson", ret="r", rewrites=RW, attrs="#[verifier::loop_isolation(false)]", rules=["attrs", "iter_any"], loop_fn=unsup_loops,
           pre_rewrites=[(re.compile(r"\s*\n\s*\.(?=\w)"), ".", "*")],
           obligation="a generic enum is rejected with a diagnostic; otherwise `impl Name { fn to_json(self: Name) -> string { <body> } }` with the body build_enum_json_body builds",
           contract="ensures (r is Err) == enum_unsupported(*enum_def),\n"
                    "        r is Ok ==> derived_impl(r->Ok_0, enum_def.name.0@, \"to_json\"@) && enum_json_body(r->Ok_0.methods@[0].body, *enum_def),"),
        Fn(file=D, name="derive_enum_tostring", ret="r", rewrites=RW, attrs="#[verifier::loop_isolation(false)]", rules=["attrs", "iter_any"], loop_fn=unsup_loops,
           pre_rewrites=[(re.compile(r"\s*\n\s*\.(?=\w)"), ".", "*")],
           obligation="a generic enum is rejected with a diagnostic; otherwise `impl Name { fn to_string(self: Name) -> string { <body> } }` with the body build_enum_body builds",
           contract="ensures (r is Err) == enum_unsupported(*enum_def),\n"
                    "        r is Ok ==> derived_impl(r->Ok_0, enum_def.name.0@, \"to_string\"@) && enum_string_body(r->Ok_0.methods@[0].body, *enum_def),"),
        Fn(file=D, name="expand", ret="r", attrs="#[verifier::loop_isolation(false)]", rules=["attrs"],
           pre_rewrites=[("for item in ast.toplevels.into_iter() {", "let ghost items0 = ast.toplevels@; let mut __iv = ast.toplevels; while __iv.len() > 0 { let item = __iv.remove(0);"),
                         ("for impl_block in derived_impls {", "let mut __dv = derived_impls; while __dv.len() > 0 { let impl_block = __dv.remove(0);"),
                         (re.compile(r"find_derive_attr\(&(\w+)\.attrs, "), r"find_derive_attr(\1.attrs.as_slice(), ", "*")],
           rewrites=RW,
           obligation="a generic struct / enum that asks for a derive makes the whole expansion fail (Err) — it is never passed on without its impl; otherwise "
                      "(Ok) every item is followed directly by its to_string impl (if asked for) and then its to_json impl (if asked for), nothing else is "
                      "added, order kept",
           contract="ensures (r is Err) == (exists|i: int| 0 <= i < ast.toplevels@.len() && unsupported(#[trigger] ast.toplevels@[i])),\n"
                    "        r is Ok ==> expanded(ast.toplevels@, r->Ok_0.toplevels@),",
           ghost=[("@loop-body:__iv\\.len", "", "let ghost k = items0.len() - __iv@.len(); let ghost d0 = diagnostics.count(); let ghost tl0 = toplevels@;"),
                  ("let item = __iv.remove(0);", "after", "proof { assert(item == items0[k]); }"),
                  ("toplevels.push(item);", "line-before", "let ghost di = derived_impls@;\nproof { assert(diagnostics.count() >= d0); "
                   "assert((diagnostics.count() > d0) == unsupported(item)); assert(diagnostics.count() == d0 ==> impls_ok(di, item)); }"),
                  ("toplevels.push(item);", "line-after", "let ghost tl1 = toplevels@;"),
                  ("@after-loop:__dv\\.len", "", "proof { if diagnostics.count() == 0 { lemma_expand_step(items0, k, tl0, toplevels@, di); } }")],
           loop_fn=expand_loops),
    ],
)
