import re
from vlib.gen import Unit, Fn, Adt, Raw

C = "crates/compiler/src/typer/check.rs"
WHERE = re.compile(r"\s*where\s+T:\s*std::str::FromStr<Err = std::num::ParseIntError>,\s*")
PARSE_RW = [(WHERE, "\n", 1), ("literal.parse::<T>()", "parse_int::<T>(literal)")]
RES = """ensures r matches Some(v) ==> decimal_ok(literal@) && int_of::<T>(v) == decimal_value(literal@),
            r is None ==> final(diagnostics).view().len() == old(diagnostics).view().len() + 1,"""

UNIT = Unit(
    name="U-INTLIT",
    properties=["C10"],
    rules=["attrs", "fmtmsg", "msg_to_string", ("strip", "diagnostics::"), ("strip", "tast::"), "opt_map"],
    describe="typer::check integer literals: parse_integer_literal_with_ty dispatches every integer type to the parser of exactly its width and "
             "wraps the result in the matching Prim variant, so an accepted literal denotes the written value at the annotated type; "
             "a rejected literal always pushes a diagnostic",
    trusted=["`str::parse::<T>()` for the eight integer types is assumed: Ok(v) only if the text is a decimal literal with value v (shim parse_int)",
             "the `where T: FromStr<Err = ParseIntError>` bound is dropped (the shim is generic)"],
    items=[
        Raw(path="contracts/parser.shim.rs"),
        Adt(file="crates/compiler/src/tast.rs", kw="enum", name="Ty", rules=["attrs"]),
        Adt(file="crates/compiler/src/common.rs", kw="enum", name="Prim", rules=["attrs"]),
        Raw(path="contracts/intlit.shim.rs"),
        Fn(file=C, name="report_invalid_integer_literal", container="Typer",
           contract="ensures final(diagnostics).view().len() == old(diagnostics).view().len() + 1,"),
        Fn(file=C, name="parse_signed_integer", container="Typer", ret="r", rewrites=PARSE_RW, contract=RES,
           obligation="Some(v) only for a decimal literal of value v; None always comes with a diagnostic"),
        Fn(file=C, name="parse_unsigned_integer", container="Typer", ret="r",
           rewrites=PARSE_RW + [("literal.starts_with('-')", "str_starts_with_minus(literal)")], contract=RES,
           obligation="Some(v) only for a decimal literal of value v; None always comes with a diagnostic"),
        Fn(file=C, name="parse_integer_literal_with_ty", container="Typer", ret="r",
           obligation="accepted literal: Prim variant of exactly the annotated type holding exactly the written value; rejected integer literal: diagnostic pushed",
           contract="""ensures
            r matches Some(p) ==> decimal_ok(literal@) && prim_for_ty(p, *ty) && prim_int_value(p) == decimal_value(literal@),
            (r is None && is_int_ty(*ty)) ==> final(diagnostics).view().len() == old(diagnostics).view().len() + 1,""",
           ghost=[("@entry", "", "proof { broadcast use int_of_axioms; }")]),
    ],
)
