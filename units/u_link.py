import re
from vlib.gen import Unit, Fn, Adt, Raw
from units.u_art import UNIT as ART

S = "crates/compiler/src/pipeline/separate.rs"
art_types = [it for it in ART.items if isinstance(it, (Adt, Raw))]

UNIT = Unit(
    name="U-LINK",
    properties=["C15"],
    rules=["attrs", "fmtmsg", "msg_to_string", ("consume", ["cores"]), "for_entries"],
    describe="separate::link_cores, consistency phase (everything before code generation): Ok is returned only if every dependency "
             "recorded in every unit is present among the linked units with exactly the recorded interface hash; duplicates are rejected",
    trusted=["FRAGMENT: the part of link_cores after the consistency checks (from `let mut genv = GlobalTypeEnv::new();`: merging exports, "
             "mono, lift, anf, go) is replaced by the opaque continuation link_rest(by_name, order) and is not verified",
             "HashMap<String,_>/BTreeMap iteration is modelled as an arbitrary-order list of the entries (shim `entries`)"],
    items=art_types + [
        Raw(path="contracts/link.shim.rs"),
        Fn(file=S, name="link_cores", ret="r",
           attrs="#[verifier::loop_isolation(false)]",
           cut_before="let mut genv = GlobalTypeEnv::new();",
           cut_tail="    proof { lemma_link_final(by_name@, cores0); }\n    link_rest(by_name, order)",
           obligation="link succeeds only if every recorded dependency hash equals the hash of the linked dependency's interface",
           rewrites=[("main.core_ir.toplevels.iter().any(|f| f.name == \"main\")", "core_file_has_main(&main.core_ir)"),
                     (re.compile(r"if &([\w\.]+) != expected_hash \{"), r"if string_ne(&\1, expected_hash) {", 1)],
           contract="ensures r is Ok ==> deps_consistent(cores@),",
           ghost=[("@entry", "", "let ghost cores0 = cores@; proof { broadcast use key_view_string, key_view_str; }"),
                  ("@loop:0:body", "", "let ghost m0 = by_name@; let ghost n0 = cores0.len() - __cv0@.len();"),
                  ("by_name.insert(", "line-before", "let ghost gc = core; proof { assert(gc == cores0[n0]); }"),
                  ("by_name.insert(", "line-after", "proof { lemma_indexed_step(m0, cores0, n0, gc); }")],
           loops={
               0: """invariant __cv0@.len() <= cores0.len(), __cv0@ == cores0.subrange(cores0.len() - __cv0@.len(), cores0.len() as int),
                        indexed(by_name@, cores0, cores0.len() - __cv0@.len()),
                    decreases __cv0@.len(),""",
               1: """invariant __ek0 <= __es0@.len(),
                        forall|i: int, dep: Seq<char>| 0 <= i < __ek0 && (#[trigger] __es0@[i].1.deps@.contains_key(dep)) ==>
                            by_name@.contains_key(dep) && by_name@[dep].interface.interface_hash@ == __es0@[i].1.deps@[dep],
                    decreases __es0@.len() - __ek0,""",
               2: """invariant __ek1 <= __es1@.len(), 0 < __ek0 <= __es0@.len(),
                        forall|i: int, dep: Seq<char>| 0 <= i < __ek0 - 1 && (#[trigger] __es0@[i].1.deps@.contains_key(dep)) ==>
                            by_name@.contains_key(dep) && by_name@[dep].interface.interface_hash@ == __es0@[i].1.deps@[dep],
                        forall|i: int| 0 <= i < __ek1 ==> by_name@.contains_key(#[trigger] __es1@[i].0@)
                            && by_name@[__es1@[i].0@].interface.interface_hash@ == __es1@[i].1@,
                    decreases __es1@.len() - __ek1,""",
           }),
    ],
)
