"""U-LINK: the consistency phase of separate::link_cores (everything before code generation), as a fragment.

Two loop skeletons are supported, selected by the shape of the dependency loop found in the source on this run:
  A  `for (pkg, unit) in by_name.iter()`        (the repository's form)
  B  `for pkg in order.iter()` + `by_name.get(pkg)`  (walk the topological order; needs topo_sort's completeness, assumed)
Any other shape is outside the unit (UNDECIDED).  In both, the property proved is the same postcondition.
"""
import copy
import os
import re

from vlib.gen import Unit, Fn, Adt, Raw, load_source
from vlib.rsitems import AnchorLost
from units.u_art import UNIT as ART

S = "crates/compiler/src/pipeline/separate.rs"
art_types = [it for it in ART.items if isinstance(it, (Adt, Raw)) and getattr(it, "path", None) != "contracts/art.lemmas.rs"]
compute_hash = copy.copy([it for it in ART.items if isinstance(it, Fn) and it.name == "compute_hash"][0])
compute_hash.contract_only = True
CUT = "let mut genv = GlobalTypeEnv::new();"

COMMON_GHOST = [("@entry", "", "let ghost cores0 = cores@; proof { broadcast use key_view_string, key_view_str; }"),
                ("@loop:0:body", "", "let ghost m0 = by_name@; let ghost n0 = cores0.len() - __cv0@.len();"),
                ("by_name.insert(", "line-before", "let ghost gc = core; proof { assert(gc == cores0[n0]); }"),
                ("by_name.insert(", "line-after", "proof { lemma_indexed_step(m0, cores0, n0, gc); }")]
LOOP0 = """invariant __cv0@.len() <= cores0.len(), __cv0@ == cores0.subrange(cores0.len() - __cv0@.len(), cores0.len() as int),
                        indexed(by_name@, cores0, cores0.len() - __cv0@.len()),
                    decreases __cv0@.len(),"""
HASH_RW = (re.compile(r"if &([\w\.]+) != expected_hash \{"), r"if string_ne(&\1, expected_hash) {", 1)
MAIN_RW = ("main.core_ir.toplevels.iter().any(|f| f.name == \"main\")", "core_file_has_main(&main.core_ir)")


def map_type():
    """the type of by_name, read from its initialiser on this run"""
    src = load_source(S)
    s, b, e = src.find_fn("link_cores")
    mt = re.search(r"let\s+mut\s+by_name(?:\s*:\s*[^=]+)?\s*=\s*(HashMap|BTreeMap)::new\(\);", src.text[s:e])
    if not mt:
        raise AnchorLost("link_cores: by_name is neither a HashMap nor a BTreeMap created with ::new()")
    return mt.group(1)


# the two errors of the dependency check keep their provenance (which package, which dependency); every other message is dropped
ERR_RW = [
    (re.compile(r'compile_error\(\s*format!\(\s*"package \{\} depends on missing package \{\}",\s*(\w+),\s*(\w+)\s*,?\s*\)\s*\)', re.S), r"compile_error_dep(\1, \2)", "*"),
    (re.compile(r'compile_error\(\s*format!\(\s*"package \{\} expects interface_hash[^"]*",\s*(\w+),\s*\w+,\s*(\w+),(?:[^()]|\([^()]*\))*?\)\s*\)', re.S), r"compile_error_dep(\1, \2)", "*"),
    (re.compile(r"format!\((?:[^()]|\([^()]*\))*\)"), "rt_msg()", "*"),
]
DET_POST = ("\n            (r is Err && r->Err_0.is_dep()) ==> exists|m: Map<Seq<char>, CoreUnit>, i: int, j: int| "
            "#[trigger] first_bad(m, cores@, r->Err_0.pkg(), r->Err_0.dep(), i, j),")


def shape():
    src = load_source(S)
    s, b, e = src.find_fn("link_cores")
    body = src.text[s:e]
    if CUT not in body:
        raise AnchorLost("link_cores: cut anchor lost")
    pre = body[:body.index(CUT)]
    if re.search(r"for\s+\(\s*\w+\s*,\s*\w+\s*\)\s+in\s+by_name\.iter\(\)", pre):
        return "A"
    if re.search(r"for\s+\w+\s+in\s+order\.iter\(\)", pre):
        return "B"
    raise AnchorLost("link_cores: the dependency loop has neither of the two supported shapes")


def link_fn():
    sh = shape()
    if sh == "A":
        return Fn(file=S, name="link_cores", ret="r", attrs="#[verifier::loop_isolation(false)]",
                  rules=["attrs", "msg_to_string", ("consume", ["cores"]), "for_entries"],
                  cut_before=CUT, cut_tail="    proof { lemma_link_final(by_name@, cores0); }\n    link_rest(by_name, order)",
                  obligation="link succeeds only if every recorded dependency hash equals the hash of the linked dependency's interface; "
                             "a dependency-check error names the FIRST failing (package, dependency) in sorted order (a function of the inputs)",
                  rewrites=[MAIN_RW, HASH_RW] + ERR_RW,
                  contract="ensures r is Ok ==> deps_consistent(cores@)," + DET_POST,
                  ghost=COMMON_GHOST + [
                      ("@loop:1:before", "", "proof { assert(indexed(by_name@, cores0, cores0.len() as int)); }"),
                      ("?return Err(compile_error_dep(pkg, dep));", "line-before",
                       "proof { assert(ent_keys(__es0@)[__ek0 - 1] == pkg@); assert(ent_keys(__es1@)[__ek1 - 1] == dep@); "
                       "assert forall|j2: int| 0 <= j2 < __ek1 - 1 implies !dep_bad(by_name@, by_name@[pkg@], #[trigger] canonical(by_name@[pkg@].deps@.dom())[j2]) by { assert(ent_keys(__es1@)[j2] == __es1@[j2].0@); } "
                       "assert forall|i2: int| 0 <= i2 < __ek0 - 1 implies unit_clean(by_name@, #[trigger] canonical(by_name@.dom())[i2]) by { assert(ent_keys(__es0@)[i2] == __es0@[i2].0@); } "
                       "assert(first_bad(by_name@, cores0, pkg@, dep@, __ek0 - 1, __ek1 - 1)); }", 0),
                      ("?return Err(compile_error_dep(pkg, dep));", "line-before",
                       "proof { assert(ent_keys(__es0@)[__ek0 - 1] == pkg@); assert(ent_keys(__es1@)[__ek1 - 1] == dep@); "
                       "assert forall|j2: int| 0 <= j2 < __ek1 - 1 implies !dep_bad(by_name@, by_name@[pkg@], #[trigger] canonical(by_name@[pkg@].deps@.dom())[j2]) by { assert(ent_keys(__es1@)[j2] == __es1@[j2].0@); } "
                       "assert forall|i2: int| 0 <= i2 < __ek0 - 1 implies unit_clean(by_name@, #[trigger] canonical(by_name@.dom())[i2]) by { assert(ent_keys(__es0@)[i2] == __es0@[i2].0@); } "
                       "assert(first_bad(by_name@, cores0, pkg@, dep@, __ek0 - 1, __ek1 - 1)); }", 1),
                  ],
                  loops={
                      0: LOOP0,
                      1: """invariant __ek0 <= __es0@.len(),
                        forall|i: int, dep: Seq<char>| 0 <= i < __ek0 && (#[trigger] __es0@[i].1.deps@.contains_key(dep)) ==>
                            by_name@.contains_key(dep) && hash_matches(by_name@[dep], __es0@[i].1.deps@[dep]),
                        forall|i: int| 0 <= i < __ek0 ==> unit_clean(by_name@, (#[trigger] __es0@[i]).0@),
                    decreases __es0@.len() - __ek0,""",
                      2: """invariant __ek1 <= __es1@.len(), 0 < __ek0 <= __es0@.len(),
                        forall|i: int, dep: Seq<char>| 0 <= i < __ek0 - 1 && (#[trigger] __es0@[i].1.deps@.contains_key(dep)) ==>
                            by_name@.contains_key(dep) && hash_matches(by_name@[dep], __es0@[i].1.deps@[dep]),
                        forall|i: int| 0 <= i < __ek0 - 1 ==> unit_clean(by_name@, (#[trigger] __es0@[i]).0@),
                        forall|i: int| 0 <= i < __ek1 ==> by_name@.contains_key(#[trigger] __es1@[i].0@)
                            && hash_matches(by_name@[__es1@[i].0@], __es1@[i].1@),
                        forall|i: int| 0 <= i < __ek1 ==> !dep_bad(by_name@, *unit, (#[trigger] __es1@[i]).0@),
                    decreases __es1@.len() - __ek1,""",
                  })
    # shape B: the outer loop walks `order`
    return Fn(file=S, name="link_cores", ret="r", attrs="#[verifier::loop_isolation(false)]",
              rules=["attrs", "fmtmsg", "msg_to_string", ("consume", ["cores"]), "for_entries", "for_index", "ok_or_else_q"],
              cut_before=CUT, cut_tail="    proof { lemma_link_final_b(by_name@, cores0, order@); }\n    link_rest(by_name, order)",
              obligation="link succeeds only if every recorded dependency hash equals the hash of the linked dependency's interface",
              rewrites=[MAIN_RW, (re.compile(r"if &([\w\.]+) != expected_hash \{"), r"if string_ne(&\1, expected_hash) {", "*")],
              contract="ensures r is Ok ==> deps_consistent(cores@),",
              ghost=COMMON_GHOST,
              loops={
                  0: LOOP0,
                  1: """invariant __fk0 <= order@.len(),
                        forall|t: int| 0 <= t < __fk0 ==> unit_ok(by_name@, (#[trigger] order@[t])@),
                    decreases order@.len() - __fk0,""",
                  2: """invariant __ek0 <= __es0@.len(), 0 < __fk0 <= order@.len(), by_name@.contains_key(pkg@) && *unit == by_name@[pkg@],
                        forall|t: int| 0 <= t < __fk0 - 1 ==> unit_ok(by_name@, (#[trigger] order@[t])@),
                        forall|i: int| 0 <= i < __ek0 ==> by_name@.contains_key(#[trigger] __es0@[i].0@)
                            && hash_matches(by_name@[__es0@[i].0@], __es0@[i].1@),
                    decreases __es0@.len() - __ek0,""",
              })


UNIT = Unit(
    name="U-LINK",
    properties=["C15", "C13", "C04", "C16"],
    # the determinism clause (first_bad / canonical order) is C13's; everything else is C15's
    clause_scope={"C13": {"only": ["first_bad", "canonical("]}, "C15": {"except": ["first_bad", "canonical("]}, "C04": {"except": ["first_bad", "canonical("]}},
    rules=["attrs", "fmtmsg", "msg_to_string", ("consume", ["cores"]), "for_entries"],
    describe="separate::link_cores, consistency phase (everything before code generation): Ok is returned only if every dependency "
             "recorded in every unit is present among the linked units with exactly the recorded interface hash; duplicates are rejected; "
             "(C13) a dependency-check error names the FIRST failing (package, dependency) pair in sorted package order, then sorted "
             "dependency order — a function of the inputs, not of a hash seed",
    trusted=["FRAGMENT: the part of link_cores after the consistency checks (from `let mut genv = GlobalTypeEnv::new();`: merging exports, "
             "mono, lift, anf, go) is replaced by the opaque continuation link_rest(by_name, order) and is not verified",
             "HashMap<String,_>/BTreeMap iteration is modelled as an arbitrary-order list of the entries (shim `entries`)",
             "separate::topo_sort is not verified; its shim assumes that on success the order lists every linked package (used only by loop shape B)"],
    items=art_types + [Raw(text=lambda: open(os.path.join(os.path.dirname(os.path.dirname(os.path.abspath(__file__))), "contracts", "link.shim.rs")).read()
                            .replace("BYNAME_MAP", map_type())), compute_hash],
)
UNIT.items = UNIT.items + [link_fn()]
