"""U-LIFTTY: the arms of lift::transform_expr that decide which TYPE a lifted tuple, projection or struct field carries (fragments).
A variable bound from such a place is recognised as a closure (and its calls go to the apply function) only if that type is the
closure's environment struct."""
import re
from units.common import arm_guard
from vlib.gen import Unit, Fn, Adt, Raw

L = "crates/compiler/src/lift.rs"
VC = (re.compile(r"\.clone\(\)"), ".vclone()", "*")
INTO_MAP = (re.compile(r"let (\w+) = (\w+)\s*\.into_iter\(\)\s*\.map\(\|(\w+)\| transform_expr\(state, scope, \3\)\)\s*\.collect::<Vec<_>>\(\);"),
            r"let mut __src = \2; let mut \1: Vec<LiftExpr> = Vec::new(); while __src.len() > 0 { let \3 = __src.remove(0); let __e = transform_expr(state, scope, \3); \1.push(__e); }", 1)

UNIT = Unit(
    name="U-LIFTTY",
    properties=["C08"],
    rules=["attrs", ("strip", "tast::")],
    describe="lift::transform_expr, type flow (fragments): a lifted tuple's type lists the LIFTED items' types; a projection out of a "
             "lifted tuple carries that tuple type's component (so a closure — or anything containing one — keeps its environment-struct "
             "type when it is taken out again); in a struct literal exactly the fields whose argument holds a closure environment are "
             "re-declared as that struct, at the ARGUMENT's position",
    trusted=["FRAGMENTS: the arms `MonoExpr::ETuple`, `MonoExpr::EProj` and the field loop of `MonoExpr::EConstr`; all other arms are dropped; the "
             "recursive call transform_expr is a stub returning an arbitrary lifted expression (it may register new closure types but is "
             "assumed not to change the status of an existing type)",
             "`X.into_iter().map(|x| transform_expr(state, scope, x)).collect::<Vec<_>>()` is rewritten to a front-to-back loop (std semantics of "
             "map + collect assumed); `items.iter().map(|item| item.get_ty()).collect()` by rule iter_map_collect",
             "struct literal: the number of arguments is assumed not to exceed the number of declared fields (typing invariant; indexing would panic)"],
    items=[
        arm_guard(L, "transform_expr", None, r"match expr \{",
                  ['MonoExpr::EVar', 'MonoExpr::EPrim', 'MonoExpr::EConstr', 'MonoExpr::ETuple', 'MonoExpr::EArray', 'MonoExpr::EClosure', 'MonoExpr::ELet', 'MonoExpr::EMatch', 'MonoExpr::EIf', 'MonoExpr::EWhile', 'MonoExpr::EGo', 'MonoExpr::EConstrGet', 'MonoExpr::EUnary', 'MonoExpr::EBinary', 'MonoExpr::ECall', 'MonoExpr::EToDyn', 'MonoExpr::EDynCall', 'MonoExpr::EProj']),
        Adt(file="crates/compiler/src/tast.rs", kw="enum", name="Ty", rules=["attrs"]),
        Adt(file="crates/compiler/src/tast.rs", kw="struct", name="TastIdent", rules=["attrs"]),
        Adt(file="crates/compiler/src/common.rs", kw="struct", name="StructConstructor", rules=["attrs"]),
        Adt(file="crates/compiler/src/common.rs", kw="enum", name="Constructor", rules=["attrs"]),
        Adt(file="crates/compiler/src/env.rs", kw="struct", name="StructDef", rules=["attrs", ("strip", "tast::")]),
        Adt(file=L, kw="enum", name="LiftExpr", rules=["attrs", ("strip", "common_defs::")]),
        Adt(file=L, kw="struct", name="LiftArm", rules=["attrs"]),
        Raw(path="contracts/liftty.shim.rs"),
        Fn(file=L, name="get_ty", container="LiftExpr", ret="r", rewrites=[(re.compile(r"=> ty\.clone\(\),"), "=> ty.vclone(),", "*")],
           contract="ensures r == lift_ty(*self),", obligation="get_ty returns the carried type"),
        Adt(file=L, kw="struct", name="LiftFn", rules=["attrs"]),
        Fn(file=L, name="lambda_lift", rename="lift_fn_ret", attrs="#[verifier::loop_isolation(false)]", rules=["attrs", ("strip", "tast::"), "iter_map_collect"],
           cut_from="let body_ty = body.get_ty();", cut_before="@block-end", cut_tail="",
           sig="fn lift_fn_ret(state: &mut State, toplevels: &mut Vec<LiftFn>, f_name: String, f_params: Vec<(String, Ty)>, f_ret_ty: Ty, body: LiftExpr)",
           pre_rewrites=[(re.compile(r"\bf\.(name|params|ret_ty)\b"), r"f_\1", "*"), (re.compile(r"\|\(_, (\w+)\)\| \1\.clone\(\)"), r"|__p| __p.1.vclone()", "*"),
                         (re.compile(r"\b(\w+) != (f_ret_ty)\b"), r"ty_ne(&\1, &\2)", "*"), (re.compile(r"\b(f_ret_ty) != (\w+)\b"), r"ty_ne(&\1, &\2)", "*")],
           rewrites=[VC, ("state.liftenv.insert_func(", "state.insert_func_ty(", "*"),
                     (re.compile(r"params: \{ let mut (__mo\d+) = Vec::new\(\);"), r"params: { let mut \1: Vec<Ty> = Vec::new();", "*")],
           obligation="a lifted function is emitted with the lifted body's type as its result type exactly when that holds a closure environment and differs from the declared "
                      "type; the type recorded for its callers is the type of the function as emitted (same parameters, same result)",
           contract="ensures fn_emitted_ok(old(state), final(state), f_name, f_params, f_ret_ty, body, old(toplevels)@, final(toplevels)@),",
           loop_fn=lambda k, header, kw: (lambda mt: (f"invariant __mi{mt.group(1)} <= f_params.len(), __mo{mt.group(1)}@.len() == __mi{mt.group(1)}, "
                                                      f"forall|j: int| 0 <= j < __mi{mt.group(1)} ==> #[trigger] __mo{mt.group(1)}@[j] == f_params@[j].1,\n decreases f_params.len() - __mi{mt.group(1)},") if mt else None)(
                                                      re.search(r"while\s+__mi(\d+)\s*<\s*f_params\.len\(\)", header))),
        Fn(file=L, name="transform_expr", rename="lift_constr_get", ret="r", rules=["attrs", ("strip", "tast::")],
           cut_from=re.compile(r"MonoExpr::EConstrGet \{\s*expr,\s*constructor,\s*field_index,\s*ty,\s*\} => \{"), cut_inside=True, cut_before="@block-end", cut_tail="",
           sig="fn lift_constr_get(state: &mut State, scope: &mut Scope, expr: Box<MonoExpr>, constructor: Constructor, field_index: usize, ty: Ty) -> LiftExpr",
           rewrites=[VC, ("transform_expr(state, scope, *expr)", "transform_expr(state, scope, unbox(expr))", "*"),
                     (re.compile(r"(get_(?:struct|enum)_field_ty\((?:[^()]|\([^()]*\))*\))\.unwrap_or\(ty\)"), r"(match \1 { Some(__u) => __u, None => ty })", "*")],
           obligation="a field taken out of a struct value or a variant payload carries the field's type as the lifting re-declared it (the closure's environment struct when a "
                      "closure was stored there), at the same constructor and the same index",
           contract="ensures r matches LiftExpr::EConstrGet { expr: _, constructor: c, field_index: i, ty: t } && c == constructor && i == field_index && constr_get_ty_ok(final(state), constructor, field_index, ty, t),"),
        Fn(file=L, name="transform_expr", rename="lift_if", ret="r", rules=["attrs", ("strip", "tast::")],
           cut_from="let then_branch = Box::new(transform_expr(state, scope, *then_branch));", cut_before="@block-end", cut_tail="",
           sig="fn lift_if(state: &mut State, scope: &mut Scope, cond: Box<LiftExpr>, then_branch: Box<MonoExpr>, else_branch: Box<MonoExpr>, ty: Ty) -> LiftExpr",
           rewrites=[VC, (re.compile(r"transform_expr\(state, scope, \*(then_branch|else_branch)\)"), r"transform_expr(state, scope, unbox(\1))", "*")],
           obligation="an `if` whose lifted branches hold closure environments is typed by them (as tuples and calls are), so that the value is still called through its apply "
                      "function — FAILS on the pinned tree (KNOWN FINDING: the `if` keeps its pre-lifting type; two different closures have two different environment types)",
           contract="ensures r matches LiftExpr::EIf { cond: _, then_branch: t, else_branch: e, ty: it } && if_branches_typed(final(state), *t, *e, it),"),
        Fn(file=L, name="transform_expr", rename="lift_var", ret="r", rules=["attrs", ("strip", "tast::")],
           cut_from="MonoExpr::EVar { name, ty } => {", cut_inside=True, cut_before="@block-end", cut_tail="",
           sig="fn lift_var(state: &mut State, scope: &mut Scope, name: String, ty: Ty) -> LiftExpr",
           rewrites=[VC, ("state.liftenv.get_func(&name)", "state.get_func_ty(&name)", "*")],
           obligation="a variable use carries the type its binder was given by the lifting: the closure's environment struct when the scope entry holds a closure, else the "
                      "entry's type, else the (lifted) type of the top-level function of that name, else its own type",
           contract="ensures r matches LiftExpr::EVar { name: n, ty: t } && n == name && var_ty_ok(old(scope), old(state), name@, ty, t),"),
        Fn(file=L, name="transform_expr", rename="lift_tuple", ret="r", attrs="#[verifier::loop_isolation(false)]", rules=["attrs", ("strip", "tast::"), "iter_any", "iter_map_collect"],
           cut_from=re.compile(r"MonoExpr::ETuple \{ items, ty(?:: _)? \} => \{"), cut_inside=True, cut_before="@block-end", cut_tail="",
           sig="fn lift_tuple(state: &mut State, scope: &mut Scope, items: Vec<MonoExpr>, ty: Ty) -> LiftExpr",
           pre_rewrites=[INTO_MAP],
           rewrites=[VC, (re.compile(r"let typs = \{ let mut __mo0 = Vec::new\(\);"), "let typs = { let mut __mo0: Vec<Ty> = Vec::new();", "*")],
           obligation="the lifted tuple's type is TTuple of the LIFTED items' types, in order",
           contract="ensures r matches LiftExpr::ETuple { items: li, ty } && (ty matches Ty::TTuple { typs } && item_tys(li@, typs@)),",
           loop_fn=lambda k, header, kw: TUPLE_LOOPS(header)),
        Fn(file=L, name="transform_expr", rename="lift_array", ret="r", attrs="#[verifier::loop_isolation(false)]", rules=["attrs", ("strip", "tast::")],
           cut_from="MonoExpr::EArray { items, ty } => {", cut_inside=True, cut_before="@block-end", cut_tail="",
           sig="fn lift_array(state: &mut State, scope: &mut Scope, items: Vec<MonoExpr>, ty: Ty) -> LiftExpr",
           pre_rewrites=[(re.compile(r"let items = items\s*\.into_iter\(\)\s*\.map\(\|item\| transform_expr\(state, scope, item\)\)\s*\.collect\(\);"),
                          "let items = items.into_iter().map(|item| transform_expr(state, scope, item)).collect::<Vec<_>>();", "*"), INTO_MAP],
           rewrites=[VC],
           obligation="an array literal whose lifted items hold closure environments is typed as an array OF THAT TYPE (as tuples are), so that an element taken "
                      "out again is still called through its apply function — FAILS on the pinned tree (KNOWN FINDING: the array keeps its pre-lifting type)",
           contract="ensures r matches LiftExpr::EArray { items: li, ty: at } && array_items_typed(final(state), li@, at),",
           loop_fn=lambda k, header, kw: ("invariant true,\ndecreases __src@.len()," if "__src.len()" in header else None)),
        Fn(file=L, name="transform_expr", rename="lift_proj", ret="r", rules=["attrs", ("strip", "tast::")],
           cut_from="MonoExpr::EProj { tuple, index, ty } => {", cut_inside=True, cut_before="@block-end", cut_tail="",
           sig="fn lift_proj(state: &mut State, scope: &mut Scope, tuple: Box<MonoExpr>, index: usize, ty: Ty) -> LiftExpr",
           rewrites=[VC, ("transform_expr(state, scope, *tuple)", "transform_expr(state, scope, unbox(tuple))")],
           obligation="a projection out of a lifted tuple carries the lifted tuple type's component at that index (its pre-lifting type only when "
                      "the lifted operand is not a tuple type of sufficient width)",
           contract="""ensures r matches LiftExpr::EProj { tuple: t, index: i, ty: pt } && i == index
                && ((lift_ty(*t) matches Ty::TTuple { typs } && index < typs@.len()) ==> (lift_ty(*t) matches Ty::TTuple { typs } && pt == typs@[index as int]))
                && (!(lift_ty(*t) matches Ty::TTuple { typs } && index < typs@.len()) ==> pt == ty),"""),
        Fn(file=L, name="transform_expr", rename="lift_struct_fields", ret=None, attrs="#[verifier::loop_isolation(false)]", rules=["attrs", ("strip", "tast::")],
           cut_from="for (index, closure_struct_name) in closure_field_types.into_iter().enumerate()", cut_before="@block-end", cut_tail="",
           sig="fn lift_struct_fields(struct_def: &mut StructDef, closure_field_types: Vec<Option<String>>)",
           pre_rewrites=[(re.compile(r"for \(index, closure_struct_name\) in closure_field_types\.into_iter\(\)\.enumerate\(\)\s*\{"),
                          "let ghost cs0 = closure_field_types@; let ghost f0 = struct_def.fields@; let __fl: usize = struct_def.fields.len(); let mut __cf = closure_field_types; let mut __ix: usize = 0; "
                          "while __cf.len() > 0 { let closure_struct_name = __cf.remove(0); let index = __ix; __ix += 1;", 1)],
           obligation="field i of the struct definition is re-declared as closure environment s exactly when ARGUMENT i holds s; the others keep their type",
           contract="""requires closure_field_types@.len() <= old(struct_def).fields@.len(),
        ensures fields_retyped(old(struct_def).fields@, final(struct_def).fields@, closure_field_types@),""",
           loop_fn=lambda k, header, kw: (
               "invariant __ix + __cf@.len() == cs0.len(), __cf@ == cs0.subrange(__ix as int, cs0.len() as int), cs0.len() <= f0.len(), struct_def.fields@.len() == f0.len(), f0.len() == __fl,\n"
               "  forall|i: int| 0 <= i < f0.len() ==> (#[trigger] struct_def.fields@[i]).0 == f0[i].0\n"
               "    && struct_def.fields@[i].1 == (if i < __ix && cs0[i] is Some { Ty::TStruct { name: cs0[i]->0 } } else { f0[i].1 }),\n"
               "decreases __cf@.len(),")),
        Fn(file=L, name="transform_closure", rename="closure_ret_ty", ret="r", rules=["attrs", ("strip", "tast::")],
           cut_from="let body_ty = body.get_ty();", cut_before="let mut captured = IndexMap::new();", cut_tail="    ret_ty",
           sig="fn closure_ret_ty(state: &State, body: &LiftExpr, ret_ty: Ty) -> Ty",
           rewrites=[(re.compile(r"\bbody_ty != ret_ty\b"), "ty_ne(&body_ty, &ret_ty)", "*")],
           obligation="the apply function of a closure whose lifted body yields a closure environment returns THAT type (not the declared function type): a "
                      "closure returned from a closure keeps its environment",
           contract="ensures state.contains_closure(lift_ty(*body)) ==> r == lift_ty(*body), !state.contains_closure(lift_ty(*body)) ==> r == ret_ty,"),
        Fn(file=L, name="apply_result_ty", ret="r", optional=True, rules=["attrs", ("strip", "tast::")],
           rewrites=[("state: &State<'_>", "state: &State"), ("state.liftenv.get_func(apply_fn)", "state.get_func_ty(apply_fn)"),
                     (re.compile(r"Some\(Ty::TFunc \{ ret_ty, \.\. \}\) if state\.ty_contains_closure\(&ret_ty\) => \*ret_ty,"),
                      "Some(Ty::TFunc { ret_ty, .. }) if state.ty_contains_closure(&ret_ty) => unbox_ty(ret_ty),", "*")],
           obligation="the type of a call of an apply function is that function's result type when it holds a closure environment, else the call's own type",
           contract="ensures r == apply_call_ty(state, apply_fn@, ty),"),
        Fn(file=L, name="transform_expr", rename="lift_call", ret="r", attrs="#[verifier::loop_isolation(false)]", rules=["attrs", ("strip", "tast::"), "let_chain", "opt_or_else"],
           cut_from="MonoExpr::ECall { func, args, ty } => {", cut_inside=True, cut_before="@block-end", cut_tail="",
           sig="fn lift_call(state: &mut State, scope: &mut Scope, func: Box<MonoExpr>, args: Vec<MonoExpr>, ty: Ty) -> LiftExpr",
           pre_rewrites=[INTO_MAP],
           rewrites=[VC, ("transform_expr(state, scope, *func)", "transform_expr(state, scope, unbox(func))"),
                     (re.compile(r"let mut call_args = Vec::with_capacity\([^;]*\);"), "let mut call_args: Vec<LiftExpr> = Vec::new();", "*"),
                     ("call_args.extend(args);", "let ghost args_g = args@; vec_extend_lift(&mut call_args, args);", "*"),
                     ("apply_fn.to_string()", "str_to_string(apply_fn)", "*"),
                     (re.compile(r"Ty::TFunc \{ ref ret_ty, \.\. \} if state\.ty_contains_closure\(ret_ty\) => \{\s*\*ret_ty\.vclone\(\)\s*\}"),
                      "Ty::TFunc { ref ret_ty, .. } if state.ty_contains_closure(ret_ty) => { ty_unbox_clone(ret_ty) }", "*"),
                     (re.compile(r"\n([ \t]*)return LiftExpr::ECall \{(.*?)\n\1\};", re.S),
                      r"\n\1let __res = LiftExpr::ECall {\2\n\1};\n\1proof { assert(call_args@.subrange(1, call_args@.len() as int) =~= args_g); assert(call_ok(__res, fe_g, la_g, scope, state, ty0)); }\n\1return __res;", "*"),
                     (re.compile(r"\n([ \t]*)LiftExpr::ECall \{\s*func: Box::new\(func_expr\),(.*?)\n\1\}\s*\n\}\s*$", re.S),
                      r"\n\1let __res2 = LiftExpr::ECall {\n\1    func: Box::new(func_expr),\2\n\1};\n\1proof { assert(call_ok(__res2, fe_g, la_g, scope, state, ty0)); }\n\1__res2\n}", 1)],
           obligation="a call whose callee holds a closure — a variable whose scope entry records one, or ANY callee whose lifted type is a closure "
                      "environment (`make_adder(3)(10)`, `t.0(10)`) — with a registered apply function becomes a call of THAT apply function with "
                      "the closure itself as first argument and the original arguments after it, in order; the call's type is unchanged",
           contract="ensures exists|fe: LiftExpr, la: Seq<LiftExpr>| #[trigger] call_ok(r, fe, la, final(scope), final(state), ty),",
           ghost=[("@entry", "", "let ghost ty0 = ty;"), ("let func_expr = transform_expr(", "line-after", "let ghost fe_g = func_expr;"),
                  (r"@after-loop:__src", "", "let ghost la_g = args@;")],
           loop_fn=lambda k, header, kw: ("invariant true,\ndecreases __src@.len()," if "__src.len()" in header else None)),
        Fn(file=L, name="transform_expr", rename="lift_let", ret="r", rules=["attrs", ("strip", "tast::")],
           cut_from=re.compile(r"MonoExpr::ELet \{\s*name,\s*value,\s*body,\s*(?:\.\.|ty,?)\s*\} => \{"), cut_inside=True, cut_before="@block-end", cut_tail="",
           # `ty`: the let's PRE-lifting type, which the arm's pattern leaves unbound (`..`) on the pinned tree — a parameter so that code which binds and uses it is verified, not lost
           sig="fn lift_let(state: &mut State, scope: &mut Scope, name: String, value: Box<MonoExpr>, body: Box<MonoExpr>, ty: Ty) -> LiftExpr",
           pre_rewrites=[
               # `match *value { MonoExpr::EClosure {..} => .., other => .. }`: MonoExpr is opaque here; the case split is a stub, the two branches are the code's
               (re.compile(r"let value = match \*value \{\s*MonoExpr::EClosure \{ params, body, ty \} => \{\s*transform_closure\(state, scope, params, \*body, ty, Some\(name\.clone\(\)\)\)\s*\}\s*other => transform_expr\(state, scope, other\),\s*\};"),
                "let value = match let_value_of(value) { LetValue::Closure { params, body: cbody, ty } => { transform_closure_named(state, scope, params, unbox(cbody), ty, Some(name.clone())) } LetValue::Other(other) => transform_expr(state, scope, other), };", 1),
               ("let body = transform_expr(state, scope, *body);", "let body = transform_let_body(state, scope, unbox(body), Ghost(name@), Ghost(value_ty));"),
           ],
           rewrites=[VC],
           obligation="while the BODY of a let is transformed the let-bound variable is in scope, in a layer of its own, with the lifted VALUE's type and the "
                      "closure environment that type names; afterwards the scope is what it was; the lifted let carries the body's type",
           contract="""requires old(scope).layers().len() >= 0,
        ensures final(scope).layers() == old(scope).layers(),
            r matches LiftExpr::ELet { name: n, value: v, body: b, ty } && n == name && ty == lift_ty(*b),"""),
    ],
)



def TUPLE_LOOPS(header):
    if "__src.len()" in header:
        return "invariant true,\ndecreases __src@.len(),"
    mt = re.search(r"while\s+__mi(\d+)\s*<\s*items", header)
    if mt:
        k = mt.group(1)
        return (f"invariant __mi{k} <= items@.len(), __mo{k}@.len() == __mi{k}, forall|i: int| 0 <= i < __mi{k} ==> #[trigger] __mo{k}@[i] == lift_ty(items@[i]),\n"
                f"decreases items@.len() - __mi{k},")
    mt = re.search(r"while\s+__i(\d+)\s*<\s*(\w+)\.len\(\)", header)
    if mt:      # a `.iter().any(..)` over the items (rule iter_any): its answer is not specified — whatever it decides, the contract must hold
        return f"invariant __i{mt.group(1)} <= {mt.group(2)}@.len(),\ndecreases {mt.group(2)}@.len() - __i{mt.group(1)},"
    return None
