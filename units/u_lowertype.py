"""U-LOWERTYPE: name_resolution::NameResolution::lower_type_expr (whole) — C16: the import gate itself."""
import re
from vlib.gen import Unit, Fn, Adt, Raw

NR = "crates/compiler/src/typer/name_resolution.rs"
AST = "crates/ast/src/ast.rs"
HIR = "crates/compiler/src/hir.rs"


def loops(k, header, kw):
    mt = re.search(r"while (__mi(\d+)) < ([\w.\s]+?)\.len\(\)", header)
    if not mt:
        return None
    i, recv = mt.group(1), re.sub(r"\s+", "", mt.group(3))
    return (f"invariant {i} <= {recv}.len(), self.n_errors() >= n_{i},\n"
            f"  any_foreign({recv}@, {i} as int, current_package@, imports@) ==> self.n_errors() > n_{i},\n"
            f"decreases {recv}.len() - {i},")


UNIT = Unit(
    name="U-LOWERTYPE",
    properties=["C16"],
    rules=["attrs"],
    describe="name_resolution::NameResolution::lower_type_expr (whole function, all written types): if ANY qualified name in the type — at any depth, as a type "
             "constructor or as the trait of a `dyn` — names a package that is neither the current package, nor Builtin, nor imported, an error diagnostic is "
             "pushed; diagnostics are never removed. (U-TYGATE proves that every type written in a definition is handed to this function with the package's import set; "
             "U-PKGALLOW proves package_allowed.)",
    trusted=["`path.into()` is the stub qualified_from carrying what hir.rs's `impl From<&ast::Path> for QualifiedPath` does (package = first segment of a path with more "
             "than one segment) as an ASSUMED contract; package_allowed is a stub with the contract proved in U-PKGALLOW; error / ice push one diagnostic; the message text is dropped",
             "the SHAPE of the returned hir type is not part of this contract", "`X.iter().map(|t| E).collect()` is a push loop (rule iter_map_collect)"],
    items=[
        Adt(file=AST, kw="struct", name="PathSegment", rules=["attrs"]),
        Adt(file=AST, kw="struct", name="Path", rules=["attrs"]),
        Adt(file=AST, kw="enum", name="TypeExpr", rules=["attrs"]),
        Adt(file=HIR, kw="enum", name="TypeExpr", rules=["attrs"], rewrites=[(re.compile(r"\bTypeExpr\b"), "HirTypeExpr", "*"), (re.compile(r"\bQualifiedPath\b"), "HirQualifiedPath", "*")]),
        Raw(path="contracts/pkg.shim.rs"),
        Raw(path="contracts/lowertype.shim.rs"),
        Raw(path="contracts/box.shim.rs"),
        Fn(file=NR, name="package_allowed", ret="r", contract_only=True, contract="ensures r == may_name(package@, current_package@, imports@),"),
        Fn(file=NR, name="lower_type_expr", container="NameResolution", ret="r", attrs="#[verifier::loop_isolation(false)]",
           rules=["attrs", "fmtmsg", "iter_map_collect", "let_chain", "let_chain_rev", "box_as_ref"],
           rewrites=[(re.compile(r"\bast::TypeExpr\b"), "TypeExpr", "*"), (re.compile(r"\bhir::TypeExpr\b"), "HirTypeExpr", "*"), (re.compile(r"\bhir::QualifiedPath\b"), "HirQualifiedPath", "*"),
                     (re.compile(r"\bhir::Path\b"), "HirPath", "*"),
                     (re.compile(r"(: HirQualifiedPath = )(\w+)\.into\(\);"), r"\1qualified_from(\2);", "*"),
                     (re.compile(r"\b(\w+)\.into\(\)"), r"type_expr_into(\1)", "*"),
                     (re.compile(r"\bident\.0\.clone\(\)"), "string_clone(&ident.0)", "*"), ('"<error>".to_string()', 'str_to_string("<error>")', "*"),
                     (re.compile(r"let mut (__mo\d+) = Vec::new\(\); let mut (__mi\d+): usize = 0; while"), r"let mut \1: Vec<HirTypeExpr> = Vec::new(); let mut \2: usize = 0; let ghost n_\2 = self.n_errors(); while", "*")],
           loop_fn=loops,
           obligation="a qualified name anywhere in the type whose package may not be named leaves an error diagnostic",
           contract="ensures final(self).n_errors() >= old(self).n_errors(),\n"
                    "  names_foreign(*ty, current_package@, imports@) ==> final(self).n_errors() > old(self).n_errors(),\n decreases *ty,"),
    ],
)
