"""U-LOCALNAME: hir::HirTable::{local_hint, local_ident_name} (whole) — C19."""
import re
from vlib.gen import Unit, Fn, Adt, Raw

H = "crates/compiler/src/hir.rs"

UNIT = Unit(
    name="U-LOCALNAME",
    properties=["C19"],
    rules=["attrs"],
    describe="hir::HirTable::{local_hint, local_ident_name} (whole): the name under which a local variable (parameter, let, pattern variable, closure parameter, temporary) travels "
             "through every later stage is `<hint>/<idx>` — idx being its position in the package's table of locals — and (lemma local_names_differ) two such names are equal only "
             "for the same index: two different locals of a package never share a name, whatever their hints (shadowing binders of the same source name included)",
    trusted=["HirTable is a shim with the two fields the functions read; `format!(\"{}/{}\", hint, idx)` is read as hint, `/`, and the decimal text of the index; Display of u32: digits only, "
             "injective (std, ASSUMED); `assert_eq!(id.pkg, self.package)` is the precondition of the stub same_package; that a local's idx is its position in the table "
             "(alloc_ast_local / fresh_local: `idx: self.local_info.len() as u32`) is NOT part of this unit"],
    items=[
        Raw(path="contracts/localname.shim.rs"),
        Fn(file=H, name="local_hint", container="HirTable", ret="r",
           rewrites=[("assert_eq!(id.pkg, self.package);", "same_package(id.pkg, self.package);", 1), ("-> &str", "-> &String", 1), ("&self.local_info[id.idx as usize].hint", "&self.local_info[id.idx as usize].hint", 1)],
           obligation="the hint of the local at that position", contract="requires id.pkg == self.package, (id.idx as int) < self.local_info@.len(),\nensures r@ == self.local_info@[id.idx as int].hint@,"),
        Fn(file=H, name="local_ident_name", container="HirTable", ret="r",
           rewrites=[(re.compile(r'format!\("\{\}/\{\}", (self\.local_hint\(id\)), ((?:[^()]|\([^()]*\))*)\)'), r'str_cat(&str_cat(\1, "/"), string_text(&u32_to_string(\2)))', 1)],
           obligation="the name is the hint, `/`, the local's index",
           contract="requires id.pkg == self.package, (id.idx as int) < self.local_info@.len(),\nensures local_name_ok(r@, id.idx),"),
    ],
)
