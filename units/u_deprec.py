import copy, re
from vlib.gen import Unit, Fn, Adt, Raw
from units.u_art import UNIT as ART

S = "crates/compiler/src/pipeline/separate.rs"
art_types = [it for it in ART.items if isinstance(it, (Adt, Raw)) and getattr(it, "path", None) != "contracts/art.lemmas.rs"]
loader = copy.copy([it for it in ART.items if isinstance(it, Fn) and it.name == "load_interface_from_paths"][0])
loader.contract_only = True

RW = [("opts: PackageInputs", "opts: PackageInputs"),
      ("let mut deps: Vec<String> = imports.into_iter().collect();\n    deps.sort();\n    deps.dedup();", "let deps: Vec<String> = sorted_import_names(imports);"),
      ("let mut deps_envs = HashMap::new();", "let mut deps_envs = StrMap::<GlobalTypeEnv>::new();"),
      ("let mut deps_interfaces = HashMap::new();", "let mut deps_interfaces = StrMap::<PackageInterface>::new();"),
      ("let mut dep_hashes = BTreeMap::new();", "let mut dep_hashes = DepMap::new();"),
      ('dep == "Builtin"', 'str_eq_lit(&dep, "Builtin")', "*"), ("dep == opts.package", "str_eq_lit(&dep, opts.package.as_str())", "*"),
      (re.compile(r"\bdep\.clone\(\)"), "string_clone(&dep)", "*"),
      ("unit.hir_interface.clone()", "hir_interface_clone(&unit.hir_interface)"),
      (re.compile(r"unit\.interface_hash\.clone\(\)"), "string_clone(&unit.interface_hash)", "*"),
      ]
INV = """invariant built_against(deps_envs@, deps_interfaces@, dep_hashes.view2()),
               imports_g.contains(opts.package@) ==> pending(__iv0@, opts.package@),
           decreases __iv0@.len(),"""


def frag(name, cut, tail, extra_rw=()):
    return Fn(file=S, name=name, ret="r", attrs="#[verifier::loop_isolation(false)]",
              rules=["attrs", "fmtmsg", "msg_to_string", ("consume_into", ["deps"])],
              cut_before=cut, cut_tail=tail,
              obligation="type checking is entered only with, per dependency, the environment, HIR interface and recorded hash of ONE usable interface unit of that package",
              rewrites=RW + list(extra_rw),
              contract="",
              ghost=[("let deps: Vec<String> = sorted_import_names(imports);", "line-before", "let ghost imports_g = imports@;"),
                     ("let mut dep_hashes = DepMap::new();", "line-after",
                      "proof { if imports_g.contains(opts.package@) { let i = choose|i: int| 0 <= i < deps@.len() && (#[trigger] deps@[i])@ == opts.package@; lemma_pending_intro(deps@, i, opts.package@); } }"),
                     ("?dep_hashes.insert(", "line-after", "proof { assert(built_against(deps_envs@, deps_interfaces@, dep_hashes.view2())) by { let u = unit; assert(u.usable()); } }")],
              loops={0: INV})


UNIT = Unit(
    name="U-DEPREC",
    properties=["C15", "C16", "C14"],
    # the self-import clause (type checking is never entered by a package that imports itself: a 1-cycle) is C16's; the rest is C15's
    clause_scope={"C16": {"only": ["not_self_import(", "pending("]}, "C15": {"except": ["not_self_import(", "pending("]}},
    rules=["attrs", "fmtmsg", "msg_to_string"],
    describe="separate::{check_package, build_package} up to type checking (fragments): for every imported package, the type environment, the HIR "
             "interface and the hash recorded in `deps` all come from ONE usable interface unit of that package (what `link` later compares); "
             "(C16) type checking is never entered by a package that imports itself — the 1-cycle is an error in the separate drivers too",
    trusted=["FRAGMENT: everything from `typecheck_single_package` on is replaced by an opaque continuation whose precondition is the consistency statement",
             "read_source_files is a stub carrying the clause proved on the real function in U-LOADPKG (Ok only for a package not named Builtin); HashMap/BTreeMap and the import-list sort/dedup are shims; load_interface_from_paths is the contract proved in U-ART"],
    items=art_types + [Raw(path="contracts/deprec.shim.rs"), loader,
                       frag("check_package", "let (tast, exports, hir_interface, diagnostics) =",
                            "    check_rest(&opts.package, files, deps_interfaces, deps_envs, dep_hashes, Ghost(imports_g))",
                            [("let (files, imports, _sources) = read_source_files(&opts.package, &opts.input_files)?;",
                              "let (files, imports, _sources) = match read_source_files(&opts.package, &opts.input_files) { Ok(v) => v, Err(e) => { return Err(e); } };"),
                             (re.compile(r"load_interface_from_paths\(&dep, &opts\.interface_paths\)\?"), "(match load_interface_from_paths(dep.as_str(), &opts.interface_paths) { Ok(v) => v, Err(e) => { return Err(e); } })", "*")]),
                       frag("build_package", "let (tast, exports, hir_interface, diagnostics) =",
                            "    build_rest(&opts.package, files, sources, deps_interfaces, deps_envs, dep_hashes, dep_units, Ghost(imports_g))",
                            [("let (files, imports, sources) = read_source_files(&opts.package, &opts.input_files)?;",
                              "let (files, imports, sources) = match read_source_files(&opts.package, &opts.input_files) { Ok(v) => v, Err(e) => { return Err(e); } };"),
                             (re.compile(r"load_interface_from_paths\(&dep, &opts\.interface_paths\)\?"), "(match load_interface_from_paths(dep.as_str(), &opts.interface_paths) { Ok(v) => v, Err(e) => { return Err(e); } })", "*")]),
                       ],
)
