import copy, re
from vlib.gen import Unit, Fn, Adt, Raw
from units.u_art import UNIT as ART

S = "crates/compiler/src/pipeline/separate.rs"
art_types = [it for it in ART.items if isinstance(it, (Adt, Raw))]
loader = copy.copy([it for it in ART.items if isinstance(it, Fn) and it.name == "load_interface_from_paths"][0])
loader.contract_only = True

RW = [("opts: PackageInputs", "opts: PackageInputs"),
      ("let mut deps: Vec<String> = imports.into_iter().collect();\n    deps.sort();\n    deps.dedup();", "let deps: Vec<String> = sorted_import_names(imports);"),
      ("let mut deps_envs = HashMap::new();", "let mut deps_envs = StrMap::<GlobalTypeEnv>::new();"),
      ("let mut deps_interfaces = HashMap::new();", "let mut deps_interfaces = StrMap::<PackageInterface>::new();"),
      ("let mut dep_hashes = BTreeMap::new();", "let mut dep_hashes = DepMap::new();"),
      ('dep == "Builtin" || dep == opts.package', 'str_eq_lit(&dep, "Builtin") || str_eq_lit(&dep, opts.package.as_str())'),
      (re.compile(r"\bdep\.clone\(\)"), "string_clone(&dep)", "*"),
      ("unit.hir_interface.clone()", "hir_interface_clone(&unit.hir_interface)"),
      (re.compile(r"unit\.interface_hash\.clone\(\)"), "string_clone(&unit.interface_hash)", "*"),
      ]
INV = """invariant built_against(deps_envs@, deps_interfaces@, dep_hashes.view2()),
           decreases __iv0@.len(),"""


def frag(name, cut, tail, extra_rw=()):
    return Fn(file=S, name=name, ret="r", attrs="#[verifier::loop_isolation(false)]",
              rules=["attrs", "fmtmsg", "msg_to_string", ("consume_into", ["deps"])],
              cut_before=cut, cut_tail=tail,
              obligation="type checking is entered only with, per dependency, the environment, HIR interface and recorded hash of ONE usable interface unit of that package",
              rewrites=RW + list(extra_rw),
              contract="",
              ghost=[("?dep_hashes.insert(", "line-after", "proof { assert(built_against(deps_envs@, deps_interfaces@, dep_hashes.view2())) by { let u = unit; assert(u.usable()); } }")],
              loops={0: INV})


UNIT = Unit(
    name="U-DEPREC",
    properties=["C15"],
    rules=["attrs", "fmtmsg", "msg_to_string"],
    describe="separate::{check_package, build_package} up to type checking (fragments): for every imported package, the type environment, the HIR "
             "interface and the hash recorded in `deps` all come from ONE usable interface unit of that package (what `link` later compares)",
    trusted=["FRAGMENT: everything from `typecheck_single_package` on is replaced by an opaque continuation whose precondition is the consistency statement",
             "read_source_files, HashMap/BTreeMap and the import-list sort/dedup are shims; load_interface_from_paths is the contract proved in U-ART"],
    items=art_types + [Raw(path="contracts/deprec.shim.rs"), loader,
                       frag("check_package", "let (tast, exports, hir_interface, diagnostics) =",
                            "    check_rest(&opts.package, files, deps_interfaces, deps_envs, dep_hashes)",
                            [("let (files, imports, _sources) = read_source_files(&opts.package, &opts.input_files)?;",
                              "let (files, imports, _sources) = match read_source_files(&opts.package, &opts.input_files) { Ok(v) => v, Err(e) => { return Err(e); } };"),
                             (re.compile(r"load_interface_from_paths\(&dep, &opts\.interface_paths\)\?"), "(match load_interface_from_paths(dep.as_str(), &opts.interface_paths) { Ok(v) => v, Err(e) => { return Err(e); } })", "*")]),
                       frag("build_package", "let (tast, exports, hir_interface, diagnostics) =",
                            "    build_rest(&opts.package, files, sources, deps_interfaces, deps_envs, dep_hashes, dep_units)",
                            [("let (files, imports, sources) = read_source_files(&opts.package, &opts.input_files)?;",
                              "let (files, imports, sources) = match read_source_files(&opts.package, &opts.input_files) { Ok(v) => v, Err(e) => { return Err(e); } };"),
                             (re.compile(r"load_interface_from_paths\(&dep, &opts\.interface_paths\)\?"), "(match load_interface_from_paths(dep.as_str(), &opts.interface_paths) { Ok(v) => v, Err(e) => { return Err(e); } })", "*")]),
                       ],
)
