"""U-REFNAME: go::goast::ref_struct_name (whole) — C19, C02."""
import re
from vlib.gen import Unit, Fn, Adt, Raw

GA = "crates/compiler/src/go/goast.rs"
SPEC = '''// ---- specification for U-REFNAME ----
#[verifier::external_body] pub struct Ty { _p: u64 }
pub uninterp spec fn encoded(t: Ty) -> Seq<char>;                                   // go::mangle::encode_ty
#[verifier::external_body] pub fn encode_ty(ty: &Ty) -> (r: String) ensures r@ == encoded(*ty) { unimplemented!() }
pub uninterp spec fn gi(s: Seq<char>) -> Seq<char>;                                 // go::mangle::go_ident (U-GOIDENT: a legal identifier)
#[verifier::external_body] pub fn go_ident(s: &String) -> (r: String) ensures r@ == gi(s@) { unimplemented!() }
pub uninterp spec fn lower(s: Seq<char>) -> Seq<char>;                              // str::to_lowercase: NOT injective (`Foo` and `foo`)
#[verifier::external_body] pub fn lowercase_of(s: &String) -> (r: String) ensures r@ == lower(s@) { unimplemented!() }
pub proof fn cat_cancel(a: Seq<char>, x: Seq<char>, y: Seq<char>, b: Seq<char>) requires a + x + b == a + y + b ensures x == y {
    assert((a + x + b).len() == a.len() + x.len() + b.len());
    assert((a + y + b).len() == a.len() + y.len() + b.len());
    assert forall|i: int| 0 <= i < x.len() implies x[i] == y[i] by { assert((a + x + b)[a.len() + i] == x[i]); assert((a + y + b)[a.len() + i] == y[i]); }
    assert(x =~= y);
}
// C19: two references share a cell struct only when their element types have the same identifier spelling
pub proof fn ref_names_tell_spellings_apart(t1: Ty, t2: Ty) requires ref_name(t1) == ref_name(t2) ensures gi(encoded(t1)) == gi(encoded(t2)) {
    cat_cancel(ref_pre(), gi(encoded(t1)), gi(encoded(t2)), ref_post());
}
'''


def derived():
    """the two literal pieces of the format string of ref_struct_name, read on every run: the name is <piece 0> + the spelling + <piece 1>"""
    from vlib import gen
    from vlib.rsitems import AnchorLost
    src = gen.load_source(GA)
    s0, b0, e0 = src.find_fn("ref_struct_name", None)
    hits = re.findall(r'format!\(\s*"([^"\\{}]*)\{\}([^"\\{}]*)"\s*,', src.text[b0:e0])
    if len(hits) != 1:
        raise AnchorLost("ref_struct_name: a format string with exactly one `{}` placeholder not found")
    a, b = hits[0]
    return ("// DERIVED from the format string of go::goast::ref_struct_name on every run: fixed text around the element type's spelling\n"
            f'pub open spec fn ref_pre() -> Seq<char> {{ "{a}"@ }}\npub open spec fn ref_post() -> Seq<char> {{ ' + (f'"{b}"@' if b else "Seq::<char>::empty()") + " }\n"
            "pub open spec fn ref_name(t: Ty) -> Seq<char> { ref_pre() + gi(encoded(t)) + ref_post() }\n")

UNIT = Unit(
    name="U-REFNAME",
    properties=["C19", "C02"],
    rules=["attrs", ("strip", "tast::"), "fmt_concat"],
    describe="go::goast::ref_struct_name (whole): the Go struct that holds the cell of a `Ref[T]` is named by fixed text (read from the format string on every run) around the identifier spelling of T exactly as go_ident returns it; "
             "lemma: two such names are equal only for equal spellings — `Ref[Foo]` and `Ref[foo]` no longer share (and twice declare) one cell struct (the defect repaired by the "
             "second fix of round 7)",
    trusted=["encode_ty and go_ident are stubs (uninterpreted functions of their argument; go_ident's legality is U-GOIDENT's subject); should the code lower-case the spelling again, "
             "`to_lowercase` is the stub lowercase_of (an uninterpreted, NOT injective function), so the contract fails; `format!` with `{}` placeholders is concatenation (rule fmt_concat)"],
    items=[
        Raw(path="contracts/fmt.shim.rs"),
        Raw(text=derived, item="crates/compiler/src/go/goast.rs::ref_struct_name format string (ref_pre / ref_post)"),
        Raw(text=SPEC),
        Fn(file=GA, name="ref_struct_name", ret="r",
           pre_rewrites=[(re.compile(r"(go_ident\(&encode_ty\(elem\)\))\.to_lowercase\(\)"), r"lowercase_of(&\1)", "*")],
           obligation="the cell struct's name is `ref_` + the element type's identifier spelling, unchanged + `_x`",
           contract="ensures r@ =~= ref_name(*elem),"),
    ],
)
