"""U-SCOPESTACK: lift::Scope::{new, push_layer, pop_layer, get} (whole) — C08."""
import re
from vlib.gen import Unit, Fn, Adt, Raw

L = "crates/compiler/src/lift.rs"


def rev_loop(mt):
    """`for layer in self.layers.iter().rev() {` -> an index loop from the last layer down to the first (std's `rev` of a slice iterator)"""
    return "let mut __ri: usize = self.layers.len(); while __ri > 0 { __ri -= 1; let layer = &self.layers[__ri];"


UNIT = Unit(
    name="U-SCOPESTACK",
    properties=["C08"],
    rules=["attrs", "for_index"],
    describe="lift::Scope::{new, push_layer, pop_layer, get} (whole): the scope the lifting consults is a stack of layers — a new scope has one empty layer, push adds an empty layer on "
             "top, pop removes the top one — and `get` answers with the entry of the INNERMOST layer that binds the name (a let that shadows an outer variable of the same name "
             "wins while its layer is there, the outer one is back after the pop). These are the contracts U-LIFTTY assumes of its Scope stub",
    trusted=["IndexMap<String, V> is a finite map keyed by the key's text; `self.layers.iter().rev()` is read as an index loop from the last layer down; Scope::insert "
             "(`self.layers.last_mut()`: a mutable borrow out of the vector) stays assumed in U-LIFTTY"],
    items=[
        Raw(path="contracts/scopestack.shim.rs"),
        Adt(file=L, kw="struct", name="ScopeEntry", rules=["attrs", "pubfields"]),
        Adt(file=L, kw="struct", name="Scope", rules=["attrs", "pubfields"]),
        Fn(file=L, name="new", container="Scope", ret="r", rewrites=[("vec![IndexMap::new()]", "{ let mut __v: Vec<IndexMap<String, ScopeEntry>> = Vec::new(); __v.push(IndexMap::new()); __v }", 1)],
           obligation="a new scope: one empty layer", contract="ensures layers_of(r) =~= seq![Map::<Seq<char>, ScopeEntry>::empty()],"),
        Fn(file=L, name="push_layer", container="Scope", obligation="an empty layer on top; the others untouched",
           contract="ensures layers_of(*final(self)) =~= layers_of(*old(self)).push(Map::<Seq<char>, ScopeEntry>::empty()),"),
        Fn(file=L, name="pop_layer", container="Scope", obligation="the top layer removed; the others untouched",
           contract="ensures old(self).layers@.len() > 0 ==> layers_of(*final(self)) =~= layers_of(*old(self)).drop_last(), old(self).layers@.len() == 0 ==> layers_of(*final(self)) =~= layers_of(*old(self)),"),
        Fn(file=L, name="get", container="Scope", ret="r", attrs="#[verifier::loop_isolation(false)]",
           pre_rewrites=[(re.compile(r"for layer in self\.layers\.iter\(\)\.rev\(\) \{"), rev_loop, "*")],
           obligation="the entry of the innermost layer that binds the name",
           contract="ensures (match r { Some(e) => Some(*e), None => None }) == lookup(layers_of(*self), self.layers@.len() as int, name@),",
           # the invariant goes with the direction the layers are walked in: top-down (the pinned code), or bottom-up (then the natural invariant — no earlier layer binds the name — does not carry the postcondition)
           loop_fn=lambda k, header, kw: ("invariant __ri <= self.layers.len(), lookup(layers_of(*self), self.layers@.len() as int, name@) == lookup(layers_of(*self), __ri as int, name@),\n decreases __ri,"
                                          if "__ri" in header else
                                          (lambda mt: f"invariant {mt.group(1)} <= self.layers.len(), forall|j: int| 0 <= j < {mt.group(1)} ==> !layers_of(*self)[j].contains_key(name@),\n decreases self.layers.len() - {mt.group(1)}," if mt else None)(
                                              re.search(r"while\s+(__fk\d+)\s*<\s*self\.layers\.len\(\)", header)))),
    ],
)
