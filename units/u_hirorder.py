"""U-HIRORDER: the package order computed by hir::lower_to_project_hir_files_with_env (fragment; C13)."""
import re
from vlib.gen import Unit, Fn, Adt, Raw

H = "crates/compiler/src/hir.rs"

UNIT = Unit(
    name="U-HIRORDER",
    properties=["C13"],
    rules=["attrs"],
    # every way of obtaining the names from the hash map goes through a stub that marks the order as not determined: a failed proof here means
    # exactly that the lowering order (and with it the package ids and the HIR dump) depends on hash iteration order
    alarm_only_with=["from_hash_keys"],
    describe="hir::lower_to_project_hir_files_with_env, the order in which the packages are lowered (fragment): the names come out of a HashMap, "
             "so the sequence must be made a function of its contents (sorted by name) before it is used — it fixes the package ids of the project "
             "HIR and the order of the HIR dump. Determinism discipline as in U-DISCOVER (ghost flag `det`)",
    trusted=["FRAGMENT: from `let mut other_packages` to the construction of `package_index`; grouping the files and lowering each package are not in the unit",
             "shims: `keys()..collect()` yields the names in an order that is NOT a function of the map's contents; sorting by name makes it one; "
             "`sort_by_key` with another key is a STABLE sort and keeps whatever order the equal-key elements had; push / extend keep determinism"],
    items=[
        Raw(path="contracts/hirorder.shim.rs"),
        Fn(file=H, name="lower_to_project_hir_files_with_env", rename="project_package_order", ret="r",
           cut_from=re.compile(r"let mut (?:other_packages|package_order): Vec<PackageName> = grouped\s*\.keys\(\)"), cut_before="let mut package_index = HashMap::new();", cut_tail="    package_order",
           sig="fn project_package_order(grouped: &Grouped) -> NVec",
           rewrites=[(re.compile(r"let mut (\w+): Vec<PackageName> = grouped\s*\.keys\(\)\s*\.filter\(\|name\| name\.as_str\(\) != \"Main\"\)\s*\.cloned\(\)\s*\.collect\(\);"),
                      r"let mut \1 = NVec::from_hash_keys_not_main(grouped);", "*"),
                     (re.compile(r"let mut (\w+): Vec<PackageName> = grouped\s*\.keys\(\)\s*\.cloned\(\)\s*\.collect\(\);"), r"let mut \1 = NVec::from_hash_keys(grouped);", "*"),
                     (re.compile(r"(\w+)\.sort_by\(\|a, b\| a\.0\.cmp\(&b\.0\)\);"), r"\1.sort_by_name();", "*"),
                     (re.compile(r"(\w+)\.sort\(\);"), r"\1.sort_by_name();", "*"),
                     (re.compile(r"(\w+)\.sort_by_key\([^;]*\);"), r"\1.stable_sort_by_other_key();", "*"),
                     ("let mut package_order = Vec::new();", "let mut package_order = NVec::new();", "*"),
                     (re.compile(r'PackageName\("Main"\.to_string\(\)\)'), "main_name()", "*")],
           obligation="the order in which the packages are lowered is a function of the project (never the iteration order of the HashMap the files were grouped in)",
           contract="ensures r.det(),"),
    ],
)
