"""U-RTTYPES: go::compile::collect_runtime_types — Collector::{collect_type, collect_defs} (fragments) — C02."""
import re
from vlib.gen import Unit, Fn, Adt, Raw

GC = "crates/compiler/src/go/compile.rs"
SELF = [(re.compile(r"\bself\.collect_type\("), "collect_type(self_, ", "*"), (re.compile(r"\bself\."), "self_.", "*"),
        (re.compile(r"\bty\.clone\(\)"), "ty_clone(ty)", "*")]


def ty_loops(k, header, kw, body):
    mt = re.search(r"while\s+__fk(\d+)\s*<\s*([\w\.]+)\.len\(\)", header)
    if not mt:
        return None
    n, place = mt.group(1), mt.group(2)
    return (f"invariant __fk{n} <= {place}.len(), last == *self_, walked(*self_, c0, ty0, done), __sb{n}.subset_of(done), grows(__cb{n}, *self_),\n"
            f"  forall|j: int| 0 <= j < __fk{n} ==> done.contains(#[trigger] {place}@[j]),\n"
            f"decreases {place}.len() - __fk{n},")


RESUME = "lemma_walk_resume(last, *self_, c0, ty0, done); last = *self_;"


def snap():
    n = [0]
    def f(mt):
        """in front of the N-th `for` loop (textual order): the walk's bookkeeping is brought up to date and ghost snapshots `__sbN` / `__cbN` of the set of components walked so far and of the collector are taken — proof-only"""
        k = n[0]
        n[0] += 1
        return f"proof {{ {RESUME} }} let ghost __sb{k} = done; let ghost __cb{k} = *self_; " + mt.group(0)
    return f


def call(mt):
    """every recursive call `self.collect_type(X)` is wrapped: `{ let __x: &Ty = X; <ghost: bookkeeping up to date, the call's precondition> collect_type(self_, __x); <ghost: X is walked> }` — the executable part is the call itself with its argument bound to a local first"""
    x, end = mt.group(1), mt.group(2)
    body = (f"let __x: &Ty = {x}; proof {{ {RESUME} lemma_walk_pre(*self_, c0, ty0, done, *__x); }} collect_type(self_, __x); "
            f"proof {{ lemma_walk_call(last, *self_, c0, ty0, done, *__x); done = done.insert(*__x); last = *self_; }}")
    return "{ " + body + " }," if end == "," else body


def defs_loops(k, header, kw, body):
    mt = re.search(r"while\s+(__\w+)\s*<\s*([\w\.@]+)\.len\(\)", header)
    if not mt:
        return None
    i, place = mt.group(1), mt.group(2)
    base = f"invariant {i} <= {place}.len(), closed(*self_), grows(c0, *self_),\n"
    if place == "__ss":
        return (base + "  __ss@ == env_structs(goenv),\n"
                "  forall|i: int| 0 <= i < __si && emitted_struct((#[trigger] __ss@[i]).0, __ss@[i].1) ==> struct_covered(*self_, __ss@[i].1),\n"
                "decreases __ss.len() - __si,")
    if place == "def.fields":
        return (base + "  __ss@ == env_structs(goenv),\n"
                "  forall|i: int| 0 <= i < __si - 1 && emitted_struct((#[trigger] __ss@[i]).0, __ss@[i].1) ==> struct_covered(*self_, __ss@[i].1),\n"
                f"  forall|j: int| 0 <= j < {i} ==> covers(*self_, (#[trigger] def.fields@[j]).1),\n"
                f"decreases def.fields.len() - {i},")
    en = ("  __es@ == env_enums(goenv), __ss@ == env_structs(goenv),\n"
          "  forall|i: int| 0 <= i < __ss.len() && emitted_struct((#[trigger] __ss@[i]).0, __ss@[i].1) ==> struct_covered(*self_, __ss@[i].1),\n")
    if place == "__es":
        return (base + en + "  forall|i: int| 0 <= i < __ei && emitted_enum((#[trigger] __es@[i]).0, __es@[i].1) ==> enum_covered(*self_, __es@[i].1),\n"
                "decreases __es.len() - __ei,")
    prev = "  forall|i: int| 0 <= i < __ei - 1 && emitted_enum((#[trigger] __es@[i]).0, __es@[i].1) ==> enum_covered(*self_, __es@[i].1),\n"
    if place == "def.variants":
        return (base + en + prev + f"  forall|v: int| 0 <= v < {i} ==> variant_covered(*self_, #[trigger] def.variants@[v]),\n"
                f"decreases def.variants.len() - {i},")
    if place == "fields":
        return (base + en + prev + "  forall|v: int| 0 <= v < __vi - 1 ==> variant_covered(*self_, #[trigger] def.variants@[v]),\n"
                f"  forall|j: int| 0 <= j < {i} ==> covers(*self_, #[trigger] fields@[j]),\n"
                f"decreases fields.len() - {i},")
    return None


UNIT = Unit(
    name="U-RTTYPES",
    properties=["C02"],
    rules=["attrs", ("strip", "tast::")],
    describe="go::compile::collect_runtime_types, the nested Collector::{collect_type, collect_defs}: every tuple / array / ref type that occurs in a type "
             "handed to collect_type — as the type itself or inside a tuple component, an array / Vec / ref element, a type argument, a parameter or "
             "result type, i.e. wherever its Go spelling is part of the spelling of the whole — is in the collected sets afterwards (the sets the "
             "TupleN_.. structs and the array / ref helpers are generated from), although a type found present is not walked again; and collect_defs "
             "hands every field type of every emitted struct definition and every payload type of every emitted enum definition to collect_type",
    trusted=["indexmap::IndexSet<Ty> is a shim over a mathematical set (insert returns whether the value was new); derived Clone is an identical copy",
             "the walk over the function bodies (collect_fn / collect_aexpr / collect_cexpr / collect_imm) is not verified here",
             "which definitions are emitted is the code's own predicate (struct_def_is_emitted / enum_def_is_emitted, shared with gen_type_definition), "
             "uninterpreted here",
             "that the Go printer spells a type's components exactly at the positions `sub` lists is read off tast_ty_to_go_type, not proved"],
    items=[
        Adt(file="crates/compiler/src/tast.rs", kw="enum", name="Ty", rules=["attrs"]),
        Raw(text="#[verifier::external_body] pub struct TypeVar { _p: u32 }\n"),
        Raw(path="contracts/rttypes.spec.rs"),
        Fn(file=GC, name="collect_runtime_types", rename="collect_type", attrs="#[verifier::loop_isolation(false)]", rules=["attrs", ("strip", "tast::"), "for_index"],
           cut_from="fn collect_type(&mut self, ty: &tast::Ty) {", cut_inside=True, cut_before="@block-end",
           sig="fn collect_type(self_: &mut Collector, ty: &Ty)",
           rewrites=SELF,
           pre_rewrites=[(re.compile(r"\bfor \w+ in &?[\w\.]+ \{"), snap(), "*"), (re.compile(r"\bself\.collect_type\(([^()]+)\)(;|,)"), call, "*")],
           obligation="every tuple / array / ref type occurring in the type is collected afterwards; nothing is removed; every newly collected type has its "
                      "own components collected (so that `already present` may stop the walk)",
           contract="requires pre_ok(*old(self_), *ty),\nensures post_ok(*old(self_), *final(self_), *ty),\ndecreases *ty,",
           ghost=[("@entry", "", "let ghost c0 = *self_; let ghost ty0 = *ty; let ghost mut last = *self_; let ghost mut done: Set<Ty> = Set::empty();\n"
                                    "proof { lemma_walk_start(c0, ty0); }"),
                  ("@exit", "", "proof { " + RESUME + " lemma_walk_done(*self_, c0, ty0, done); }")],
           loop_fn=ty_loops),
        Fn(file=GC, name="collect_runtime_types", rename="collect_defs", attrs="#[verifier::loop_isolation(false)]", rules=["attrs", ("strip", "tast::")],
           cut_from="fn collect_defs(&mut self, goenv: &GlobalGoEnv) {", cut_inside=True, cut_before="@block-end",
           sig="fn collect_defs(self_: &mut Collector, goenv: &GlobalGoEnv)",
           rewrites=[(re.compile(r"\bself\.collect_type\(([^()]+)\);"),
                      r"let ghost __c = *self_; collect_type(self_, \1); proof { lemma_closed_call(__c, *self_, *\1); lemma_covers_mono_all(__c, *self_); }", "*")],
           pre_rewrites=[(re.compile(r"for\ \(name,\ def\)\ in\ goenv\.structs\(\)\ \{"), "let __ss = goenv_structs(goenv); let mut __si: usize = 0; while __si < __ss.len() { let name = &__ss[__si].0; let def = &__ss[__si].1; __si += 1;", "*"),
                         (re.compile(r"for\ \(name,\ def\)\ in\ goenv\.enums\(\)\ \{"), "let __es = goenv_enums(goenv); let mut __ei: usize = 0; while __ei < __es.len() { let name = &__es[__ei].0; let def = &__es[__ei].1; __ei += 1;", "*"),
                         (re.compile(r"for\ \(_,\ ty\)\ in\ \&def\.fields\ \{"), "let mut __fi: usize = 0; while __fi < def.fields.len() { let ty = &def.fields[__fi].1; __fi += 1;", "*"),
                         (re.compile(r"for\ \(_,\ fields\)\ in\ \&def\.variants\ \{"), "let mut __vi: usize = 0; while __vi < def.variants.len() { let fields = &def.variants[__vi].1; __vi += 1;", "*"),
                         (re.compile(r"for\ ty\ in\ fields\ \{"), "let mut __ti: usize = 0; while __ti < fields.len() { let ty = &fields[__ti]; __ti += 1;", "*")],
           obligation="every field type of every emitted struct definition and every payload type of every emitted enum definition is covered by the "
                      "collected sets afterwards; the sets stay closed and only grow",
           contract="requires closed(*old(self_)),\nensures closed(*final(self_)), grows(*old(self_), *final(self_)), defs_covered(*final(self_), goenv),",
           ghost=[("@entry", "", "let ghost c0 = *self_;")],
           loop_fn=defs_loops),
        Fn(file=GC, name="collect_runtime_types", rename="collect_file", ret="r", attrs="#[verifier::loop_isolation(false)]", rules=["attrs", ("strip", "tast::"), "for_index"],
           cut_from=re.compile(r"fn collect_file\(\s*mut self,\s*file: &anf::File,\s*goenv: &GlobalGoEnv,\s*\) -> \(IndexSet<tast::Ty>, IndexSet<tast::Ty>, IndexSet<tast::Ty>\) \{"),
           cut_inside=True, cut_before="@block-end",
           sig="fn collect_file(self0: Collector, file: &AnfFile, goenv: &GlobalGoEnv) -> (IndexSet<Ty>, IndexSet<Ty>, IndexSet<Ty>)",
           rewrites=[(re.compile(r"\bself\.collect_fn\("), "collect_fn(&mut self_, ", "*"), (re.compile(r"\bself\.collect_defs\("), "collect_defs(&mut self_, ", "*"),
                     (re.compile(r"\bself\."), "self_.", "*")],
           obligation="the three sets handed to the generators of the TupleN_.. structs and the array / ref helpers cover every field and payload type of "
                      "every emitted type definition (the definitions are walked after the function bodies, before the sets are returned)",
           contract="requires closed(self0),\nensures defs_covered(Collector { tuples: r.0, arrays: r.1, refs: r.2 }, goenv),",
           pre_rewrites=[(re.compile(r"(-> \(IndexSet<Ty>, IndexSet<Ty>, IndexSet<Ty>\) \{\n)"), r"\1let mut self_ = self0;\n", 1),
                         (re.compile(r"\bfor item in &file\.toplevels \{"), r"let ghost __dc = defs_covered(self_, goenv); for item in &file.toplevels {", "*")],
           loop_fn=lambda k, header, kw: "invariant __fk0 <= file.toplevels.len(), closed(self_), __dc ==> defs_covered(self_, goenv),\ndecreases file.toplevels.len() - __fk0," if "__fk0" in header else None),
    ],
)
