import re
from vlib.gen import Unit, Fn, Adt, Raw

N = "crates/compiler/src/typer/name_resolution.rs"
EQ = [("package == current_package", "str_eq(package, current_package)"), ('package == "Builtin"', 'str_eq(package, "Builtin")')]

UNIT = Unit(
    name="U-PKGALLOW",
    properties=["C16"],
    rules=["attrs"],
    describe="name_resolution::package_allowed (free function and ResolutionContext method): a qualified name's package is allowed "
             "exactly when it is the current package, `Builtin`, or imported — for all package names and import sets",
    trusted=["`&str == &str` and HashSet<String>::contains(&str) compare by text (shims str_eq, HashSet::contains)",
             "that every qualified-name site *calls* package_allowed is not decided here (call sites are inside resolve_expr / lower_type_expr)"],
    items=[
        Raw(path="contracts/pkg.shim.rs"),
        Adt(file=N, kw="struct", name="ResolutionContext",
            rewrites=[("&'a HashMap<String, hir::BuiltinId>", "&'a BuiltinMap"), ("&'a HashMap<String, hir::DefId>", "&'a DefMap"),
                      ("&'a HashMap<String, hir::PackageInterface>", "&'a DepsMap")]),
        Fn(file=N, name="package_allowed", ret="r", rewrites=EQ,
           obligation="allowed <=> current package, Builtin, or imported",
           contract="ensures r == may_name(package@, current_package@, imports@),",
           ghost=[("@entry", "", 'proof { reveal_strlit("Builtin"); }')]),
        Fn(file=N, name="package_allowed", container="ResolutionContext", as_method_of="<'a> ResolutionContext<'a>", ret="r",
           rewrites=[("package == self.current_package", "str_eq(package, self.current_package)"), ('package == "Builtin"', 'str_eq(package, "Builtin")')],
           obligation="allowed <=> current package, Builtin, or imported",
           contract="ensures r == may_name(package@, self.current_package@, self.imports@),"),
    ],
)
