"""U-MATCHENTRY: the EMatch arm of compile_match::compile_expr (fragment)."""
import copy
import re
from vlib.gen import Unit, Fn, Adt, Raw
from units.u_rows import UNIT as ROWS

CM = "crates/compiler/src/compile_match.rs"
base = []
for it in ROWS.items:
    base.append(it)
    if isinstance(it, Raw) and getattr(it, "path", None) == "contracts/rows.shim.rs":
        break
make_rows = copy.copy([it for it in ROWS.items if isinstance(it, Fn) and it.name == "make_rows"][0])
make_rows.contract_only = True

UNIT = Unit(
    name="U-MATCHENTRY",
    properties=["C06"],
    rules=["attrs", ("strip", "tast::"), ("strip", "common_defs::")],
    describe="compile_match::compile_expr, EMatch arm (fragment): the scrutinee of a match is evaluated exactly once — a variable is matched "
             "directly, any other expression is bound once to a fresh variable by a let around the decision tree — and the decision tree is "
             "that of the pattern matrix make_rows builds from the arms (one row per arm, in source order)",
    trusted=["FRAGMENT: one arm of compile_expr; compile_expr (recursive) and compile_rows are stubs with uninterpreted results (core_of, rows_core); "
             "make_rows appears with the contract U-ROWS proves (contract-only stub); gensym returns an arbitrary name (its freshness is C19's)"],
    items=base + [
        Raw(path="contracts/matchentry.shim.rs"),
        Raw(path="contracts/box.shim.rs"),
        Raw(text="use Expr::*;\nuse Pat::*;\n"),
        make_rows,
        Fn(file=CM, name="compile_expr", rename="compile_match_expr", ret="r",
           cut_from=re.compile(r"\n        EMatch \{\s*expr,\s*arms,\s*ty,\s*astptr,\s*\} => match expr\.as_ref\(\) \{"), cut_inside=True, cut_before="@block-end", cut_tail="    }",
           sig="fn compile_match_expr(expr: &Box<Expr>, arms: &Vec<Arm>, ty: &Ty, astptr: &Option<MySyntaxNodePtr>, genv: &GlobalTypeEnv, gensym: &Gensym, diagnostics: &mut Diagnostics) -> core::Expr {\n    match box_as_ref(expr)",
           rewrites=[(re.compile(r"\.clone\(\)"), ".vclone()", "*"), (re.compile(r"astptr\.as_ref\(\)\.map\(\|ptr\| ptr\.text_range\(\)\)"), "range_of(astptr)", "*"),
                     (re.compile(r"\bcompile_rows\("), "compile_rows_rec(", "*"), ("make_rows(name, arms)", "make_rows(string_as_str(name), arms)", "*"),
                     ("mtmp.as_str()", "string_as_str(&mtmp)", "*"),
                     (re.compile(r"\n([ \t]*)compile_rows_rec\(genv, gensym, diagnostics, rows, ty, match_range\)\n"),
                      r"\n\1let ghost rows_g = rows@;\n\1let __res = compile_rows_rec(genv, gensym, diagnostics, rows, ty, match_range);\n\1proof { assert(matrix_of(rows_g, name@, arms@)); }\n\1__res\n", "*"),
                     (re.compile(r"let core_rows = compile_rows_rec\("), "let ghost rows_g = rows@; proof { assert(matrix_of(rows_g, mtmp@, arms@)); } let core_rows = compile_rows_rec(", "*")],
           obligation="a variable scrutinee is matched directly; any other scrutinee is evaluated once, bound to a fresh variable, then matched; the "
                      "matrix has one row per arm in source order",
           contract="ensures match_entry_ok(r, **expr, arms@, *ty),"),
    ],
)
