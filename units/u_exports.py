"""U-EXPORTS: artifact::PackageExports::{apply_to, to_genv} (whole) — C14."""
import re
from vlib.gen import Unit, Fn, Adt, Raw

AR = "crates/compiler/src/artifact.rs"
E = "crates/compiler/src/env.rs"
TABLES = ["type_env.enums", "type_env.structs", "type_env.extern_types", "trait_env.trait_defs", "trait_env.trait_impls", "trait_env.inherent_impls", "value_env.funcs", "value_env.extern_funcs"]
FRAME = ", ".join(f"genv.{t}@ == old(genv).{t}@" for t in TABLES)


def loops(k, header, kw):
    mt = re.search(r"while\s+(__ek(\d+))\s*<\s*(__es\d+)\.len\(\)", header)
    if not mt:
        return None
    ek, n, es = mt.group(1), int(mt.group(2)), mt.group(3)
    return None if n >= len(LOOP_TABLE) or LOOP_TABLE[n] not in TABLES else _inv(ek, es, LOOP_TABLE[n])


LOOP_TABLE = []      # table walked by the n-th loop, read from the source text by `tables_walked` on every run


def tables_walked(mt):
    """(no change of the text) records which table each `for (k, v) in self.<table>.iter()` walks, in source order — the loop invariants are chosen by that, so reordered or added loops keep theirs"""
    text = mt.group(0)
    LOOP_TABLE[:] = re.findall(r"for \(\w+, \w+\) in self\s*\.\s*(\w+\s*\.\s*\w+)\s*\.iter\(\)", text)
    LOOP_TABLE[:] = [re.sub(r"\s+", "", t) for t in LOOP_TABLE]
    return text


def _inv(ek, es, table):
    n = int(es[4:])
    parts = [f"{ek} <= {es}.len()", f"is_entries(self.{table}@, {es}@)", f"merged_upto(__g{n}.{table}@, {es}@, {ek} as int, genv.{table}@)"]
    parts += [f"genv.{t}@ == __g{n}.{t}@" for t in TABLES if t != table]
    return "invariant " + ",\n  ".join(parts) + f",\n decreases {es}.len() - {ek},"


def hints(mt):
    """PROOF HINTS only (nothing executable changes), per loop `let __esN = self.<table>.entries(); .. while .. { .. genv.<table>.insert(k, v); }`: a ghost snapshot of the environment
    in front of the loop, the table before the insert named and lemma_merge_step after it, lemma_merge_done behind the loop"""
    from vlib.rsitems import mask, match_delim
    text = mt.group(0)
    pos = 0
    while True:
        m = mask(text)
        h = re.search(r"let (__es(\d+)) = self\.([\w\s\.]+?)\.entries\(\);", m[pos:])
        if not h:
            return text
        n, table = int(h.group(2)), re.sub(r"\s+", "", text[pos + h.start(3):pos + h.end(3)])
        w = re.search(r"\bwhile\b[^{]*\{", m[pos + h.end():])
        b = pos + h.end() + w.end() - 1
        e = match_delim(m, b)
        body = text[b:e + 1]
        body2, k = re.subn(r"genv\s*\.\s*" + table.replace(".", r"\s*\.\s*") + r"\s*\.insert\(vclone\((\w+)\), vclone\((\w+)\)\);",
                           lambda x: (f"let ghost __c = genv.{table}@; genv.{table}.insert(vclone({x.group(1)}), vclone({x.group(2)})); "
                                      f"proof {{ lemma_merge_step(__g{n}.{table}@, self.{table}@, __es{n}@, (__ek{n} - 1) as int, __c, *{x.group(1)}, *{x.group(2)}); }}"), body)
        new = (f"let ghost __g{n} = *genv; " + text[pos + h.start():b] + body2 +
               f" proof {{ lemma_merge_done(__g{n}.{table}@, self.{table}@, __es{n}@, genv.{table}@); }}")
        text = text[:pos + h.start()] + new + text[e + 1:]
        pos = pos + h.start() + len(new)


UNIT = Unit(
    name="U-EXPORTS",
    properties=["C14"],
    rules=["attrs", "for_entries"],
    describe="artifact::PackageExports::{apply_to, to_genv} (whole): loading a dependency's exports into an environment puts EVERY entry of EVERY exported table in — enums, structs, "
             "extern types, traits, trait impls, inherent impls, functions, extern functions — (an exported entry wins over one of the same key) and changes nothing else; "
             "to_genv is the environment with exactly the three exported tables. A table left out would make a package that type-checks as part of the whole program fail, or "
             "resolve differently, when built against interface files",
    trusted=["IndexMap is a finite map whose iter() yields every key once; derived Clone is an identical copy; the eight tables are the fields the pinned TypeEnv / TraitEnv / "
             "ValueEnv have — a table added later is not noticed by this contract"],
    items=[
        Raw(path="contracts/exports.shim.rs"),
        Adt(file=E, kw="struct", name="TypeEnv", rules=["attrs"]),
        Adt(file=E, kw="struct", name="TraitEnv", rules=["attrs"], rewrites=[("tast::Ty", "Ty", "*")]),
        Adt(file=E, kw="struct", name="ValueEnv", rules=["attrs"]),
        Adt(file=E, kw="struct", name="GlobalTypeEnv", rules=["attrs"]),
        Adt(file=AR, kw="struct", name="PackageExports", rules=["attrs"]),
        Fn(file=AR, name="apply_to", container="PackageExports", attrs="#[verifier::loop_isolation(false)]",
           pre_rewrites=[(re.compile(r"(?s)\A.*\Z"), tables_walked, 1), (re.compile(r"\b(\w+)\.clone\(\)"), r"vclone(\1)", "*")],
           rewrites=[(re.compile(r"(?s)\A.*\Z"), hints, 1)],
           obligation="every entry of every exported table is in the environment afterwards; nothing else changes",
           contract="ensures " + ",\n  ".join(f"merged(old(genv).{t}@, self.{t}@, final(genv).{t}@)" for t in TABLES) + ",",
           loop_fn=loops),
        Fn(file=AR, name="to_genv", container="PackageExports", ret="r",
           pre_rewrites=[(re.compile(r"\bself\.(\w+)\.clone\(\)"), r"vclone(&self.\1)", "*")],
           obligation="the environment made of exactly the exported tables",
           contract="ensures r.type_env == self.type_env, r.trait_env == self.trait_env, r.value_env == self.value_env,"),
    ],
)
