"""U-DYNIMPL: go::compile::{gen_dyn_wrap_fn (whole), gen_dyn_helper_fns (fragment)} — C02, C17.   U-DYNORIGIN: mono::rewrite_expr_types (EToDyn fragment)."""
import re
from vlib.gen import Unit, Fn, Adt, Raw
from units.u_gopkgs import types

GC = "crates/compiler/src/go/compile.rs"
MO = "crates/compiler/src/mono.rs"
RW = [(re.compile(r"\bgoast::"), "", "*"), (re.compile(r"\bgoty::"), "", "*"), (re.compile(r"\btast::"), "", "*"),
      (re.compile(r"(\w+)\.extend\((\w+)\.iter\(\)\.map\(tast_ty_to_go_type\)\);"), r"extend_go_types(&mut \1, \2);", "*"),
      (re.compile(r"\b(receiver_go_ty|ret_go_ty)\.clone\(\)"), r"gotype_clone(&\1)", "*"),
      ('"self".to_string()', 'str_to_string("self")', "*"), ('format!("p{}", i)', "fmt_p(i)", "*")]
ENUM = (re.compile(r"for \(i, pty\) in params\.iter\(\)\.enumerate\(\) \{"),
        "let mut __e: usize = 0; while __e < params.len() { let i = __e; let pty = &params[__e]; __e += 1;", "*")


def wrap_loops(k, header, kw):
    if "__e <" not in header:
        return None
    if k == 0:
        return ("invariant __e <= params.len(), go_params@.len() == __e + 1, go_params@[0].0@ == \"self\"@, "
                "forall|j: int| 0 <= j < __e ==> (#[trigger] go_params@[j + 1]).0@ == pname(j),\ndecreases params.len() - __e,")
    return ("invariant __e <= params.len(), args@.len() == __e + 1, args@[0] == asserted_self, "
            "forall|j: int| 0 <= j < __e ==> (#[trigger] args@[j + 1] matches Expr::Var { name: an, .. } && an@ == pname(j)),\ndecreases params.len() - __e,")


def wrap_contract(sig):
    """helper contract derived from the helper's signature: the impl function is named after the `impl_ty` parameter where the function has one, after the
    receiver type otherwise (what the function can know); the top-level postcondition (wrap_items) demands the type the table gives"""
    it = "*impl_ty" if re.search(r"\bimpl_ty\s*:", sig) else "*for_ty"
    return f"requires params@.len() < usize::MAX,\nensures is_wrap(r, trait_name@, *for_ty, {it}, method_name@, params@.len() as int),"


UNIT = Unit(
    name="U-DYNIMPL",
    properties=["C02", "C17"],
    rules=["attrs"],
    describe="the wrapper function a dyn value's vtable points to (gen_dyn_wrap_fn) asserts the receiver back to its Go type and passes it, with the wrapper's own "
             "parameters in order, to THE impl function of (trait, type the impl was written for, method) — the name compile_match defines and the static call "
             "forms use (names::trait_impl_fn_name); the type the impl was written for is what mono recorded when it collapsed the receiver type of the "
             "coercion (`Box[int32]` -> `Box__int32`), and the receiver type itself where nothing was collapsed",
    trusted=["go_ident / trait_impl_fn_name / dyn_wrap_go_name / tast_ty_to_go_type are stubs (deterministic uninterpreted functions of their arguments); that "
             "compile_match and the static call sites name the impl function trait_impl_fn_name(trait, type as written, method) is not part of this unit",
             "FRAGMENT wrap_items: gen_dyn_helper_fns from the lookup of the impl type to the end of the loop over the trait's methods (the sort of the vtable "
             "list and the vtable constructor are outside; the latter is U-DYNVT); `for (a, b, c) in &methods` is an index loop",
             "machine arithmetic: a parameter list is shorter than usize::MAX (precondition; `params.len() + 1` is a capacity hint)"],
    items=types + [
        Raw(path="contracts/dynorigin.shim.rs"),
        Raw(path="contracts/dynimpl.shim.rs"),
        Fn(file=GC, name="gen_dyn_wrap_fn", ret="r", attrs="#[verifier::loop_isolation(false)]", rules=["attrs"],
           pre_rewrites=[ENUM],
           rewrites=RW + [("params: &[Ty]", "params: &Vec<Ty>"), ("trait_name.to_string()", "str_to_string(trait_name)"),
                          ("let mut go_params = Vec::with_capacity(params.len() + 1);", "let mut go_params: Vec<(String, GoType)> = Vec::with_capacity(params.len() + 1);"),
                          ("let mut impl_param_tys = Vec::with_capacity(params.len() + 1);", "let mut impl_param_tys: Vec<GoType> = Vec::with_capacity(params.len() + 1);"),
                          ("let mut args = Vec::with_capacity(params.len() + 1);", "let mut args: Vec<Expr> = Vec::with_capacity(params.len() + 1);")],
           obligation="the wrapper asserts `self` to the receiver's Go type and calls go_ident(trait_impl_fn_name(trait, impl type, method)) with it and its own "
                      "parameters in order",
           contract=wrap_contract,
           loop_fn=wrap_loops),
        Fn(file=GC, name="gen_dyn_helper_fns", rename="wrap_items", attrs="#[verifier::loop_isolation(false)]", rules=["attrs"],
           cut_from="let methods = trait_method_sigs(goenv, &trait_name);", cut_before="items.push(goast::Item::Fn(gen_dyn_vtable_ctor_fn(",
           sig="fn wrap_items(goenv: &GlobalGoEnv, trait_name: String, for_ty: Ty, methods: Vec<(String, Vec<Ty>, Ty)>, items: &mut Vec<Item>)",
           pre_rewrites=[("let methods = trait_method_sigs(goenv, &trait_name);", "", 1), ("for (method_name, params, ret_ty) in &methods {", "let mut __ix: usize = 0; while __ix < methods.len() { let method_name = &methods[__ix].0; let params = &methods[__ix].1; let ret_ty = &methods[__ix].2; __ix += 1;")],
           rewrites=RW + [(re.compile(r"&trait_name,"), "trait_name.as_str(),", 1), (re.compile(r"(\n\s*)method_name,"), r"\1method_name.as_str(),", 1)],
           obligation="for every method of the trait one wrapper is emitted, in order, built for the receiver type and the impl type the table gives for it (the "
                      "receiver type itself when the table has no entry)",
           contract="requires forall|i: int| 0 <= i < methods@.len() ==> (#[trigger] methods@[i]).1@.len() < usize::MAX,\n"
                    "ensures final(items)@.len() == old(items)@.len() + methods@.len(),\n"
                    "  forall|i: int| 0 <= i < old(items)@.len() ==> final(items)@[i] == old(items)@[i],\n"
                    "  forall|i: int| 0 <= i < methods@.len() ==> (#[trigger] final(items)@[old(items)@.len() + i] matches Item::Fn(f) && "
                    "is_wrap(f, trait_name@, for_ty, origin(goenv.liftenv.monoenv.dyn_impl_tys@, for_ty), methods@[i].0@, methods@[i].1@.len() as int)),",
           loop_fn=lambda k, header, kw: ("invariant __ix <= methods.len(), items@.len() == old(items)@.len() + __ix,\n"
               "  forall|i: int| 0 <= i < old(items)@.len() ==> items@[i] == old(items)@[i],\n"
               "  forall|i: int| 0 <= i < __ix ==> (#[trigger] items@[old(items)@.len() + i] matches Item::Fn(f) && "
               "is_wrap(f, trait_name@, for_ty, origin(goenv.liftenv.monoenv.dyn_impl_tys@, for_ty), methods@[i].0@, methods@[i].1@.len() as int)),\n"
               "decreases methods.len() - __ix,") if "__ix <" in header else None),
    ],
)
