"""U-INST: typer::unify::Typer::{inst_ty, _go_inst_ty} — instantiating a type scheme (whole functions)."""
import re
from vlib.gen import Unit, Fn, Adt, Raw

U = "crates/compiler/src/typer/unify.rs"
KEEP = "extends(old(subst)@, subst@),"


def loops(k, header, kw, body=None):
    mt = re.search(r"while\s+__mi(\d+)\s*<\s*(\w+)\.len\(\)", header)
    if not mt:
        return None
    i, c = mt.group(1), mt.group(2)
    head = ""
    if c == "args":
        # the head of a type application was instantiated BEFORE the loop: what it denotes is stable under the bindings the loop adds
        head = "  extends(__s1, subst@),\n"
    return (f"invariant __mi{i} <= {c}.len(), __mo{i}@.len() == __mi{i}, {KEEP}\n" + head +
            f"  forall|j: int| #![trigger {c}@[j]] 0 <= j < __mi{i} ==> is_apply({c}@[j], subst@, __mo{i}@[j]) && covers({c}@[j], subst@),\n"
            f"decreases {c}.len() - __mi{i},")


UNIT = Unit(
    name="U-INST",
    properties=["C03"],
    rules=["attrs", ("strip", "tast::"), "iter_map_collect"],
    describe="Typer::_go_inst_ty / inst_ty (instantiation of a type scheme at a use): the result is the scheme's type with every type parameter "
             "replaced according to ONE substitution — the same parameter is replaced by the same inference variable wherever it occurs "
             "(in tuple components, type arguments, parameter and result types alike), bindings made earlier are kept, and every parameter of the "
             "type is bound afterwards; termination by structural recursion",
    trusted=["HashMap<String, Ty> is a finite map keyed by the key's text (shim Subst: get / insert); derived Clone is an identical copy; "
             "fresh_ty_var returns some inference variable (its freshness is not part of the clause)",
             "`.iter().map(|t| self._go_inst_ty(t, subst)).collect()` is rewritten to an index loop by rule iter_map_collect (std semantics assumed)"],
    items=[
        Adt(file="crates/compiler/src/tast.rs", kw="enum", name="Ty", rules=["attrs"]),
        Raw(path="contracts/munify.shim.rs"),
        Raw(path="contracts/msubst.spec.rs"),
        Raw(path="contracts/inst.shim.rs"),
        Fn(file=U, name="_go_inst_ty", container="Typer", ret="r", attrs="#[verifier::loop_isolation(false)]",
           obligation="one substitution for the whole type: the result is the type with its parameters replaced by what the (growing) substitution "
                      "binds them to; earlier bindings are kept; every parameter of the type is bound afterwards",
           rewrites=[("subst: &mut HashMap<String, Ty>", "subst: &mut Subst"),
                     (re.compile(r"\bname: name\.clone\(\)"), "name: string_clone(name)", "*"),
                     (re.compile(r"\btrait_name: trait_name\.clone\(\)"), "trait_name: string_clone(trait_name)", "*"),
                     (re.compile(r"=> ty\.clone\(\),"), "=> ty_clone(ty),", "*"),
                     ("ty.clone()\n", "ty_clone(ty)\n", "*"),
                     ("subst.insert(name.clone(), new_ty.clone());", "subst.insert(string_clone(name), ty_clone(&new_ty));"),
                     (re.compile(r"let (\w+) = \{ let mut (__mo\d+) = Vec::new\(\);"), r"let \1 = { let mut \2: Vec<Ty> = Vec::new();", "*")],
           contract="""ensures extends(old(subst)@, final(subst)@), is_apply(*ty, final(subst)@, r), covers(*ty, final(subst)@),
        decreases *ty, 0int,""",
           ghost=[("@entry", "", "let ghost t0 = *ty; proof { broadcast use lemma_extends_trans, lemma_apply_stable_b; assert(extends(subst@, subst@)); }"),
                  ("let args = {", "line-before", "let ghost __s1 = subst@; proof { assert(extends(__s1, subst@)); }"),
                  ("let ret_ty = Box::new(self._go_inst_ty(ret_ty, subst));", "line-before", "let ghost __s2 = subst@;"),
                  ("let ret_ty = Box::new(self._go_inst_ty(ret_ty, subst));", "line-after",
                   "proof { assert forall|j: int| 0 <= j < params@.len() implies is_apply(#[trigger] t0->TFunc_params@[j], subst@, params@[j]) && covers(t0->TFunc_params@[j], subst@) by { "
                   "lemma_apply_stable(t0->TFunc_params@[j], __s2, subst@, params@[j]); } }")],
           loop_fn=loops),
        Fn(file=U, name="inst_ty", container="Typer", ret="r",
           obligation="a use instantiates its scheme with ONE fresh substitution",
           rewrites=[("let mut subst: HashMap<String, Ty> = HashMap::new();", "let mut subst: Subst = empty_subst();")],
           contract="ensures exists|s: Map<Seq<char>, Ty>| #[trigger] is_apply(*ty, s, r) && covers(*ty, s),\n        decreases *ty, 1int,"),
    ],
)
