"""U-DYNVT: go::compile::{gen_dyn_vtable_ctor_fn (whole), gen_dyn_type_definitions, compile_cexpr EDynCall (fragments)} — C02."""
import re
from vlib.gen import Unit, Fn, Adt, Raw
from units.u_gopkgs import types

GC = "crates/compiler/src/go/compile.rs"
RW = [(re.compile(r"\bgoast::"), "", "*"), (re.compile(r"\bgoty::"), "", "*"), (re.compile(r"\btast::"), "", "*"),
      (re.compile(r"(\w+)\.extend\((\w+)\.iter\(\)\.map\(tast_ty_to_go_type\)\);"), r"extend_go_types(&mut \1, \2);", "*"),
      (re.compile(r"\bvtable_struct_name\.clone\(\)"), "string_clone(&vtable_struct_name)", "*"),
      (re.compile(r"\bvtable_ptr_ty\.clone\(\)"), "gotype_clone(&vtable_ptr_ty)", "*")]

UNIT = Unit(
    name="U-DYNVT",
    properties=["C02"],
    rules=["attrs"],
    describe="the three places that spell the fields of a trait's vtable struct — its definition (gen_dyn_type_definitions), the composite literal that fills it "
             "(gen_dyn_vtable_ctor_fn) and the field access of a dynamic call (compile_cexpr, EDynCall) — all use go_ident(method name), and the literal and "
             "the pointer type name the struct dyn_vtable_struct_go_name(trait): Go rejects a literal key or a selector the struct does not declare",
    trusted=["machine arithmetic: a parameter list is shorter than usize::MAX (precondition; `params.len() + 1` is a capacity hint)",
             "go_ident / dyn_vtable_struct_go_name / dyn_wrap_go_name / tast_ty_to_go_type are stubs (deterministic functions of their arguments; go_ident is "
             "verified by U-GOIDENT)",
             "FRAGMENTS: the loop over a trait's methods in gen_dyn_type_definitions; the construction of the method selector in the EDynCall arm of compile_cexpr",
             "that trait_method_sigs lists the same methods at the three places is not part of the unit"],
    items=types + [
        Raw(path="contracts/dynvt.shim.rs"),
        Fn(file=GC, name="gen_dyn_vtable_ctor_fn", ret="r", attrs="#[verifier::loop_isolation(false)]", rules=["attrs"],
           pre_rewrites=[("for (method_name, params, ret_ty) in methods {", "let mut __ix: usize = 0; while __ix < methods.len() { let method_name = &methods[__ix].0; let params = &methods[__ix].1; let ret_ty = &methods[__ix].2; __ix += 1;")],
           rewrites=RW + [("methods: &[(String, Vec<Ty>, Ty)]", "methods: &Vec<(String, Vec<Ty>, Ty)>"),
                          ("let mut fields = Vec::new();", "let mut fields: Vec<(String, Expr)> = Vec::new();")],
           obligation="the function returns the address of a literal of the trait's vtable struct with one key per method, in order, each key go_ident(method name)",
           contract="requires forall|i: int| 0 <= i < methods@.len() ==> (#[trigger] methods@[i]).1@.len() < usize::MAX,\n"
                    "ensures r.body.stmts@.len() == 1 && (r.body.stmts@[0] matches Stmt::Return { expr: Some(e) } && (e matches Expr::UnaryOp { expr: lit, .. } && "
                    "(*lit matches Expr::StructLiteral { fields, ty } && (ty matches GoType::TName { name } && name@ == vt_struct_name(trait_name@)) && fields@.len() == methods@.len() "
                    "&& forall|i: int| 0 <= i < fields@.len() ==> (#[trigger] fields@[i]).0@ == vt_field(methods@[i].0@)))),",
           loop_fn=lambda k, header, kw: ("invariant __ix <= methods.len(), fields@.len() == __ix, forall|i: int| 0 <= i < __ix ==> (#[trigger] fields@[i]).0@ == vt_field(methods@[i].0@),\n"
                                          "decreases methods.len() - __ix,") if "__ix <" in header else None),
        Fn(file=GC, name="gen_dyn_type_definitions", rename="vtable_struct_fields", ret="r", attrs="#[verifier::loop_isolation(false)]", rules=["attrs"],
           cut_from="let mut vtable_fields = Vec::new();", cut_before="items.push(goast::Item::Struct(goast::Struct {", cut_tail="    vtable_fields",
           sig="fn vtable_struct_fields(sigs: Vec<(String, Vec<Ty>, Ty)>) -> Vec<Field>",
           pre_rewrites=[("for (method_name, params, ret_ty) in trait_method_sigs(goenv, &trait_name) {",
                          "let ghost sigs0 = sigs@; let mut __sv = sigs; while __sv.len() > 0 { let (method_name, params, ret_ty) = __sv.remove(0); let params = &params;")],
           rewrites=RW + [("let mut vtable_fields = Vec::new();", "let mut vtable_fields: Vec<Field> = Vec::new();"),
                          ],
           obligation="the vtable struct of a trait declares one field per method, in order, each named go_ident(method name)",
           contract="requires forall|i: int| 0 <= i < sigs@.len() ==> (#[trigger] sigs@[i]).1@.len() < usize::MAX,\n"
                    "ensures r@.len() == sigs@.len(), forall|i: int| 0 <= i < r@.len() ==> (#[trigger] r@[i]).name@ == vt_field(sigs@[i].0@),",
           loop_fn=lambda k, header, kw: ("invariant __sv@.len() <= sigs0.len(), __sv@ == sigs0.subrange(sigs0.len() - __sv@.len(), sigs0.len() as int), vtable_fields@.len() == sigs0.len() - __sv@.len(),\n"
                                          "  forall|i: int| 0 <= i < sigs0.len() ==> (#[trigger] sigs0[i]).1@.len() < usize::MAX,\n"
                                          "  forall|i: int| 0 <= i < vtable_fields@.len() ==> (#[trigger] vtable_fields@[i]).name@ == vt_field(sigs0[i].0@),\n"
                                          "decreases __sv@.len(),") if "__sv.len()" in header else None),
        Fn(file=GC, name="compile_cexpr", rename="dyn_call_selector", ret="r", rules=["attrs"],
           cut_from=re.compile(r"let vtable_ptr_expr = goast::Expr::FieldAccess \{"), cut_before="let mut call_args = Vec::with_capacity(args.len() + 1);", cut_tail="    method_expr",
           sig="fn dyn_call_selector(receiver_expr_for_vtable: Expr, trait_name: &TastIdent, method_name: &TastIdent, fn_params: Vec<GoType>, fn_ret: GoType) -> Expr",
           rewrites=RW + [('"vtable".to_string()', 'str_to_string("vtable")'), ("fn_ret.clone()", "gotype_clone(&fn_ret)")],
           obligation="a dynamic call selects the field go_ident(method name) of the receiver's `vtable` field, whose type is a pointer to the trait's vtable struct",
           contract="ensures r matches Expr::FieldAccess { obj, field, .. } && field@ == vt_field(method_name.0@) && (*obj matches Expr::FieldAccess { field: f2, ty, .. } && f2@ == \"vtable\"@ "
                    "&& (ty matches GoType::TPointer { elem } && (*elem matches GoType::TName { name } && name@ == vt_struct_name(trait_name.0@)))),"),
    ],
)
