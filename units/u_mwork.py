"""U-MWORK: the body of mono::mono's work-list loop (fragment) — C07."""
import os
import re
from vlib.gen import Unit, Fn, Adt, Raw

M = "crates/compiler/src/mono.rs"
ROOT = os.path.dirname(os.path.dirname(os.path.abspath(__file__)))
CLONE = (re.compile(r"\.clone\(\)"), ".vclone()", "*")
# the shim of U-MCALL, with the real MonoFn instead of the opaque one
MCALL_SHIM = open(os.path.join(ROOT, "contracts/mcall.shim.rs")).read().replace("#[verifier::external_body] pub struct MonoFn { _p: u64 }\n", "")


def loops(k, header, kw):
    mt = re.search(r"while\s+__mi(\d+)\s*<\s*orig_params\.len\(\)", header)
    if not mt:
        return None
    i = mt.group(1)
    return (f"invariant __mi{i} <= orig_params.len(), __mo{i}@.len() == __mi{i},\n"
            f"  forall|j: int| 0 <= j < __mi{i} ==> (#[trigger] __mo{i}@[j]).0 == orig_params@[j].0 && __mo{i}@[j].1 == subst_res(orig_params@[j].1, s@),\n"
            f" decreases orig_params.len() - __mi{i},")


UNIT = Unit(
    name="U-MWORK",
    properties=["C07"],
    rules=["attrs", "fmtmsg", ("strip", "core::"), ("strip", "common_defs::"), ("strip", "tast::"), "iter_map_collect", "opt_unwrap_or_else"],
    describe="mono::mono, body of the work-list loop (fragment): the function emitted for a queued instance (generic function f, substitution s, name n) is named n and is f's "
             "definition at s — every parameter keeps its name and gets its declared type with s applied, the result type is the declared one with s applied, the body is the "
             "translation of f's OWN body under s; exactly one function is emitted per work item and nothing already emitted changes",
    trusted=["FRAGMENT mono_work_item: one iteration of `while let Some((orig_name, s, spec_name)) = ctx.work.pop_front()`; the seeding of the work list, the loop itself (that "
             "every queued item is popped) and the second pass (collapse of type applications, U-TMONO) are dropped",
             "`ctx.orig_fns.get(..)` is a stub (uninterpreted Ctx::orig_fn); PARTIAL: the `panic!` for a work item naming an unknown function is not claimed unreachable "
             "(assume(false), listed); mono_expr is a stub (is_mono: SOME translation of its argument under the substitution; ASSUMED frame: it leaves the list of emitted functions alone); subst_ty is opaque (U-MSUBST)"],
    items=[
        Adt(file="crates/compiler/src/tast.rs", kw="enum", name="Ty", rules=["attrs"]),
        Adt(file="crates/compiler/src/tast.rs", kw="struct", name="TastIdent", rules=["attrs"]),
        Raw(path="contracts/munify.shim.rs"),
        Raw(path="contracts/msubst.spec.rs"),
        Adt(file=M, kw="enum", name="MonoExpr", rules=["attrs", ("strip", "common_defs::"), ("strip", "tast::")]),
        Adt(file=M, kw="struct", name="MonoArm", rules=["attrs"]),
        Adt(file=M, kw="struct", name="MonoFn", rules=["attrs"]),
        Adt(file="crates/compiler/src/core.rs", kw="struct", name="Fn", rules=["attrs"]),
        Adt(file=M, kw="struct", name="Ctx", rules=["attrs", "pubfields", ("strip", "core::")],
            rewrites=[(re.compile(r"\bIndexMap<"), "AnyMap<", "*")]),
        Raw(text=MCALL_SHIM),
        Raw(path="contracts/box.shim.rs"),
        Raw(path="contracts/mtraitcall.shim.rs"),
        Raw(path="contracts/mwork.shim.rs"),
        Fn(file=M, name="mono", rename="mono_work_item", attrs="#[verifier::loop_isolation(false)]",
           cut_from=re.compile(r"let \(orig_params, orig_ret, orig_body\) = \{"), cut_before="@block-end", cut_tail="",
           sig="fn mono_work_item(ctx: &mut Ctx, orig_name: String, s: Subst, spec_name: String)",
           pre_rewrites=[(re.compile(r"ctx\s*\.orig_fns\s*\.get\(&orig_name\)"), "orig_fn_get(ctx, &orig_name)", "*"),
                         # a closure over `&(A, B)` written with a tuple pattern: the two components by reference
                         (re.compile(r"\|\((\w+), (\w+)\)\| (\((?:[^()]|\([^()]*\))*\))"), r"|__nt| { let \1 = &__nt.0; let \2 = &__nt.1; \3 }", "*")],
           rewrites=[CLONE, (re.compile(r"panic!\((?:[^()]|\([^()]*\))*\)"), "{ proof { assume(false); } unreached() }", "*"),
                     (re.compile(r"let new_params = \{ let mut (__mo\d+) = Vec::new\(\);"), r"let new_params = { let mut \1: Vec<(String, Ty)> = Vec::new();", "*"),
                     ("mono_expr(&mut ctx, ", "mono_expr(ctx, ", "*")],
           obligation="the function emitted for a work item is the generic definition at the item's substitution, under the item's name",
           contract="ensures old(ctx).orig_fn(orig_name@) matches Some(f) && instance_built(f, s@, spec_name, old(ctx).out@, final(ctx).out@),",
           loop_fn=loops),
    ],
)
