"""U-IMM: go::compile::{compile_imm, imm_ty} (whole) — C09, C10, C02."""
import re
from vlib.gen import Unit, Fn, Adt, Raw
from units.u_dcefx import UNIT as DCEFX

G = "crates/compiler/src/go/"
types = [it for it in DCEFX.items if isinstance(it, Adt)]

UNIT = Unit(
    name="U-IMM",
    properties=["C09", "C10", "C02"],
    rules=[("strip", "goast::"), ("strip", "goty::"), ("strip", "tast::"), ("strip", "anf::")],
    describe="go::compile::{compile_imm, imm_ty} (whole): every operand the A-normal form names — the leaves of every emitted expression, call argument and stored value — is "
             "emitted as what it is: a variable under go_ident(its own name) at the Go type of its own type, a literal as its own value printed at its own type, a nullary "
             "constructor as the empty struct of variant number `index` of its own enum type",
    trusted=["go_ident, tast_ty_to_go_type, go_literal_from_primitive, variant_ty_by_index are stubs (uninterpreted functions of their arguments: U-GOIDENT, U-GOTYPE, U-GOLIT prove "
             "what the first three are); tast::Ty and Prim are opaque; `vec![]` is an empty vector"],
    items=types + [
        Raw(path="contracts/imm.shim.rs"),
        Adt(file="crates/compiler/src/anf.rs", kw="enum", name="ImmExpr", rules=["attrs"]),
        Fn(file=G + "compile.rs", name="imm_ty", ret="r", rewrites=[(re.compile(r"\.clone\(\)"), ".vclone()", "*")],
           obligation="the type an operand carries", contract="ensures r == imm_ty_spec(*imm),"),
        Fn(file=G + "compile.rs", name="compile_imm", ret="r", rewrites=[("fields: vec![],", "fields: no_fields(),", "*"), (re.compile(r"\.clone\(\)"), ".vclone()", "*")],
           obligation="an operand is emitted as the variable / literal / tag it is, at its own type",
           contract="ensures imm_ok(*imm, r),"),
    ],
)
