import re
from vlib.gen import Unit, Fn, Adt, Raw, load_source
from vlib.rsitems import mask, AnchorLost
from units.common import TOKENKIND, PAR, LEX
from units.u_pcore import SYNTAXKIND

SYN = PAR + "syntax.rs"


def variants(file, name):
    src = load_source(file)
    s, e = src.find_adt("enum", name)
    body = src.m[s:e]
    body = body[body.index("{") + 1:body.rindex("}")]
    # drop attributes
    body = re.sub(r"#\s*\[[^\]]*\]", "", body)
    vs = [v.strip() for v in body.split(",") if v.strip()]
    for v in vs:
        if not re.fullmatch(r"[A-Za-z_]\w*", v):
            raise AnchorLost(f"{file}: enum {name}: variant {v!r} is not field-less / has an explicit discriminant")
    return vs


def producible_token_kinds():
    """token kinds that can occur in a token vector: variants carrying a logos #[token]/#[regex] rule,
    plus the kinds constructed by hand in `impl Iterator for Lexer::next`"""
    src = load_source(LEX)
    s, e = src.find_adt("enum", "TokenKind")
    text = src.text[s:e]
    prod = set(re.findall(r"#\[(?:token|regex)\((?:[^\n]|\n(?!\s*#\[|\s*[A-Z]\w*,))*?\)\]\s*\n\s*([A-Z]\w*)\s*,", text))
    # simpler and robust: walk lines, remember whether an attribute line preceded the variant
    prod = set()
    pending = False
    for line in text.splitlines():
        t = line.strip()
        if t.startswith("#[token") or t.startswith("#[regex"):
            pending = True
        elif re.fullmatch(r"[A-Z]\w*,", t):
            if pending:
                prod.add(t[:-1])
            pending = False
    fs, fb, fe = src.find_fn("next", "Iterator for Lexer")
    prod |= set(re.findall(r"TokenKind::(\w+)", src.text[fs:fe]))
    return prod


def shared_variant_lemmas():
    tk = [v for v in variants(LEX, "TokenKind") if v in producible_token_kinds()]
    sk = variants(SYN, "MySyntaxKind")
    missing = [v for v in tk if v not in sk]
    out = ["// generated from the two enum definitions on this run: one clause per TokenKind variant the lexer can produce\n// (variants with a logos rule, plus those built by hand in Lexer::next; `Eof` is a parser-side sentinel only)\n",
           "pub proof fn lemma_shared_discriminants()\n    ensures\n"]
    for v in tk:
        if v in missing:
            # a token kind without a same-named syntax kind cannot round-trip: state it as an unprovable clause
            out.append(f"        false, // TokenKind::{v} has no MySyntaxKind::{v}\n")
        else:
            out.append(f"        TokenKind::{v} as u16 == MySyntaxKind::{v} as u16,\n")
    out.append("{\n}\n")
    last = sk[-1]
    out.append(f"""
// every raw kind the parser hands to rowan passes kind_from_raw's assert!: the bound it checks is the last variant
pub proof fn lemma_raw_in_range(t: TokenKind, k: MySyntaxKind)
    ensures
        t as u16 <= MySyntaxKind::{last} as u16,
        k as u16 <= MySyntaxKind::{last} as u16,
        MySyntaxKind::{last} as u16 == {len(sk) - 1},
{{
}}
pub open spec fn kind_from_raw_bound() -> u16 {{ MySyntaxKind::{last} as u16 }}
""")
    return "".join(out)


def bound_check():
    # the assert! inside kind_from_raw must compare against the last variant
    src = load_source(SYN)
    s, b, e = src.find_fn("kind_from_raw", "Language for MyLang")
    t = src.text[s:e]
    m = re.search(r"assert!\(raw\.0 <= MySyntaxKind::(\w+) as u16\);", t)
    if not m:
        raise AnchorLost("kind_from_raw: bound assertion not found")
    return f"""
// kind_from_raw's body is `assert!(raw.0 <= MySyntaxKind::{m.group(1)} as u16); transmute(raw.0)`; transmute is outside Verus.
// The assert's bound must be exactly the largest discriminant, else transmute can see an invalid value or a valid kind panics.
pub proof fn lemma_kind_from_raw_bound()
    ensures MySyntaxKind::{m.group(1)} as u16 == kind_from_raw_bound(),
{{
}}
"""


UNIT = Unit(
    name="U-KIND",
    properties=["C12", "C04"],
    describe="TokenKind and MySyntaxKind share discriminants for every token kind (so `kind as u16` round-trips through rowan), "
             "and every raw kind produced lies within kind_from_raw's asserted bound, which is the last variant",
    trusted=["std::mem::transmute::<u16, MySyntaxKind> in kind_from_raw is not verified by Verus; validity rests on the discriminants being the contiguous range 0..=last "
             "(checked: no variant has an explicit discriminant or fields; last == count-1)"],
    items=TOKENKIND + SYNTAXKIND + [Raw(text=shared_variant_lemmas), Raw(text=bound_check)],
)
