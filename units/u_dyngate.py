"""U-DYNGATE: typer::check::Typer::infer_static_member_call_expr, the test that sends `Tr::m(recv, ..)` down the dynamic path (fragment) — C17."""
import re
from vlib.gen import Unit, Fn, Adt, Raw

C = "crates/compiler/src/typer/check.rs"
T = "crates/compiler/src/tast.rs"

UNIT = Unit(
    name="U-DYNGATE",
    properties=["C17"],
    rules=["attrs", ("strip", "tast::"), "let_chain_rev"],
    describe="typer::check::infer_static_member_call_expr: `Tr::m(recv, ..)` is elaborated as a DYNAMIC call (through the receiver's vtable) only when the receiver's "
             "type is `dyn Tr` for that very trait `Tr` — a `dyn Other` value never reaches `Tr`'s method through a vtable field that merely has the same name, it "
             "falls through to the static path, where the missing instance is a diagnostic",
    trusted=["FRAGMENT dyn_gate: the condition of the `if let Ty::TDyn { .. } = receiver_tast.get_ty() && ..` that guards the dynamic path, turned into a function that "
             "answers whether the guarded block is entered (`{ return true; } false` is supplied in place of the block); `receiver_tast.get_ty()` is the parameter "
             "receiver_ty; `a == b` on Strings is the shim string_eq; the block itself (argument checking, the elaboration records) is not part of the unit"],
    items=[
        Adt(file=T, kw="enum", name="Ty", rules=["attrs"]),
        Adt(file=T, kw="struct", name="TastIdent", rules=["attrs"]),
        Raw(text="#[verifier::external_body] pub struct TypeVar { _p: u32 }\npub struct Typer { pub _p: u64 }          // the fragment reads nothing of it\n"
                 "#[verifier::external_body] pub fn string_eq(a: &String, b: &String) -> (r: bool) ensures r == (a@ == b@) { unimplemented!() }          // `a == b`\n"),
        Fn(file=C, name="infer_static_member_call_expr", container="Typer", rename="dyn_gate", ret="r",
           cut_from=re.compile(r"if let tast::Ty::TDyn \{\s*trait_name: recv_trait,\s*\} = receiver_tast\.get_ty\(\)"), cut_before="if params.len() != args.len() {",
           cut_tail="    return true; }\n    false",
           sig="fn dyn_gate(receiver_ty: Ty, type_ident: &TastIdent) -> bool",
           rewrites=[("receiver_tast.get_ty()", "receiver_ty", 1), (re.compile(r"\b(\w+) == type_ident\.0\b"), r"string_eq(&\1, &type_ident.0)", "*")],
           obligation="the dynamic path is entered only for a receiver of type `dyn Tr` with Tr the trait named in the call — and always for such a receiver",
           contract="ensures r == (receiver_ty matches Ty::TDyn { trait_name } && trait_name@ == type_ident.0@),"),
    ],
)
