"""U-DYNNAMES: go::compile::{dyn_struct_go_name, dyn_vtable_struct_go_name, dyn_vtable_ctor_go_name, dyn_wrap_go_name} (whole) — C19, C02."""
import re
from vlib.gen import Unit, Fn, Adt, Raw
from vlib import gen
from vlib.rsitems import AnchorLost

GC = "crates/compiler/src/go/compile.rs"
FNS = ["dyn_struct_go_name", "dyn_vtable_struct_go_name", "dyn_vtable_ctor_go_name", "dyn_wrap_go_name"]
KIND = {"dyn_struct_go_name": "the dyn struct", "dyn_vtable_struct_go_name": "the vtable struct", "dyn_vtable_ctor_go_name": "the vtable constructor", "dyn_wrap_go_name": "a method wrapper"}


def formats():
    """per function: the literal pieces of its format string and its arguments' roles (tr = the trait's name, ty = encode_ty(for_ty), m = the method's name), read on every run"""
    from vlib.rsitems import mask, match_delim
    from vlib.cps import split_top
    src = gen.load_source(GC)
    out = {}
    for f in FNS:
        s0, b0, e0 = src.find_fn(f, None)
        body = src.text[b0:e0 + 1]
        m = mask(body)
        hs = list(re.finditer(r"\bformat!\(", m))
        if len(hs) != 1:
            raise AnchorLost(f"{f}: {len(hs)} format! calls, expected 1")
        op = hs[0].end() - 1
        parts = [x.strip() for x in split_top(body[op + 1:match_delim(m, op)]) if x.strip()]
        ms = re.fullmatch(r'"((?:[^"\\]|\\.)*)"', parts[0])
        if not ms or "\\" in ms.group(1) or re.search(r"\{[^}]", ms.group(1)):
            raise AnchorLost(f"{f}: format string is not a plain literal with `{{}}` placeholders")
        lits = ms.group(1).split("{}")
        roles = []
        for a in parts[1:]:
            if a == "trait_name":
                roles.append("tr")
            elif a == "method_name":
                roles.append("m")
            elif re.fullmatch(r"encode_ty\(&?for_ty\)", a):
                roles.append("encoded(ty)")
            else:
                raise AnchorLost(f"{f}: argument `{a}` of the format is not classified")
        if len(lits) != len(roles) + 1 or not roles or roles[0] != "tr" or not lits[0]:
            raise AnchorLost(f"{f}: the name does not start with literal text directly followed by the trait's name")
        out[f] = (lits, roles)
    return out


def derived():
    fm = formats()
    pre = {f: fm[f][0][0] for f in FNS}
    out = ["// DERIVED from the format strings of the four dyn name functions on every run: the text each KIND of helper name starts with (in front of the trait's name),",
           "// and the whole text handed to go_ident"]
    for f in FNS:
        lits, roles = fm[f]
        pieces = [f"pre_{f}()"]
        for i, r in enumerate(roles):
            pieces.append(r)
            if lits[i + 1]:
                pieces.append(f'"{lits[i + 1]}"@')
        out.append(f'pub open spec fn pre_{f}() -> Seq<char> {{ "{pre[f]}"@ }}')
        out.append(f"pub open spec fn text_{f}(tr: Seq<char>, ty: Ty, m: Seq<char>) -> Seq<char> {{ {' + '.join(pieces)} }}")
    out.append("// C19: helper names of different kinds never coincide, whatever the traits, types and methods are called: their texts differ before the trait's name begins")
    for i, f in enumerate(FNS):
        for g in FNS[i + 1:]:
            a, b = pre[f], pre[g]
            k = next((n for n in range(min(len(a), len(b))) if a[n] != b[n]), None)
            if k is None:
                proof = ""      # one prefix is a prefix of the other (the scheme before the fix): no position tells the kinds apart; the lemma is stated without a proof and fails
            else:
                proof = (f'reveal_strlit("{a}"); reveal_strlit("{b}"); assert((pre_{f}() + x)[{k}] == pre_{f}()[{k}]); assert((pre_{g}() + y)[{k}] == pre_{g}()[{k}]);')
            out.append(f"pub proof fn kinds_differ_{f}__{g}(x: Seq<char>, y: Seq<char>) ensures pre_{f}() + x != pre_{g}() + y {{ {proof} }}")
    return "\n".join(out) + "\n"


SPEC = '''// ---- specification for U-DYNNAMES ----
#[verifier::external_body] pub struct Ty { _p: u64 }
pub uninterp spec fn encoded(t: Ty) -> Seq<char>;                                   // go::mangle::encode_ty
#[verifier::external_body] pub fn encode_ty(ty: &Ty) -> (r: String) ensures r@ == encoded(*ty) { unimplemented!() }
pub uninterp spec fn gi(s: Seq<char>) -> Seq<char>;                                 // go::mangle::go_ident (U-GOIDENT)
#[verifier::external_body] pub fn go_ident(s: &String) -> (r: String) ensures r@ == gi(s@) { unimplemented!() }
'''


ARGS = {"dyn_struct_go_name": "trait_name@, arbitrary(), Seq::empty()", "dyn_vtable_struct_go_name": "trait_name@, arbitrary(), Seq::empty()",
        "dyn_vtable_ctor_go_name": "trait_name@, *for_ty, Seq::empty()", "dyn_wrap_go_name": "trait_name@, *for_ty, method_name@"}


def fn(name, args):
    return Fn(file=GC, name=name, ret="r",
              obligation=f"{KIND[name]}'s name: go_ident of (this kind's prefix, the trait's name, the rest of the derived text)",
              contract=f"ensures exists|t: Seq<char>| t =~= text_{name}({ARGS[name]}) && r@ == gi(t),")


UNIT = Unit(
    name="U-DYNNAMES",
    properties=["C19", "C02"],
    rules=["attrs", ("strip", "tast::"), "fmt_concat"],
    describe="go::compile::{dyn_struct_go_name, dyn_vtable_struct_go_name, dyn_vtable_ctor_go_name, dyn_wrap_go_name} (whole): each of the four kinds of helper a `dyn Trait` value "
             "needs is named go_ident of a text that starts with a prefix of ITS kind (read from the format string on every run), directly followed by the trait's name; "
             "lemmas, one per pair of kinds: two such texts of different kinds differ before the trait's name begins — the vtable struct of `Show` can no longer be the dyn "
             "struct of a trait named `Show_vtable` (the defect repaired by the third fix of round 7)",
    trusted=["encode_ty and go_ident are stubs; the lemmas are about the texts handed to go_ident — that go_ident keeps different texts different is NOT claimed here (U-GOIDENT: a "
             "legal unreserved identifier is passed on unchanged); `format!` with `{}` placeholders is concatenation (rule fmt_concat); within ONE kind, names of different "
             "(trait, type, method) triples can still coincide when the names contain `__` (the underscore family, note in §5)"],
    items=[
        Raw(path="contracts/fmt.shim.rs"),
        Raw(text=SPEC),
        Raw(text=derived, item="crates/compiler/src/go/compile.rs::dyn_*_go_name format strings (kind prefixes)"),
    ] + [fn(f, None) for f in FNS],
)
