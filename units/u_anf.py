"""U-ANF: anf.rs — A-normalisation (continuation-passing, boxed closures) against the evaluation-order relation nc / ni / nl.

The closures' `ensures` and the proof hints are DERIVED from each site's structure (callee chain, the argument the continuation is
finally called with), not keyed by arm or ordinal: a new arm of one of the known shapes is under contract as it stands, an arm of an
unknown shape is UNDECIDED.  The closure annotations are intermediate assertions (like loop invariants): each says what the closure
itself does with its argument; the property is the functions' postcondition (anf_post / imm_post / list_post over nc / ni / nl)."""
import re
from vlib.gen import Unit, Fn, Adt, Raw
from vlib.cps import spec_text
from vlib.rsitems import AnchorLost

A = "crates/compiler/src/anf.rs"
L = "crates/compiler/src/lift.rs"
VC = (re.compile(r"\.clone\(\)"), ".vclone()", "*")

KT = {"anf": "CExpr", "anf_imm": "ImmExpr", "anf_list": "Vec<ImmExpr>"}


def len_call(callee, sub, pre, x):
    if callee == "anf_list":
        return f"len_nl({sub}, 0, {pre}, {x}@);"
    return {"anf": "len_nc", "anf_imm": "len_ni"}[callee] + f"({sub}, {pre}, {x});"



def sub_of(s):
    """the expression a site normalises (third argument), as a spec expression"""
    if len(s.args) < 3:
        raise AnchorLost(f"site #{s.n}: `{s.callee}` with {len(s.args)} arguments before the continuation")
    t = spec_text(s.args[2]).strip()
    mc = re.fullmatch(r"(head|last|first)\.clone\(\)", s.args[2].strip())
    if mc:
        t = "*" + mc.group(1)          # anf_list: a reference into the slice
    if t.startswith("&"):
        t = t[1:].strip()
    if s.callee == "anf_list":
        return f"{t}@"
    return f"({t})"


def subst(text, name, new):
    """replace the variable `name` by `new` in an expression text (struct-literal shorthand `name,` becomes `name: new`)"""
    text = re.sub(r"([{,]\s*)" + re.escape(name) + r"(\s*[,}])", lambda m: f"{m.group(1)}{name}: {new}{m.group(2)}", text)
    return re.sub(r"(?<![\w.])" + re.escape(name) + r"\b(?!\s*:(?!:))", new, text)


def kargs(ksite, ren):
    """the argument the continuation is called with, as a spec expression, closure parameters renamed"""
    t = spec_text(ksite.args[0])
    for a, b in ren.items():
        t = subst(t, a, b)
    return t


def rel(callee, sub, pre, x):
    if callee == "anf":
        return f"nc({sub}, {pre}, {x})"
    if callee == "anf_imm":
        return f"ni({sub}, {pre}, {x})"
    if callee == "anf_list":
        return f"nl({sub}, 0, {pre}, {x}@)"
    raise AnchorLost(f"continuation handed to `{callee}`: no contract for it")


def chooser(s):
    n = s.n
    return (f"let (pre_{n}, x_{n}, o_{n}) = choose|pre: Seq<Bind>, x: {KT[s.callee]}, o: AExpr| #[trigger] {rel(s.callee, sub_of(s), 'pre', 'x')} "
            f"&& #[trigger] __cl{n}.ensures((x,), o) && wraps(__r{n}, pre, o);")


def is_call_free(t):
    return re.search(r"[a-z_]\w*\s*\(", re.sub(r"\b(Box::new|Some)\s*\(", "(", t)) is None


def shape(s):
    """classify a closure by what its body does"""
    b = s.body.strip()
    if not s.inner:
        return "id" if is_call_free(b) else None
    last = s.inner[-1]
    # plain rebinding statements (`let a = a.clone();`) in front of the final expression do not matter
    stmts = [x.strip() for x in re.split(r";\s*\n", b)]
    if len(s.inner) == 1 and last.kind == "kcall" and b.endswith(last.text) and all(re.fullmatch(r"let \w+ = \w+(\.clone\(\))?", x) for x in stmts[:-1]) and stmts[-1] == last.text:
        return "leaf"
    if len(s.inner) == 1 and last.kind == "closure" and b.endswith(last.text) and all(re.fullmatch(r"let \w+ = \w+(\.clone\(\))?", x) for x in stmts[:-1]) and shape(last) == "leaf":
        return "nest"
    if last.kind == "kcall" and b.endswith(last.text) and len(s.inner) >= 2 and all(x.kind == "closure" and shape(x) == "id" for x in s.inner[:-1]):
        pre = b[:len(b) - len(last.text)]
        lets = re.findall(r"let (\w+) = ", pre)
        if len(lets) == len(s.inner) - 1:
            return "lets"
    if len(s.inner) == 1 and last.kind == "kpass" and last.callee == "compile_match_arms_to_anf" and b == last.text:
        return "match"
    if len(s.inner) == 1 and last.kind == "kpass" and last.callee == "anf" and b.startswith("AExpr::ALet"):
        return "elet"
    return None


def elet_parts(s):
    b = s.body
    mn = re.search(r"\bname(?::\s*(\w+))?\s*,", b)
    mv = re.search(r"\bvalue:\s*Box::new\((\w+)\)", b)
    if not mn or not mv:
        raise AnchorLost(f"site #{s.n}: the let built by the closure is not `AExpr::ALet {{ name, value: Box::new(x), .. }}`")
    return (mn.group(1) or "name"), mv.group(1)


def lets_of(s):
    return re.findall(r"let (\w+) = ", s.body[:len(s.body) - len(s.inner[-1].text)])


def closure_ensures(s):
    sh = shape(s)
    if sh == "id":
        return f"o == ({spec_text(s.body)})"
    if sh == "leaf":
        return f"k.ensures(({kargs(s.inner[-1], {})},), o)"
    if sh == "nest":
        s2 = s.inner[-1]
        y = s2.params[0][0]
        return (f"exists|p2: Seq<Bind>, y__: {KT[s2.callee]}, o2: AExpr| #[trigger] {rel(s2.callee, sub_of(s2), 'p2', 'y__')} "
                f"&& #[trigger] k.ensures(({kargs(s2.inner[-1], {y: 'y__'})},), o2) && wraps(o, p2, o2)")
    if sh == "lets":
        lets = lets_of(s)
        conj = " && ".join(f"na({sub_of(x)}, {v}__)" for x, v in zip(s.inner[:-1], lets))
        return f"exists|{', '.join(v + '__: AExpr' for v in lets)}| {conj} && #[trigger] k.ensures(({kargs(s.inner[-1], {v: v + '__' for v in lets})},), o)"
    if sh == "match":
        a = [spec_text(x) for x in s.inner[-1].args]
        return f"match_post({a[2]}, {a[3]}@, {a[4]}, {a[5]}, k, o)"
    if sh == "elet":
        nm, val = elet_parts(s)
        return (f"exists|p2: Seq<Bind>, c2: CExpr, o2: AExpr| #[trigger] nc({sub_of(s.inner[-1])}, p2, c2) && #[trigger] k.ensures((c2,), o2) "
                f"&& wraps(o, seq![({nm}@, {val})] + p2, o2)")
    return None


def annot_anf(s):
    n = s.n
    if s.kind == "kcall":
        if s.parent is None:
            a = f"__a{n}"
            return {"after": f"wraps_refl(__r{n}); assert(nc(e0, Seq::empty(), {a})); anf_intro(e0, k, __r{n}, Seq::empty(), {a}, __r{n});"}
        return {"after": ""}
    if s.kind == "kpass":
        return {"after": ""}
    if s.callee not in KT:
        return None
    ens = closure_ensures(s)
    if ens is None:
        return None
    sh = shape(s)
    out = {"types": [KT[s.callee]] * len(s.params), "ensures": ens}
    if len(s.params) != 1:
        return None
    x = s.params[0][0]
    xn = f"x_{n}"
    ch = chooser(s)
    if sh == "id":
        out["after"] = f"{ch} na_of_id({sub_of(s)}, __r{n}, pre_{n}, x_{n});"
        return out
    if sh == "elet":
        nm, val = elet_parts(s)
        sb = sub_of(s.inner[-1])
        out["body_hint"] = (f"let b = *__o->ALet_body; let (p2, c2, o2) = choose|p2: Seq<Bind>, c2: CExpr, o2: AExpr| #[trigger] nc({sb}, p2, c2) && #[trigger] k.ensures((c2,), o2) && wraps(b, p2, o2); "
                            f"assert(binds(__o) =~= (seq![({nm}@, {val})] + p2) + binds(o2));")
    if s.parent is not None:
        # a site inside a closure: the enclosing closure's `ensures` finds its witnesses among the chosen values
        out["after"] = ch
        return out
    # function level: the result must satisfy anf_post
    if sh == "leaf":
        a = kargs(s.inner[-1], {x: xn})
        out["after"] = f"{ch} assert(nc(e0, pre_{n}, {a})); anf_intro(e0, k, __r{n}, pre_{n}, {a}, o_{n});"
    elif sh == "lets":
        lets = lets_of(s)
        ren = {v: v + "__" for v in lets}
        ren[x] = xn
        a = kargs(s.inner[-1], ren)
        conj = " && ".join(f"na({sub_of(y)}, {v}__)" for y, v in zip(s.inner[:-1], lets))
        pat = "(" + ", ".join(v + "__" for v in lets) + ")" if len(lets) > 1 else lets[0] + "__"
        out["after"] = (f"{ch} let {pat} = choose|{', '.join(v + '__: AExpr' for v in lets)}| {conj} && #[trigger] k.ensures(({a},), o_{n}); "
                        f"assert(nc(e0, pre_{n}, {a})); anf_intro(e0, k, __r{n}, pre_{n}, {a}, o_{n});")
    elif sh == "nest":
        s2 = s.inner[-1]
        y = s2.params[0][0]
        a = kargs(s2.inner[-1], {x: xn, y: "y__"})
        out["after"] = (f"{ch} let (p2, y__, o2) = choose|p2: Seq<Bind>, y__: {KT[s2.callee]}, o2: AExpr| #[trigger] {rel(s2.callee, sub_of(s2), 'p2', 'y__')} "
                        f"&& #[trigger] k.ensures(({a},), o2) && wraps(o_{n}, p2, o2); wraps_trans(__r{n}, pre_{n}, o_{n}, p2, o2); {len_call(s.callee, sub_of(s), f'pre_{n}', f'x_{n}')} "
                        f"split2(pre_{n}, p2); assert(nc(e0, pre_{n} + p2, {a})); anf_intro(e0, k, __r{n}, pre_{n} + p2, {a}, o2);")
    elif sh == "match":
        a = [subst(spec_text(t), x, xn) for t in s.inner[-1].args]
        out["after"] = (f"{ch} let c = choose|c: CExpr| #[trigger] k.ensures((c,), o_{n}) && match_c_ok(c, {a[2]}, {a[3]}@, {a[4]}, {a[5]}); "
                        f"assert(nc(e0, pre_{n}, c)); anf_intro(e0, k, __r{n}, pre_{n}, c, o_{n});")
    elif sh == "elet":
        nm, val = elet_parts(s)
        val = xn if val == x else val
        sb = sub_of(s.inner[-1])
        b = f"seq![({nm}@, {val})]"
        out["after"] = (f"{ch} let (p2, c2, o2) = choose|p2: Seq<Bind>, c2: CExpr, o2: AExpr| #[trigger] nc({sb}, p2, c2) && #[trigger] k.ensures((c2,), o2) "
                        f"&& wraps(o_{n}, {b} + p2, o2); wraps_trans(__r{n}, pre_{n}, o_{n}, {b} + p2, o2); len_nc({sub_of(s)}, pre_{n}, x_{n}); "
                        f"split_let(pre_{n}, ({nm}@, {val}), p2); assert(nc(e0, pre_{n} + ({b} + p2), c2)); "
                        f"anf_intro(e0, k, __r{n}, pre_{n} + ({b} + p2), c2, o2);")
    else:
        return None
    return out


def annot_imm(s):
    n = s.n
    if s.kind == "kcall" and s.parent is None:
        a = f"__a{n}"
        return {"after": f"wraps_refl(__r{n}); assert(ni(e0, Seq::empty(), {a})); imm_intro(e0, k, __r{n}, Seq::empty(), {a}, __r{n});"}
    if s.kind == "kcall":
        return {"after": ""}
    if s.kind == "closure" and s.callee == "anf" and s.parent is None and len(s.params) == 1 and len(s.inner) == 1 and s.inner[0].kind == "kcall":
        # the fresh let: `let t = <final step of e> in <k(t)>`
        x = s.params[0][0]
        a = kargs(s.inner[0], {})
        mn = re.search(r"AExpr::ALet \{\s*name:\s*([\w.()]+),\s*value:\s*Box::new\((\w+)\)", s.body)
        if not mn or mn.group(2) != x:
            raise AnchorLost(f"site #{n}: anf_imm's closure does not build `AExpr::ALet {{ name: .., value: Box::new({x}), .. }}`")
        nm = spec_text(mn.group(1))
        return {"types": ["CExpr"],
                "ensures": f"exists|o2: AExpr| #[trigger] k.ensures(({a},), o2) && wraps(o, seq![({nm}@, {x})], o2)",
                "after": (f"{chooser(s)} let o2 = choose|o2: AExpr| #[trigger] k.ensures(({a},), o2) && wraps(o_{n}, seq![({nm}@, x_{n})], o2); "
                          f"let p = pre_{n}.push(({nm}@, x_{n})); assert(p.drop_last() =~= pre_{n}); wraps_trans(__r{n}, pre_{n}, o_{n}, seq![({nm}@, x_{n})], o2); "
                          f"assert(pre_{n} + seq![({nm}@, x_{n})] =~= p); assert(ni(e0, p, {a})); imm_intro(e0, k, __r{n}, p, {a}, o2);")}
    return None


def annot_list(s):
    n = s.n
    if s.kind == "kcall" and s.parent is None:
        return {"after": f"wraps_refl(__r{n}); list_intro(es@, k, __r{n}, Seq::empty(), __a{n}, __r{n});"}
    if s.kind == "kcall":
        return {"after": ""}
    if s.kind == "closure" and s.callee == "anf_imm" and s.parent is None and len(s.inner) == 1 and s.inner[0].kind == "closure" and s.inner[0].callee == "anf_list":
        h = s.params[0][0]
        s2 = s.inner[0]
        tl = sub_of(s2)
        return {"types": ["ImmExpr"],
                "ensures": (f"exists|p2: Seq<Bind>, v: Vec<ImmExpr>, o2: AExpr| #[trigger] nl({tl}, 0, p2, v@.skip(1)) && v@.len() >= 1 && v@[0] == {h} "
                            f"&& #[trigger] k.ensures((v,), o2) && wraps(o, p2, o2)"),
                "after": (f"{chooser(s)} let (p2, v, o2) = choose|p2: Seq<Bind>, v: Vec<ImmExpr>, o2: AExpr| #[trigger] nl({tl}, 0, p2, v@.skip(1)) && v@.len() >= 1 && v@[0] == x_{n} "
                          f"&& #[trigger] k.ensures((v,), o2) && wraps(o_{n}, p2, o2); wraps_trans(__r{n}, pre_{n}, o_{n}, p2, o2); nl_shift(es@, 1, {tl}, 0, p2, v@.skip(1)); "
                          f"nl_cons(es@, 0, pre_{n}, x_{n}, p2, v@.skip(1), v@); list_intro(es@, k, __r{n}, pre_{n} + p2, v, o2);")}
    if s.kind == "closure" and s.callee == "anf_list" and s.parent is not None and len(s.inner) == 1 and s.inner[0].kind == "kcall":
        t = s.params[0][0]
        # what the closure hands to k: the parameter after the Vec operations of the body, read off the statements (insert / push only)
        view = f"{t}@"
        stmts = [x.strip() for x in s.body[:len(s.body) - len(s.inner[0].text)].split(";") if x.strip()]
        for st in stmts:
            mi = re.fullmatch(re.escape(t) + r"\.insert\((\w+),\s*(\w+)\)", st)
            mp = re.fullmatch(re.escape(t) + r"\.push\((\w+)\)", st)
            if mi:
                view = f"{view}.insert({mi.group(1)}, {mi.group(2)})"
            elif mp:
                view = f"{view}.push({mp.group(1)})"
            else:
                raise AnchorLost(f"site #{n}: statement `{st}` of anf_list's inner closure is neither an insert nor a push on `{t}`")
        if s.inner[0].args != [t]:
            raise AnchorLost(f"site #{n}: anf_list's inner closure does not end in `k({t})`")
        return {"types": ["Vec<ImmExpr>"],
                "ensures": f"exists|v: Vec<ImmExpr>| v@ == {view} && #[trigger] k.ensures((v,), o)",
                "after": (f"{chooser(s)} let v = choose|v: Vec<ImmExpr>| v@ == {subst(view, t, f'x_{n}')} && #[trigger] k.ensures((v,), o_{n}); assert(v@.skip(1) =~= x_{n}@);")}
    return None


def imm_direct_spec():
    """`imm_direct`, read off anf_imm's direct arms `PATTERN => k(IMM)`: which operands are handed to the continuation without a let, and as what"""
    from vlib import gen
    from vlib.rsitems import mask, match_delim
    src = gen.load_source(A)
    s0, b0, e0 = src.find_fn("anf_imm", None)
    body = src.text[b0:e0 + 1]
    m = mask(body)
    arms = []
    for mt in re.finditer(r"(LiftExpr::\w+\s*\{[^{}]*\})\s*(?:if\s+([^=]+?))?\s*=>\s*k\(", m):
        op = mt.end() - 1
        cl = match_delim(m, op)
        pat = body[mt.start(1):mt.end(1)]
        guard = body[mt.start(2):mt.end(2)].strip() if mt.group(2) else ""
        if guard:
            g2 = re.sub(r"\b(\w+)\.is_empty\(\)", r"\1@.len() == 0", guard)
            if "(" in re.sub(r"@\.len\(\)", "", g2):
                raise AnchorLost(f"anf_imm: guard `{guard}` of a direct arm has no spec form")
            guard = " if " + g2
        arg = spec_text(body[op + 1:cl]).replace(".enum_index()", ".index_of()")
        arms.append(f"        {pat}{guard} => Some({arg}),")
    if not arms:
        raise AnchorLost("anf_imm: no direct arm `PATTERN => k(IMM)` found")
    return ("// DERIVED from anf_imm's direct arms on every run\npub open spec fn imm_direct(e: LiftExpr) -> Option<ImmExpr> {\n    match e {\n"
            + "\n".join(arms) + "\n        _ => None,\n    }\n}\n")


RULES = ["attrs", ("strip", "common_defs::")]
K_REQ = {"anf": "CExpr", "anf_imm": "ImmExpr", "anf_list": "Vec<ImmExpr>"}

UNIT = Unit(
    name="U-ANF",
    properties=["C09"],
    rules=RULES,
    uses=["use vstd::slice::slice_subrange;"],
    describe="anf.rs, the A-normalisation itself (anf, anf_imm, anf_list; continuation-passing with boxed closures, brought into Verus' reach by the rule `cps`): "
             "for every Lift expression and EVERY continuation k, the result is k's result on the expression's final step, underneath a prefix of lets that "
             "names the operands in evaluation order — left operand before right, callee before arguments, arguments left to right, a let's value before "
             "its body, each operand exactly once and only where it stands (a variable or literal is used as it is); the branches of `if` / `match` and the "
             "condition and body of `while` are normalised on their own, inside the conditional / loop",
    trusted=["CPS normal form (vlib/cps.py): `Box<dyn FnOnce(T) -> R>` becomes a generic `K: FnOnce(T) -> R`, `Box::new(closure)` the closure itself, every site "
             "`f(.., Box::new(closure))` the block `{ let cl = closure; let r = f(.., cl); r }` (the closure is built before instead of after the other arguments are evaluated)",
             "compile_match_arms_to_anf is a stub with an ASSUMED contract here (k called once on an EMatch over the given scrutinee whose arms / default are normal forms "
             "of the source arms, in order)",
             "termination of anf / anf_imm / anf_list IS proved inside this unit (decreases e / e / es@ with ranks 0 / 1 / 2; recursive calls inside closure bodies are checked against the enclosing function's measure); the cycle anf -> compile_match_arms_to_anf -> anf is cut at the stub and not covered",
             "the spec function imm_direct (which operands anf_imm hands on without a let, and as what) is DERIVED from anf_imm's direct arms `PATTERN => k(IMM)` on every run; "
             "the property-level demand on it is the lemma imm_direct_sound",
             "the `ty` stored on a generated let (AExpr::get_ty) and freshness of the generated names (C19, U-GENSYM) are not part of this contract",
             "`&args` (a Vec handed on as a slice) is read as `args.as_slice()`, `&es[1..]` as vstd's slice_subrange(es, 1, es.len())"],
    items=[
        Adt(file="crates/compiler/src/common.rs", kw="enum", name="Constructor", rules=["attrs"]),
        Adt(file=L, kw="enum", name="LiftExpr", rules=RULES),
        Adt(file=L, kw="struct", name="LiftArm", rules=["attrs"]),
        Adt(file=A, kw="enum", name="ImmExpr", rules=["attrs"]),
        Adt(file=A, kw="enum", name="CExpr", rules=["attrs"]),
        Adt(file=A, kw="enum", name="AExpr", rules=["attrs"]),
        Adt(file=A, kw="struct", name="Arm", rules=["attrs"]),
        Adt(file="crates/common-defs/src/lib.rs", kw="enum", name="UnaryOp", rules=["attrs"]),
        Adt(file="crates/common-defs/src/lib.rs", kw="enum", name="BinaryOp", rules=["attrs"]),
        Raw(path="contracts/anf.shim.rs"),
        Raw(text=imm_direct_spec, item="crates/compiler/src/anf.rs::anf_imm direct arms (imm_direct)"),
        Fn(file=L, name="get_ty", container="LiftExpr", ret="r", rewrites=[(re.compile(r"=> ty\.clone\(\),"), "=> ty.vclone(),", "*")],
           contract="ensures r == lift_ty(*self),", obligation="get_ty returns the carried type"),
        Fn(file=A, name="compile_match_arms_to_anf", ret="r", contract_only=True, rules=RULES + [("cps", lambda s: {"after": ""} if s.kind != "closure" else {"types": ["CExpr"], "ensures": "true"})],
           contract="requires forall|c: CExpr| k.requires((c,)),\n ensures match_post(scrutinee, arms@, default, body_ty, k, r),"),
        Fn(file=A, name="anf_imm", ret="r", rules=RULES + [("cps", annot_imm)],
           rewrites=[VC],
           ghost=[("@entry", "", "let ghost e0 = e;")],
           obligation="an operand that is a variable or literal is handed to k as it is; any other operand is normalised and its final step bound, LAST, to a fresh name that k gets",
           contract="requires forall|c: ImmExpr| k.requires((c,)),\n ensures imm_post(e, k, r),\n decreases e, 1int,"),
        Fn(file=A, name="anf_list", ret="r", rules=RULES + [("cps", annot_list)],
           pre_rewrites=[(re.compile(r"if let Some\(\((\w+), (\w+)\)\) = (\w+)\.split_last\(\) \{"), r"if \3.len() > 0 { let \1 = &\3[\3.len() - 1]; let \2 = slice_subrange(\3, 0, \3.len() - 1);", "*"),
                         (re.compile(r"if let Some\(\((\w+), (\w+)\)\) = (\w+)\.split_first\(\) \{"), r"if \3.len() > 0 { let \1 = &\3[0]; let \2 = slice_subrange(\3, 1, \3.len());", "*")],
           rewrites=[VC, ("es.is_empty()", "es.len() == 0", "*"), ("&es[1..]", "slice_subrange(es, 1, es.len())", "*")],
           obligation="the operands of a list are named left to right, each once; k gets their immediates in the same order",
           contract="requires forall|c: Vec<ImmExpr>| k.requires((c,)),\n ensures list_post(es@, k, r),\n decreases es@, 2int,"),
        Fn(file=A, name="anf", ret="r", rules=RULES + [("cps", annot_anf)],
           rewrites=[VC, (re.compile(r"\b(anf_list\(\s*anfenv,\s*gensym,\s*)&(\w+),"), r"\1\2.as_slice(),", "*"), ("args.is_empty()", "args.len() == 0", "*")],
           ghost=[("@entry", "", "let ghost e0 = e;")],
           obligation="normalising e calls k once, on e's final step, underneath the lets that evaluate e's operands in goml's evaluation order (nc)",
           contract="requires forall|c: CExpr| k.requires((c,)),\n ensures anf_post(e, k, r),\n decreases e, 0int,"),
    ],
)
