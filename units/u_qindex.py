"""U-QINDEX: query::HirResultsIndex::new, the expression and pattern tables (fragments) — C20."""
import re
from vlib.gen import Unit, Fn, Raw

Q = "crates/compiler/src/query.rs"
RW = [(re.compile(r"\bhir::"), "", "*"), ("HashMap::new()", "PtrMap::new()", "*"),
      (re.compile(r"(\w+)\.entry\((\w+)\)\.or_insert\((\w+)\);"), r"\1.insert_if_absent(\2, \3);", "*")]


UNIT = Unit(
    name="U-QINDEX",
    properties=["C20"],
    rules=["attrs"],
    describe="query::HirResultsIndex::new (fragments: the expression table and the pattern table): the index maps every syntax node that some expression / pattern "
             "was lowered from to the LAST one lowered from it — the lowering numbers inner expressions first, so that is the outermost expression written at that "
             "place, the one whose type a hover there must report (`t.1.0`: the whole projection, not `t.1`) — and it knows every such node",
    trusted=["FRAGMENTS: the two index loops; the table of locals (an iterator over a map) is not extracted; HirTable is a shim: which node an expression was lowered from is "
             "an uninterpreted function of its number; HashMap<MySyntaxNodePtr, V> is a finite map (insert overwrites)",
             "that `last lowered` means `outermost` is the lowering's numbering order, read off ast::lower / hir lowering, not proved"],
    items=[
        Raw(path="contracts/qindex.shim.rs"),
        Fn(file=Q, name="new", container="HirResultsIndex", as_method_of=None, rename="expr_index", ret="r", attrs="#[verifier::loop_isolation(false)]",
           cut_from="for idx in 0..hir_table.expr_count() {", cut_before="for idx in 0..hir_table.pat_count() {", cut_tail="    expr_by_ptr",
           sig="fn expr_index(hir_table: &HirTable) -> PtrMap<ExprId>",
           pre_rewrites=[("for idx in 0..hir_table.expr_count() {", "let mut expr_by_ptr: PtrMap<ExprId> = PtrMap::new(); let __n = hir_table.expr_count(); let mut __k: usize = 0; while __k < __n { let idx = __k; __k += 1;")],
           rewrites=RW,
           obligation="a node maps to the last expression lowered from it; every node some expression was lowered from is in the index",
           contract="ensures expr_index_ok(r@, hir_table, hir_table.n_exprs() as int),",
           loop_fn=lambda k, header, kw: "invariant __k <= __n, __n == hir_table.n_exprs(), expr_index_ok(expr_by_ptr@, hir_table, __k as int),\ndecreases __n - __k," if "__k < __n" in header else None),
        Fn(file=Q, name="new", container="HirResultsIndex", as_method_of=None, rename="pat_index", ret="r", attrs="#[verifier::loop_isolation(false)]",
           cut_from="for idx in 0..hir_table.pat_count() {", cut_before="for (local_id, _info) in hir_table.iter_locals() {", cut_tail="    pat_by_ptr",
           sig="fn pat_index(hir_table: &HirTable) -> PtrMap<PatId>",
           pre_rewrites=[("for idx in 0..hir_table.pat_count() {", "let mut pat_by_ptr: PtrMap<PatId> = PtrMap::new(); let __n = hir_table.pat_count(); let mut __k: usize = 0; while __k < __n { let idx = __k; __k += 1;")],
           rewrites=RW,
           obligation="a node maps to the last pattern lowered from it; every node some pattern was lowered from is in the index",
           contract="ensures pat_index_ok(r@, hir_table, hir_table.n_pats() as int),",
           loop_fn=lambda k, header, kw: "invariant __k <= __n, __n == hir_table.n_pats(), pat_index_ok(pat_by_ptr@, hir_table, __k as int),\ndecreases __n - __k," if "__k < __n" in header else None),
    ],
)
