"""U-DYNREQ: go::compile::collect_dyn_requirements, nested collect_ty / collect_imm / collect_cexpr / collect_aexpr (whole) — C17, C02."""
import re
from vlib.gen import Unit, Fn, Adt, Raw

G = "crates/compiler/src/go/compile.rs"
A = "crates/compiler/src/anf.rs"
VC = (re.compile(r"\.clone\(\)"), ".vclone()", "*")
KEEP = "keeps(*old(req), *final(req))"


def loops(covered):
    def f(k, header, kw):
        mt = re.search(r"while\s+(__fk\d+)\s*<\s*([\w\.]+)\.len\(\)", header)
        if not mt:
            return None
        i, c = mt.group(1), mt.group(2)
        extra = ""
        if covered and c == "arms":
            extra = f"\n  todyn_arms(arms@, {i} as int).subset_of(req.vtables@),"
        return f"invariant {i} <= {c}.len(), keeps(*old(req), *req),{extra}\n decreases {c}.len() - {i},"
    return f


UNIT = Unit(
    name="U-DYNREQ",
    properties=["C17", "C02"],
    rules=["attrs", ("strip", "tast::"), ("strip", "anf::"), "for_index"],
    describe="go::compile::collect_dyn_requirements, the nested walkers collect_ty / collect_imm / collect_cexpr / collect_aexpr (whole): for every coercion of a value of type T to "
             "`dyn Tr` that occurs ANYWHERE in an expression — the value or the body of a let, either branch of an if, the condition or the body of a while, any arm or the DEFAULT "
             "of a match — the pair (Tr, T) is among the required vtables afterwards (it is for exactly these pairs that the vtable constructor and the per-method wrappers the "
             "coercion's code refers to are emitted); nothing required before is lost",
    trusted=["IndexSet is a mathematical set (shims NameSet / VtSet: insert adds); derived Clone is an identical copy; the loop over the functions of the file (the last lines of "
             "collect_dyn_requirements) and gen_dyn_helper_fns, which turns the pairs into Go functions (U-DYNVT, U-DYNIMPL), are not part of this unit"],
    items=[
        Adt(file="crates/compiler/src/tast.rs", kw="enum", name="Ty", rules=["attrs"]),
        Adt(file="crates/compiler/src/tast.rs", kw="struct", name="TastIdent", rules=["attrs"]),
        Raw(path="contracts/dynreq.shim.rs"),
        Adt(file=A, kw="enum", name="ImmExpr", rules=["attrs"]),
        Adt(file=A, kw="enum", name="CExpr", rules=["attrs", ("strip", "common_defs::")]),
        Adt(file=A, kw="enum", name="AExpr", rules=["attrs"]),
        Adt(file=A, kw="struct", name="Arm", rules=["attrs"]),
        Fn(file=G, name="collect_ty", container="@nested:collect_dyn_requirements", drop_self_impl=True, attrs="#[verifier::loop_isolation(false)]", rewrites=[VC],
           obligation="walking a type only adds", contract=f"ensures {KEEP},\n decreases *ty,", loop_fn=loops(False)),
        Fn(file=G, name="collect_imm", container="@nested:collect_dyn_requirements", drop_self_impl=True, rewrites=[VC],
           obligation="walking an operand only adds", contract=f"ensures {KEEP},"),
        Fn(file=G, name="collect_cexpr", container="@nested:collect_dyn_requirements", drop_self_impl=True, attrs="#[verifier::loop_isolation(false)]", rewrites=[VC],
           obligation="every coercion to a dyn type that occurs in the expression — in particular in the default of a match — is among the required vtables afterwards",
           contract=f"ensures {KEEP}, todyn_c(*expr).subset_of(final(req).vtables@),\n decreases *expr, 0int,",
           ghost=[("@entry", "", "let ghost expr0 = expr; let ghost req0 = *req;")],
           loop_fn=loops(True)),
        Fn(file=G, name="collect_aexpr", container="@nested:collect_dyn_requirements", drop_self_impl=True, rewrites=[VC],
           obligation="the same for a let chain: the value and the body of every let",
           contract=f"ensures {KEEP}, todyn_a(*expr).subset_of(final(req).vtables@),\n decreases *expr, 1int,"),
    ],
)
