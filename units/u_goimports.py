"""U-GOIMPORTS: the part of go::compile::go_file that adds the imports the extern declarations need (fragment; C13)."""
import re
from vlib.gen import Unit, Fn, Adt, Raw

G = "crates/compiler/src/go/compile.rs"
SEEN0 = "old(existing_imports)@"
ALLP = "fn_paths(goenv.genv.value_env.extern_funcs.vals()) + ty_paths(goenv.genv.type_env.extern_types.vals())"


def loops(k, header, kw, body=None):
    if "__fv <" in header:
        part = "fn_paths(goenv.genv.value_env.extern_funcs.vals().subrange(0, __fv as int))"
        return (f"invariant __fv <= __fvals@.len(), __fvals@.len() == goenv.genv.value_env.extern_funcs.vals().len(),\n"
                f"  forall|i: int| 0 <= i < __fvals@.len() ==> *(#[trigger] __fvals@[i]) == goenv.genv.value_env.extern_funcs.vals()[i],\n"
                f"  spec_paths(extra_specs@) == fresh_in_order({SEEN0}, {part}), no_alias(extra_specs@),\n"
                f"  existing_imports@ == {SEEN0}.union({part}.to_set()),\n"
                f"decreases __fvals@.len() - __fv,")
    if "__tv <" in header:
        part = ("fn_paths(goenv.genv.value_env.extern_funcs.vals()) + ty_paths(goenv.genv.type_env.extern_types.vals().subrange(0, __tv as int))")
        return (f"invariant __tv <= __tvals@.len(), __tvals@.len() == goenv.genv.type_env.extern_types.vals().len(),\n"
                f"  forall|i: int| 0 <= i < __tvals@.len() ==> *(#[trigger] __tvals@[i]) == goenv.genv.type_env.extern_types.vals()[i],\n"
                f"  spec_paths(extra_specs@) == fresh_in_order({SEEN0}, {part}), no_alias(extra_specs@),\n"
                f"  existing_imports@ == {SEEN0}.union(({part}).to_set()),\n"
                f"decreases __tvals@.len() - __tv,")
    return None


UNIT = Unit(
    name="U-GOIMPORTS",
    properties=["C13"],
    # no stub of this unit walks a collection in an unspecified order, so a failed proof here never refutes determinism: it says the order is
    # no longer the recorded one (UNDECIDED).  A hash-ordered walk has no stub at all: such code cannot be extracted (UNDECIDED as well).
    alarm_only_with=["iter_order("],
    rules=["attrs", ("strip", "goast::"), ("strip", "tast::"), "let_chain_rev", "let_chain"],
    describe="go::compile::go_file, the imports added for extern declarations (fragment): the added import specs are exactly the Go packages named "
             "by the extern functions and then by the extern types that are not imported yet — each once, in the ORDER of the extern tables "
             "(insertion order of the environment), never in the iteration order of a hash table",
    trusted=["FRAGMENT go_file_extra_imports: from `let mut extra_specs` to the test `if !extra_specs.is_empty()`; how the runtime's own imports are "
             "collected before and how the specs are attached afterwards is not in the unit",
             "IndexSet<String> is a shim (set membership; insert reports novelty); IndexMap::values() is a shim returning the entries in the map's "
             "insertion order (`vals()`), i.e. the order in which the environment was filled is taken as given"],
    items=[
        Adt(file="crates/compiler/src/go/goast.rs", kw="struct", name="ImportSpec", rules=["attrs"]),
        Adt(file="crates/compiler/src/env.rs", kw="struct", name="ExternFunc", rules=["attrs", ("strip", "tast::")]),
        Adt(file="crates/compiler/src/env.rs", kw="struct", name="ExternType", rules=["attrs"]),
        Raw(path="contracts/goimports.shim.rs"),
        Fn(file=G, name="go_file", rename="go_file_extra_imports", ret="r", attrs="#[verifier::loop_isolation(false)]",
           cut_from=re.compile(r"let mut extra_specs = Vec::\w+\([^()]*\);"), cut_before="if !extra_specs.is_empty() {", cut_tail="    extra_specs",
           sig="fn go_file_extra_imports(goenv: &GlobalGoEnv, existing_imports: &mut SeenSet) -> Vec<ImportSpec>",
           pre_rewrites=[
               ("for extern_fn in goenv.genv.value_env.extern_funcs.values() {",
                "let __fvals = goenv.genv.value_env.extern_funcs.values_vec(); let mut __fv: usize = 0; while __fv < __fvals.len() { let extern_fn = __fvals[__fv]; __fv += 1;"),
               ("for extern_ty in goenv.genv.type_env.extern_types.values() {",
                "let __tvals = goenv.genv.type_env.extern_types.values_vec(); let mut __tv: usize = 0; while __tv < __tvals.len() { let extern_ty = __tvals[__tv]; __tv += 1;"),
           ],
           rewrites=[(re.compile(r"let mut extra_specs = Vec::\w+\([^()]*\);"), "let mut extra_specs: Vec<ImportSpec> = Vec::new();", 1), (re.compile(r"\.clone\(\)"), ".vclone()", "*")],
           loop_fn=loops,
           ghost=[("@entry", "", "proof { lemma_empty(old(existing_imports)@); let fs = goenv.genv.value_env.extern_funcs.vals(); "
                   "assert(fn_paths(fs.subrange(0, 0)) =~= Seq::<Seq<char>>::empty()); assert(old(existing_imports)@.union(Seq::<Seq<char>>::empty().to_set()) =~= old(existing_imports)@); }"),
                  ("@loop-body:__fv <", "",
                   "proof { let k = __fv as int; let fs = goenv.genv.value_env.extern_funcs.vals(); lemma_fn_paths_step(fs, k); "
                   "lemma_fresh_push(old(existing_imports)@, fn_paths(fs.subrange(0, k)), fs[k].package_path@); }"),
                  ("let __tvals = goenv.genv.type_env.extern_types.values_vec();", "line-before",
                   "proof { let fs = goenv.genv.value_env.extern_funcs.vals(); let ts = goenv.genv.type_env.extern_types.vals(); "
                   "assert(fs.subrange(0, fs.len() as int) =~= fs); assert(ts.subrange(0, 0) =~= Seq::<ExternType>::empty()); "
                   "assert(fn_paths(fs) + ty_paths(ts.subrange(0, 0)) =~= fn_paths(fs)); }"),
                  ("@loop-body:__tv <", "",
                   "proof { let k = __tv as int; let fs = goenv.genv.value_env.extern_funcs.vals(); let ts = goenv.genv.type_env.extern_types.vals(); "
                   "lemma_ty_paths_step(ts, k); "
                   "if let Some(p) = ts[k].package_path { assert(fn_paths(fs) + ty_paths(ts.subrange(0, k)).push(p@) =~= (fn_paths(fs) + ty_paths(ts.subrange(0, k))).push(p@)); "
                   "lemma_fresh_push(old(existing_imports)@, fn_paths(fs) + ty_paths(ts.subrange(0, k)), p@); } }"),
                  ("@after-loop:__tv <", "", "proof { let ts = goenv.genv.type_env.extern_types.vals(); assert(ts.subrange(0, ts.len() as int) =~= ts); }")],
           obligation="the added import specs are the not-yet-imported Go packages of the extern functions, then of the extern types, each once, in table order",
           contract=f"ensures spec_paths(r@) == fresh_in_order({SEEN0}, {ALLP}), no_alias(r@),"),
    ],
)
