"""U-DEPENV: which packages' environments the type checker of one package is given (pipeline::typecheck_packages and
typecheck_with_packages_and_results), as fragments of the per-package loop body."""
import re
from vlib.gen import Unit, Fn, Adt, Raw

P = "crates/compiler/src/pipeline/pipeline.rs"
PRE = [(re.compile(r"let mut deps: Vec<_> = package\.imports\.iter\(\)\.cloned\(\)\.collect\(\);"), "let mut deps: Vec<String> = package.imports.to_vec_any_order();", 1)]
RW = [(re.compile(r"\bdeps\.sort\(\);"), "sort_strs(&mut deps);", 1),
      (re.compile(r"\bdep\.clone\(\)"), "string_clone(dep)", "*"),
      (re.compile(r"\.hir_interface\.clone\(\)"), ".hir_interface.vclone()", "*"),
      ("let mut deps_envs = HashMap::new();", "let mut deps_envs: HashMap<String, GlobalTypeEnv> = HashMap::new();"),
      ("let mut deps_interfaces = HashMap::new();", "let mut deps_interfaces: HashMap<String, HirInterface> = HashMap::new();")]


def inv(exp, hi, aty):
    def f(k, header, kw):
        mt = re.search(r"while\s+(__fk\d+)\s*<\s*deps\.len\(\)", header)
        if not mt:
            return None
        i = mt.group(1)
        return (f"invariant {i} <= deps.len(), views(deps@).to_set() == package.imports@,\n"
                f"  deps_envs@.dom() =~= views(deps@).subrange(0, {i} as int).to_set(), deps_interfaces@.dom() =~= views(deps@).subrange(0, {i} as int).to_set(),\n"
                f"  forall|d: Seq<char>| #![trigger deps_envs@.contains_key(d)] deps_envs@.contains_key(d) ==> artifacts_by_name@.contains_key(d) && deps_envs@[d] == artifacts_by_name@[d]{exp}.genv(),\n"
                f"  forall|d: Seq<char>| #![trigger deps_interfaces@.contains_key(d)] deps_interfaces@.contains_key(d) ==> artifacts_by_name@.contains_key(d) && deps_interfaces@[d] == artifacts_by_name@[d]{hi},\n"
                f"decreases deps.len() - {i},")
    return f


def frag(fn_name, new_name, aty, end, gate, exp, hi):
    return Fn(file=P, name=fn_name, rename=new_name, ret="r", attrs="#[verifier::loop_isolation(false)]",
              cut_from="let mut deps_envs = HashMap::new();", cut_before=end,
              cut_tail=f"    proof {{ lemma_full_range(views(deps@)); }}\n    {gate}(&package.imports, artifacts_by_name, deps_envs, deps_interfaces)",
              sig=f"fn {new_name}(package: &PackageUnit, artifacts_by_name: &HashMap<String, {aty}>) -> Result<(), CompilationError>",
              pre_rewrites=PRE, rewrites=RW,
              obligation="the type checker of a package is handed exactly its direct imports, each with that package's own environment and HIR interface",
              contract="", ghost=[("@entry", "", "proof { broadcast use key_view_string; }"),
                                  ("@loop:0:body", "", "proof { lemma_prefix_step(views(deps@), __fk0 as int); }")],
              loop_fn=inv(exp, hi, aty))


UNIT = Unit(
    name="U-DEPENV",
    properties=["C16", "C14"],
    rules=["attrs", "fmtmsg", "ok_or_else_q", "for_index"],
    describe="pipeline::typecheck_packages / typecheck_with_packages_and_results (fragments of the per-package loop): the dependency "
             "environments and HIR interfaces handed to the type checker of a package have exactly the package's DIRECT imports as keys, "
             "each mapped to the environment / interface of that very package's artifact — a package that is not imported is not visible "
             "to the typer, even if it is reachable through another import",
    trusted=["FRAGMENTS: only the construction of deps_envs / deps_interfaces is verified; the type-checking call is replaced by a gate stub "
             "whose PRECONDITION is the property; everything else in the two functions is dropped",
             "HashSet → Vec collection yields the elements in an unspecified order; sort is a permutation; HashMap is a finite map by key text"],
    items=[
        Raw(path="contracts/depenv.shim.rs"),
        Raw(text="""
pub proof fn lemma_full_range(s: Seq<Seq<char>>) ensures s.subrange(0, s.len() as int) == s { assert(s.subrange(0, s.len() as int) =~= s); }
pub proof fn lemma_prefix_step(s: Seq<Seq<char>>, i: int)
    requires 0 <= i < s.len(),
    ensures s.subrange(0, i + 1).to_set() =~= s.subrange(0, i).to_set().insert(s[i]),
{
    assert(s.subrange(0, i + 1) =~= s.subrange(0, i).push(s[i]));
    assert forall|x: Seq<char>| s.subrange(0, i + 1).to_set().contains(x) <==> s.subrange(0, i).to_set().insert(s[i]).contains(x) by {
        if s.subrange(0, i + 1).contains(x) {
            let k = choose|k: int| 0 <= k < i + 1 && (#[trigger] s.subrange(0, i + 1)[k]) == x;
            if k < i { assert(s.subrange(0, i)[k] == x); }
        }
        if s.subrange(0, i).contains(x) {
            let k = choose|k: int| 0 <= k < i && (#[trigger] s.subrange(0, i)[k]) == x;
            assert(s.subrange(0, i + 1)[k] == x);
        }
        if x == s[i] { assert(s.subrange(0, i + 1)[i] == x); }
    }
}
"""),
        Adt(file="crates/compiler/src/pipeline/packages.rs", kw="struct", name="PackageUnit", rules=["attrs"]),
        frag("typecheck_packages", "dep_env_a", "PackageArtifact", "let artifact = typecheck_package(", "typecheck_gate_a", ".interface.exports", ".interface.hir_interface"),
        frag("typecheck_with_packages_and_results", "dep_env_b", "PackageInterface", "let (hir, hir_table, mut hir_diagnostics) =", "typecheck_gate_b", ".exports", ".hir_interface"),
    ],
)
