"""U-FMTVERB: go::runtime::{to_string_fn, intN_to_string .., float32_to_string, float64_to_string} — C10, how numbers are printed."""
import re
from vlib.gen import Unit, Fn, Adt, Raw
from units.u_gopkgs import types

R = "crates/compiler/src/go/runtime.rs"
RW = [(re.compile(r"\bgoast::"), "", "*"), (re.compile(r"\bgoty::"), "", "*"), (re.compile(r"\bty\.clone\(\)"), "gotype_clone(&ty)", "*"),
      (re.compile(r'"([^"]*)"\.to_string\(\)'), r'str_to_string("\1")', "*"), (re.compile(r"\bname\.to_string\(\)"), "str_to_string(name)", "*")]


def num(fn, ty, pred):
    return Fn(file=R, name=fn, ret="r", rewrites=RW,
              obligation=("the runtime function renders its argument with a verb Go accepts for that type: " +
                          ("`%d` (decimal) for an integer" if pred == "renders_decimal_int" else "NOT `%d` for a float — `%d` on a float prints `%!d(float64=27.25)`")),
              contract=f"ensures {pred}(r, GoType::{ty}),")


UNIT = Unit(
    name="U-FMTVERB",
    properties=["C10"],
    rules=["attrs"],
    describe="go::runtime, the `<type>_to_string` functions of the emitted runtime: each is `func f(x T) string { return fmt.Sprintf(VERB, x) }`; for the eight integer types "
             "the verb is `%d` (decimal). For float32 / float64 the property demands a readable decimal form — the functions use `%d` as well, which Go answers with "
             "`%!d(float64=27.25)`: these two obligations FAIL on the pinned tree (KNOWN FINDING; the pinned expected outputs of tests 050 and 053 contain that text)",
    trusted=["what fmt.Sprintf does with a verb is Go's; String construction and GoType::clone are shims"],
    items=types + [
        Raw(path="contracts/fmtverb.spec.rs"),
        Fn(file=R, name="to_string_fn", ret="r", rewrites=RW, obligation="func name(x T) string { return fmt.Sprintf(\"%d\", x) }",
           contract="ensures param_ty(r) == Some(ty), sprintf_verb(r) == Some(\"%d\"@),"),
        num("int8_to_string", "TInt8", "renders_decimal_int"), num("int16_to_string", "TInt16", "renders_decimal_int"),
        num("int32_to_string", "TInt32", "renders_decimal_int"), num("int64_to_string", "TInt64", "renders_decimal_int"),
        num("uint8_to_string", "TUint8", "renders_decimal_int"), num("uint16_to_string", "TUint16", "renders_decimal_int"),
        num("uint32_to_string", "TUint32", "renders_decimal_int"), num("uint64_to_string", "TUint64", "renders_decimal_int"),
        num("float32_to_string", "TFloat32", "renders_float"), num("float64_to_string", "TFloat64", "renders_float"),
    ],
)
