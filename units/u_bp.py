from vlib.gen import Unit, Fn, Adt, Raw
from units.common import TOKENKIND, PAR

E = PAR + "expr.rs"
NAMES = [(E, "infix_binding_power"), (E, "prefix_binding_power"), (E, "postfix_binding_power"), (PAR + "file.rs", "type_infix_binding_power")]

def both(f, n):
    return [Fn(file=f, name=n, as_spec=True),
            Fn(file=f, name=n, ret="r", contract=f"ensures r == {n}_spec(op),",
               obligation="the executable table equals its spec-mode twin (same extracted body), over which the C11 lemmas are proved")]

items = list(TOKENKIND)
for f, n in NAMES:
    items += both(f, n)
items.append(Raw(path="contracts/bp.spec.rs"))

UNIT = Unit(
    name="U-BP",
    properties=["C11"],
    describe="Pratt binding-power tables (infix/prefix/postfix/type-infix) against the documented grammar: operator set, precedence levels, "
             "left associativity, unary tighter than * /, field access tightest and call tighter than every other binary operator, `->` right-associative — for all token kinds. NOT a table fact: call vs prefix operator (prefix 23 > call 21: the CST of `-f(x)` is `(-f)(x)`; the lowering re-associates it, U-CALLLOWER)",
    items=items,
)
