"""U-QDERIVE: query::typecheck_single_file_for_query, from the derive pass to the lowering (fragment) — C20."""
import re
from vlib.gen import Unit, Fn, Adt, Raw

Q = "crates/compiler/src/query.rs"

UNIT = Unit(
    name="U-QDERIVE",
    properties=["C20"],
    rules=["attrs"],
    describe="query::typecheck_single_file_for_query, the derive step (fragment): what the editor queries hand to name resolution and the type checker is the file WITH its derived "
             "impls (derive::expand's result), and the file as written only when the derive itself reports an error — the same input the compiler type-checks, so hover and "
             "completion see `to_string` / `to_json` of every type that derives them",
    trusted=["FRAGMENT derive_step: from the first statement after the import test to the call of hir::lower_to_hir, which is a stub whose precondition is the statement; parsing, "
             "lowering of the CST and the type check itself are dropped; derive::expand is an uninterpreted function of the file (U-DERIVE proves what it builds); Clone of the "
             "file is an identical copy"],
    items=[
        Raw(path="contracts/qderive.shim.rs"),
        Fn(file=Q, name="typecheck_single_file_for_query", rename="derive_step", ret="r",
           cut_from=re.compile(r"let original_ast = ast\.clone\(\);\s*let ast = match\b|let ast = (?:if|match)\b"), cut_before="let package = hir.name.0.clone();", cut_tail="__low",
           sig="fn derive_step(ast: AstFile, parse_diagnostics: &mut Diagnostics) -> Lowered",
           rewrites=[(re.compile(r"\.clone\(\)"), ".vclone()", "*"), ("crate::derive::expand(", "derive_expand(", "*"),
                     (re.compile(r"let \(hir, hir_table, mut hir_diagnostics\) = crate::hir::lower_to_hir\(ast\);"), "let __low = lower_to_hir(ast, Ghost(__w));", 1)],
           ghost=[("@entry", "", "let ghost __w = ast;")],
           obligation="the file handed to name resolution is the derive-expanded one (the written one only when the derive fails)",
           contract=""),
    ],
)
