"""U-CEXPR: the EUnary / EBinary / EArray arms of go::compile::compile_cexpr (fragments)."""
import re
from units.common import arm_guard
from vlib.gen import Unit, Fn, Adt, Raw, load_source
from units.u_dcefx import UNIT as DCE

G = "crates/compiler/src/go/compile.rs"
ANF = "crates/compiler/src/anf.rs"
CD = "crates/common-defs/src/lib.rs"
goast_types = [it for it in DCE.items if isinstance(it, Adt)]
RULES = [("strip", "anf::"), ("strip", "goast::"), ("strip", "goty::"), ("strip", "tast::"), ("strip", "common_defs::")]


def variants(enum_name):
    src = load_source(CD)
    s, e = src.find_adt("enum", enum_name)
    body = src.text[src.text.index("{", s) + 1:e]
    return re.findall(r"^\s*([A-Z]\w*)\s*,", body, re.M)


def same_name_table():
    # mechanical: every operator maps to the Go operator OF THE SAME NAME (the variant lists are read from the source on every run)
    out = []
    for (src_enum, go_enum, fn) in (("BinaryOp", "GoBinaryOp", "same_binop"), ("UnaryOp", "GoUnaryOp", "same_unop")):
        pairs = " | ".join(f"({src_enum}::{v}, {go_enum}::{v})" for v in variants(src_enum))
        out.append(f"pub open spec fn {fn}(a: {src_enum}, b: {go_enum}) -> bool {{ match (a, b) {{ {pairs} => true, _ => false }} }}\n")
    return "".join(out)


UNIT = Unit(
    name="U-CEXPR",
    properties=["C10", "C09"],
    rules=RULES,
    describe="go::compile::compile_cexpr, the EUnary / EBinary / EArray arms (fragments): an operator is emitted as the Go operator of the SAME NAME "
             "(+ as +, < as <, && as &&, unary - as -, ...: the table is derived from the two enums' variant names on every run), with its operands "
             "compiled from the SAME operands in the SAME order (left stays left), at the Go type of the expression's type; array elements are "
             "emitted in order",
    trusted=["FRAGMENTS: three arms of compile_cexpr; compile_imm and tast_ty_to_go_type are stubs with uninterpreted results",
             "what Go's operators do at run time (wrap-around, truncating division, comparison of signed values) is Go's semantics, not verified here"],
    items=goast_types + [
        arm_guard("crates/compiler/src/go/compile.rs", "compile_cexpr", None, r"match e \{",
                  ['anf::CExpr::CImm', 'anf::CExpr::EConstr', 'anf::CExpr::ETuple', 'anf::CExpr::EArray', 'anf::CExpr::EMatch', 'anf::CExpr::EIf', 'anf::CExpr::EWhile', 'anf::CExpr::EGo', 'anf::CExpr::EConstrGet', 'anf::CExpr::EUnary', 'anf::CExpr::EBinary', 'anf::CExpr::EToDyn', 'anf::CExpr::EDynCall', 'anf::CExpr::ECall', 'anf::CExpr::EProj']),
        Adt(file=CD, kw="enum", name="BinaryOp", rules=["attrs"]),
        Adt(file=CD, kw="enum", name="UnaryOp", rules=["attrs"]),
        Raw(path="contracts/cexpr.shim.rs"),
        Adt(file=ANF, kw="enum", name="ImmExpr", rules=["attrs"]),
        Adt(file=ANF, kw="enum", name="CExpr", rules=["attrs", ("strip", "common_defs::")]),
        Adt(file=ANF, kw="enum", name="AExpr", rules=["attrs"]),
        Adt(file=ANF, kw="struct", name="Arm", rules=["attrs"]),
        Raw(text=same_name_table),
        Fn(file=G, name="compile_cexpr", rename="cexpr_binary", ret="r", rules=RULES,
           cut_from="anf::CExpr::EBinary { op, lhs, rhs, ty } => {", cut_inside=True, cut_before="@block-end", cut_tail="",
           sig="fn cexpr_binary(goenv: &GlobalGoEnv, op: &BinaryOp, lhs: &ImmExpr, rhs: &ImmExpr, ty: &Ty) -> Expr",
           obligation="binary operator: the Go operator of the same name, left operand left, right operand right",
           contract="""ensures r matches Expr::BinaryOp { op: g, lhs: l, rhs: rr, ty: t } && same_binop(*op, g)
                && *l == imm_go(goenv, *lhs) && *rr == imm_go(goenv, *rhs) && t == go_ty_of(*ty),"""),
        Fn(file=G, name="compile_cexpr", rename="cexpr_unary", ret="r", rules=RULES,
           cut_from="anf::CExpr::EUnary { op, expr, ty } => {", cut_inside=True, cut_before="@block-end", cut_tail="",
           sig="fn cexpr_unary(goenv: &GlobalGoEnv, op: &UnaryOp, expr: &ImmExpr, ty: &Ty) -> Expr",
           obligation="unary operator: the Go operator of the same name on the same operand",
           contract="ensures r matches Expr::UnaryOp { op: g, expr: e, ty: t } && same_unop(*op, g) && *e == imm_go(goenv, *expr) && t == go_ty_of(*ty),"),
        Fn(file=G, name="compile_cexpr", rename="cexpr_array", ret="r", rules=RULES + ["iter_map_collect"], attrs="#[verifier::loop_isolation(false)]",
           cut_from="anf::CExpr::EArray { items, ty } => {", cut_inside=True, cut_before="@block-end", cut_tail="",
           sig="fn cexpr_array(goenv: &GlobalGoEnv, items: &Vec<ImmExpr>, ty: &Ty) -> Expr",
           rewrites=[(re.compile(r"let elems = \{ let mut __mo0 = Vec::new\(\);"), "let elems = { let mut __mo0: Vec<Expr> = Vec::new();", "*")],
           obligation="array literal: the elements compiled from the items, in order",
           contract="ensures r matches Expr::ArrayLiteral { elems, ty: t } && imms_go(goenv, items@, elems@) && t == go_ty_of(*ty),",
           loop_fn=lambda k, header, kw: ("invariant __mi0 <= items@.len(), __mo0@.len() == __mi0, forall|i: int| 0 <= i < __mi0 ==> #[trigger] __mo0@[i] == imm_go(goenv, items@[i]),\n"
                                          "decreases items@.len() - __mi0,")),
    ],
)
