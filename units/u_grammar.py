"""U-GRAMMAR: every grammar function of crates/parser/src/{file,expr,pattern,stmt,path}.rs under one uniform,
mechanically stamped contract.  Functions are *discovered* on every run (any top-level fn whose first parameter is
`p: &mut Parser`), so a new grammar function is under contract as soon as it exists.

Contract stamped on  fn f(p: &mut Parser, [markers], ..) -> R :
  requires old(p).wf(), marker_ok(old(p).events@, m.index) for every marker parameter
  ensures  final(p).wf(), same input, events_extend (events only grow; Open positions stay Open; nothing else is rewritten),
           mu(final) <= mu(old)                      -- the termination measure never increases
           marker_ok(final, r.index) for returned markers
           f in PROGRESS ==> (stalled(old) ==> mu(final) < mu(old))
  decreases mu(*old(p)), RANK[f]                      -- recursion terminates
Every loop:  invariant (same facts, live markers) ; decreases mu(*p)   -- every loop terminates
file():      ensures at_eof(final)  => with wf this is build_tree's accounting precondition (all tokens consumed)

TOTAL mode: every `assert!`, `debug_assert!`, `unreachable!()`, index and arithmetic operation inside the grammar functions is a
proof obligation; a function that starts with `assert!(p.at_unmetered(T![x]))` gets the stamped precondition
`next_kind(old(p)) == x`, which Verus then demands of every caller.  (Until fix 4eccd34 the assertions were fuel-dependent and
could fail; the unit ran in partial mode, `MODE = "partial"`, which assumes them.)
"""
import re

from vlib.gen import Unit, Fn, Adt, Raw, load_source
from vlib.rsitems import mask, match_delim, find_top_level, AnchorLost
from units.common import PAR
from units.u_pcore import TYPES, PCORE_FNS, RULES as CORE_RULES, P

FILES = ["file.rs", "expr.rs", "pattern.rs", "stmt.rs", "path.rs"]
MARKER_TYPES = ("MarkerOpened", "MarkerClosed")

# functions that must make progress even when the look-ahead budget is exhausted (they are the only thing that moves a
# loop forward in that state).  Derived from the call sites inside loops; see DESIGN.md (U-GRAMMAR).
PROGRESS_OVERRIDE = {}

# wrappers that call expr/expr_bp as their first action: they must rank above them (all calls *into* the wrappers happen
# after progress).  Derived from Verus' "could not prove termination" feedback with uniform ranks.
RANK_OVERRIDE = {"expect_expr_with_message": 101, "expect_expr_bp_with_message": 102, "arg": 103, "match_arm": 104, "match_arm_list": 105}


def split_params(s):
    out, depth, cur = [], 0, ""
    for ch in s:
        if ch in "([<{":
            depth += 1
        elif ch in ")]>}":
            depth -= 1
        if ch == "," and depth == 0:
            out.append(cur)
            cur = ""
        else:
            cur += ch
    if cur.strip():
        out.append(cur)
    res = []
    for p in out:
        if ":" in p:
            n, t = p.split(":", 1)
            res.append((n.strip().replace("mut ", ""), t.strip()))
    return res


def discover():
    fns = []
    consts = []
    for f in FILES:
        src = load_source(PAR + f)
        m = src.m
        for mt in re.finditer(r"(?m)^(pub(\([^)]*\))?\s+)?fn\s+([A-Za-z_]\w*)\s*\(", m):
            name = mt.group(3)
            po = mt.end() - 1
            pc = match_delim(m, po)
            params = split_params(src.text[po + 1:pc])
            b = find_top_level(m, pc + 1, "{;")
            if b < 0 or m[b] != "{":
                continue
            e = match_delim(m, b)
            sig_tail = src.text[pc + 1:b]
            ret = sig_tail.split("->", 1)[1].strip() if "->" in sig_tail else None
            fns.append({"file": PAR + f, "name": name, "params": params, "ret": ret, "body": src.text[b:e + 1], "mbody": m[b:e + 1]})
        for mt in re.finditer(r"(?m)^(pub\s+)?const\s+([A-Z_0-9]+)\s*:\s*&\[TokenKind\]", m):
            consts.append((PAR + f, mt.group(2)))
    src = load_source(P)
    for mt in re.finditer(r"(?m)^(pub\s+)?const\s+([A-Z_0-9]+)\s*:\s*&\[TokenKind\]", src.m):
        consts.append((P, mt.group(2)))
    names = [f["name"] for f in fns]
    if len(set(names)) != len(names):
        raise AnchorLost("grammar: duplicate function names across files")
    return fns, consts


def call_graph(fns):
    names = {f["name"] for f in fns}
    g = {}
    for f in fns:
        callees = []
        for mt in re.finditer(r"(?<![A-Za-z0-9_\.])([a-z_][a-z_0-9]*)\s*\(", f["mbody"]):
            if mt.group(1) in names:
                callees.append(mt.group(1))
        g[f["name"]] = callees
    return g


def ranks(fns):
    """longest-path rank in the call graph with DFS back edges removed (callees get smaller ranks)"""
    g = call_graph(fns)
    order = [f["name"] for f in fns]
    state, rank = {}, {}
    dag = {n: [] for n in order}

    def dfs(n):
        state[n] = 1
        for c in g[n]:
            if state.get(c) == 1:
                continue  # back edge: recursion that (by the proof) happens only after progress
            dag[n].append(c)
            if c not in state:
                dfs(c)
        state[n] = 2

    roots = ["file"] + order
    for r in roots:
        if r in g and r not in state:
            dfs(r)

    def rk(n):
        if n not in rank:
            rank[n] = 0
            rank[n] = 1 + max([rk(c) for c in dag[n]] + [0])
        return rank[n]

    for n in order:
        rk(n)
    rank.update(RANK_OVERRIDE)
    return rank, g


def first_assert(fn):
    """total mode: a function whose first statement is `assert!(p.at(T![x]));` requires the next token to be x"""
    body = fn["body"].lstrip("{").lstrip()
    mt = re.match(r"assert!\(p\.at(?:_unmetered)?\(T!\[('.'|[^\]]+?)\]\)\);", body)
    if mt:
        from vlib.rules import Context
        tab = _CTX.t_table()
        key = mt.group(1).strip()
        return f"next_kind(*old(p)) == TokenKind::{tab[key]}"
    return None


from vlib.rules import Context as _Context
_CTX = _Context()


def const_item(file, name, total=False):
    src = load_source(file)
    s, e = src.find_adt("const", name)
    text = src.text[s:e]
    has_eof = bool(re.search(r"T!\[eof\]", text))
    # `exec const NAME: &'static [TokenKind]` with a generated postcondition about Eof membership only
    ens = "" if has_eof else f"\n    ensures !{name}@.contains(TokenKind::Eof),\n"
    extra_proof = ""
    if total and not has_eof:
        tab = _CTX.t_table()
        elems = ["TokenKind::" + tab[k.strip()] for k in re.findall(r"T!\[('.'|[^\]]+?)\]", text[text.index("="):])]
        lit = "seq![" + ", ".join(elems) + "]"
        ens = f"\n    ensures !{name}@.contains(TokenKind::Eof), {name}@ =~= {lit},\n"
        extra_proof = f" assert(r@ =~= {lit});"
    body = text[text.index("=") + 1:].rstrip().rstrip(";")
    new_head = f"pub exec const {name}: &'static [TokenKind]{ens}"
    return Adt(file=file, kw="const", name=name, rules=["T"],
               rewrites=[(re.compile(r"^(pub\s+)?const\s+" + name + r"\s*:\s*&\[TokenKind\]\s*=\s*", re.S), new_head + "{ let r: &'static [TokenKind] = ", 1),
                         (re.compile(r";\s*$"), "; proof { lemma_no_eof(r@);" + extra_proof + " } r }", 1)] if not has_eof else
               [(re.compile(r"^(pub\s+)?const\s+" + name + r"\s*:\s*&\[TokenKind\]"), f"pub exec const {name}: &'static [TokenKind]", 1)])


COMMON_ENS = ("final(p).wf(), final(p).same_input(old(p)), events_extend(old(p).events@, final(p).events@, {EX}), "
              "0 <= mu(*final(p)) <= mu(*old(p)), at_eof(*old(p)) ==> at_eof(*final(p)), stay(*old(p), *final(p)),")
LOOP_INV = "p.wf(), p.same_input(old(p)), events_extend(old(p).events@, p.events@, {EX}), 0 <= mu(*p) <= mu(*old(p)), at_eof(*old(p)) ==> at_eof(*p), stay(*old(p), *p),"


OPENED_RHS = r"\bp\.open\(\)|\.precede\(p\)"
CLOSED_RHS = r"\bp\.close\(|\.completed\(p|attribute_list\(p\)|closure_expr\(p\)"


def markers_before(fn, upto):
    """marker variables in scope at body offset `upto`: list of (name, 'o'|'c')  (o: pending MarkerOpened, c: MarkerClosed)"""
    ms = []
    for n, t in fn["params"]:
        t0 = t.split("<")[0].strip()
        if t0 == "MarkerOpened":
            ms.append((n, "o"))
        elif t0 == "MarkerClosed":
            ms.append((n, "c"))
    mb = fn["mbody"]
    for mt in re.finditer(r"\blet\s+(mut\s+)?([a-z_][a-z_0-9]*)\s*(:\s*\w+\s*)?=\s*([^;{}]*?);", mb[:upto], re.S):
        name, rhs = mt.group(2), mt.group(4)
        if re.search(OPENED_RHS, rhs):
            kind = "o"
        elif re.search(CLOSED_RHS, rhs):
            kind = "c"
        else:
            continue
        depth, k = 0, mt.start()
        while k > 0:
            k -= 1
            if mb[k] == "}":
                depth += 1
            elif mb[k] == "{":
                if depth == 0:
                    break
                depth -= 1
        close = match_delim(mb, k)
        if close > upto:
            ms = [(n, kd) for (n, kd) in ms if n != name] + [(name, kind)]
    return ms


def mk(kind, ev, name):
    return f"marker_ok_o({ev}, {name}.index)" if kind == "o" else f"marker_ok({ev}, {name}.index)"


def build_items(mode="partial", fuel=None, pratt=False):
    fuel = fuel or {}
    total = mode == "total"
    FC, FIN, FLC = fuel.get("C", {}), fuel.get("IN", {}), fuel.get("LC", {})
    consumes = set(fuel.get("consumes", []))
    fns, consts = discover()
    rank, g = ranks(fns)
    items = []
    for (f, c) in consts:
        items.append(const_item(f, c, total))
    from vlib.gen import find_loops
    for fn in fns:
        name = fn["name"]
        if not fn["params"] or fn["params"][0][0] != "p" or "Parser" not in fn["params"][0][1]:
            # pure helper (binding power tables): spec-mode twin + `r == twin(op)` so callers see the table
            if name.endswith("binding_power"):
                items.append(Fn(file=fn["file"], name=name, rules=["T"], as_spec=True))
                items.append(Fn(file=fn["file"], name=name, rules=["T"], ret="r", contract=f"ensures r == {name}_spec({fn['params'][0][0]}),"))
            else:
                items.append(Fn(file=fn["file"], name=name, rules=["T"]))
            continue
        req = ["old(p).wf()"]
        ex = "-1"
        for n, t in fn["params"][1:]:
            t0 = t.split("<")[0].strip()
            if t0 == "MarkerOpened":
                req.append(f"marker_ok_o(old(p).events@, {n}.index)")
                ex = f"{n}.index as int"
            elif t0 == "MarkerClosed":
                req.append(f"marker_ok(old(p).events@, {n}.index)")
        if name in EXTRA_REQ:
            req.append(EXTRA_REQ[name])
        if total:
            fa = first_assert(fn)
            if fa:
                req.append(fa)
        ens = [COMMON_ENS.replace("{EX}", ex)]
        ret = fn["ret"]
        rname = None
        if ret:
            rname = "r"
            if ret.strip() in MARKER_TYPES:
                ens.append("marker_ok(final(p).events@, r.index),")
            elif re.sub(r"\s", "", ret) in ("Option<MarkerClosed>", "Option<MarkerOpened>"):
                ens.append("r matches Some(mc) ==> marker_ok(final(p).events@, mc.index),")
                ens.append("r is Some ==> mu(*final(p)) < mu(*old(p)),")
        if name in PROGRESS:
            ens.append("stalled(*old(p)) ==> mu(*final(p)) < mu(*old(p)),")
        if name in EXTRA_ENS:
            ens.append(EXTRA_ENS[name])
        if pratt and name in PRATT_ENS:
            ens.append(PRATT_ENS[name])
        contract = "requires " + ", ".join(req) + ",\nensures " + "\n".join(ens) + f"\ndecreases mu(*old(p)), {rank[name]}int,"
        loops = {}
        ghost = [("@entry", "", "proof { lemma_mu_nonneg(*p); }")] + list(GHOST.get(name, [])) + (list(PRATT_GHOST.get(name, [])) if pratt else [])
        for k, (s, b, kw) in enumerate(find_loops(fn["mbody"])):
            ghost.append((f"@loop:{k}:body", "", "proof { lemma_mu_nonneg(*p); }"))
            ghost.append((f"@loop:{k}:before", "", f"let ghost pl{k} = *p;"))
            mks = markers_before(fn, s)
            inv = LOOP_INV.replace("{EX}", ex) + " ".join(mk(kd, "p.events@", m) + "," for (m, kd) in mks if (name, k, m) not in LOOP_DROP)
            inv += f" mu(*p) <= mu(pl{k}),"
            inv += LOOP_EXTRA.get((name, k), "")
            le = PRATT_LOOP_ENS.get((name, k)) if pratt else None
            loops[k] = f"invariant {inv}\n" + (f"ensures {le}\n" if le else "") + "decreases mu(*p),"
        items.append(Fn(file=fn["file"], name=name, ret=rname, contract=contract, loops=loops,
                        attrs=ATTRS.get(name, ""), contract_only=(pratt and name not in PRATT_ENS),
                        rewrites=(PRATT_REWRITES.get(name, []) if pratt else []),
                        rules=(["T", "fmtmsg"] + ([] if total else ["assert_partial", "unreachable_partial"])
                               + [("strip", "super::pattern::"), ("strip", "pattern::"), ("strip", "stmt::")]),
                        ghost=ghost,
                        obligation="uniform grammar contract: invariant wf kept, events only extended, termination measure non-increasing, "
                                   "recursion and every loop terminate" + (", progress when stalled" if name in PROGRESS else "")))
    return items


# functions that guarantee progress in the stalled state (fuel 0, input left)
PROGRESS = {"expect_expr_with_message", "expect_expr_bp_with_message", "match_arm"}
BIG = "#[verifier::rlimit(80)]\n#[verifier::spinoff_prover]"
ATTRS = {"atom": BIG, "extern_decl_with_marker": BIG, "type_atom": BIG, "simple_pattern": BIG, "expr_bp": BIG, "block": BIG}
EXTRA_ENS = {
    "looks_like_struct_literal": "r ==> next_kind(*final(p)) == TokenKind::LBrace,",
    "file": "at_eof(*final(p)), balanced(final(p).events@),",
}
# C11: the Pratt loops stop only in front of a token that is not an operator binding at least as tightly as min_bp
# (together with the guard assertions below and the table lemmas of U-BP this is the precedence/associativity discipline)
PRATT_STOP = "at_eof(*{P}) || {P}.fuel == 0 || !pratt_continues(next_kind(*{P}), min_bp)"
TYPE_STOP = "at_eof(*{P}) || {P}.fuel == 0 || !type_continues(next_kind(*{P}), min_bp)"
PRATT_ENS = {"expr_bp": "r is Some ==> (" + PRATT_STOP.replace("{P}", "final(p)") + "),",
             "type_expr_bp": "r is Some ==> (" + TYPE_STOP.replace("{P}", "final(p)") + "),"}
PRATT_LOOP_ENS = {
    ("expr_bp", 0): PRATT_STOP.replace("{P}", "p") + ",",
    ("type_expr_bp", 0): TYPE_STOP.replace("{P}", "p") + ",",
}
EXTRA_REQ = {
    "file": "old(p).events@.len() == 0",
}
LOOP_DROP = set()
LOOP_EXTRA = {
    ("parse_path_inner", 0): " marker matches Some(mm) ==> marker_ok_o(p.events@, mm.index),",
    ("type_expr_bp", 0): " marker_ok(p.events@, lhs.index), mu(*p) < mu(*old(p)),",
    ("expr_bp", 0): " marker_ok(p.events@, lhs.index), mu(*p) < mu(*old(p)),",
    ("attribute_body", 0): " depth as int <= p.input.cursor as int + 1,",
    ("impl_has_trait", 0): " idx as int + p.fuel as int <= 260,",
}
SKIPB = ("proof { reveal(Parser::wf); assert forall|c: int| 0 <= c <= p.input.tokens@.len() implies c <= #[trigger] skip_trivia(p.input.tokens@, c) "
         "by { lemma_skip_trivia_bounds(p.input.tokens@, c); } }")
GHOST = {
    "file": [("p.close(m, MySyntaxKind::FILE)", "line-before", "let ghost eb = p.events@; proof { reveal(Parser::wf); }"),
             ("p.close(m, MySyntaxKind::FILE)", "line-after", "proof { lemma_file_balanced(eb, p.events@); }")],
    "attribute_body": [("@loop:0:body", "", SKIPB)],
    "impl_has_trait": [("@entry", "", "proof { reveal(Parser::wf); }")],
    "type_atom": [("@entry", "", "let ghost p0 = *p;"),
                  ("p.events.pop()", "line-before", "let ghost s2 = *p;"),
                  ("p.events.pop()", "line-after", "proof { lemma_pop_open(p0, s2, *p); }")],
}

# C11 guard assertions, attached to the ACTUAL argument of the recursive call (regex site rewrites, optional: a call written
# differently simply loses its guard): an operator is consumed only if it binds at least as tightly as min_bp, and its right
# operand is parsed with exactly that operator's right binding power (prefix operand: the prefix operator's power).
# The argument expression is evaluated once into __rb and passed on unchanged.
def _guard(asserts):
    return r"\1{ let __rb: u8 = \2; proof { " + asserts + r" } __rb }\3"


PRATT_REWRITES = {
    "expr_bp": [
        (re.compile(r'(expect_expr_bp_with_message\(\s*p,\s*)([^,]+?)(,\s*"expected a right-hand side)'),
         _guard("assert(pratt_continues(op, min_bp)); assert(infix_binding_power_spec(op) is Some && (infix_binding_power_spec(op)->0).1 == __rb);"), "*"),
        (re.compile(r'(expect_expr_bp_with_message\(\s*p,\s*)([^,]+?)(,\s*"expected an operand)'),
         _guard("assert(prefix_binding_power_spec(next_kind(*old(p))) == Some(__rb));"), "*"),
    ],
    "type_expr_bp": [
        (re.compile(r'(if type_expr_bp\(\s*p,\s*)([^)]+?)(\)\.is_none\(\))'),
         _guard("assert(type_continues(op, min_bp)); assert(type_infix_binding_power_spec(op) is Some && (type_infix_binding_power_spec(op)->0).1 == __rb);"), "*"),
    ],
}
PRATT_GHOST = {
    "expr_bp": [("?lhs = m.completed(p, MySyntaxKind::EXPR_CALL)", "line-before", "assert(pratt_continues(op, min_bp));")],
}

GRAMMAR_LEMMAS = Raw(text="""
pub proof fn lemma_mu_nonneg(p: Parser)
    requires p.wf(),
    ensures mu(p) >= 0, !at_eof(p) ==> nt_left(p) >= 1 && mu(p) >= 258, at_eof(p) ==> mu(p) == 0,
{
    reveal(Parser::wf); reveal(at_eof); reveal(mu);
    lemma_skip_trivia_bounds(p.input.tokens@, p.input.cursor as int);
    lemma_nontrivia_suffix(p.input.tokens@, p.input.cursor as int);
}

// undoing a just-opened marker: `let m = p.open(); .. look-ahead only ..; p.events.pop()`
pub proof fn lemma_pop_open(p0: Parser, s2: Parser, q: Parser)
    requires p0.wf(), s2.wf(), s2.events@ == p0.events@.push(Event::Open { kind: MySyntaxKind::TombStone, forward_parent: None }),
        q.events@ == s2.events@.drop_last(), q.input == s2.input, q.fuel == s2.fuel, q.diagnostics == s2.diagnostics,
        q.filename == s2.filename, q.stuck_reported == s2.stuck_reported,
    ensures q.wf(), q.events@ == p0.events@, events_extend(p0.events@, q.events@, -1), mu(q) == mu(s2), at_eof(q) == at_eof(s2),
        stalled(q) == stalled(s2),
{
    reveal(Parser::wf); reveal(mu); reveal(at_eof);
    assert(q.events@ =~= p0.events@);
    lemma_count_adv_push(p0.events@, Event::Open { kind: MySyntaxKind::TombStone, forward_parent: None });
}

// closing the marker at index 0 (the FILE node) over a stream whose prefix depths are all >= 0 and whose total is 0
// yields exactly one well-nested tree
pub proof fn lemma_file_balanced(eb: Seq<Event>, ea: Seq<Event>)
    requires pd_ok(eb), pd(eb, eb.len() as int) == 0, eb.len() >= 1, is_tomb(eb[0]),
        ea == eb.update(0, Event::Open { kind: MySyntaxKind::FILE, forward_parent: None }).push(Event::Close),
    ensures balanced(ea),
{
    lemma_pd_close(eb, 0, MySyntaxKind::FILE);
    assert forall|i: int| 1 <= i < ea.len() implies #[trigger] pd(ea, i) >= 1 by {
        assert(pd(eb, i) >= 0);
        assert(pd(ea, i) == pd(eb, i) + 1);
    }
}

// ---- C11: Pratt discipline ----
pub open spec fn pratt_continues(op: TokenKind, min_bp: u8) -> bool {
    match postfix_binding_power_spec(op) {
        Some((l, _)) => l >= min_bp,
        None => match infix_binding_power_spec(op) { Some((l, _)) => l >= min_bp, None => false },
    }
}
pub open spec fn type_continues(op: TokenKind, min_bp: u8) -> bool {
    match type_infix_binding_power_spec(op) { Some((l, _)) => l >= min_bp, None => false }
}

pub proof fn lemma_no_eof(s: Seq<TokenKind>)
    requires forall|i: int| 0 <= i < s.len() ==> !(#[trigger] s[i] is Eof),
    ensures !s.contains(TokenKind::Eof),
{
}
""")

UNIT = Unit(
    name="U-GRAMMAR",
    properties=["C04", "C12"],
    rules=CORE_RULES,
    describe=__doc__.split("\n\n")[0],
    trusted=[],
    items=TYPES + PCORE_FNS + [GRAMMAR_LEMMAS] + [Raw(text=lambda: "")],
)
MODE = "total"   # every assert!/debug_assert!/unreachable!() of the grammar functions is an obligation
UNIT.items = TYPES + PCORE_FNS + [GRAMMAR_LEMMAS] + build_items(MODE)
