"""U-SWITCH: the bool / string / enum arms of go::compile::compile_match_branches (fragments)."""
import re
from vlib.gen import Unit, Fn, Adt, Raw
from units.u_ceffect import UNIT as CEFF

G = "crates/compiler/src/go/compile.rs"
base = ([it for it in CEFF.items if isinstance(it, Adt) and it.name != "ClosureApplyFn"] + [Raw(path="contracts/ceffect.shim.rs")]
        + [it for it in CEFF.items if isinstance(it, Adt) and it.name == "ClosureApplyFn"])
COMMON_RW = [(re.compile(r"\bbuild_branch\("), "build_branch_stub(", "*"), (re.compile(r"\.clone\(\)"), ".vclone()", "*"),
             (re.compile(r"panic!\((?:[^()]|\([^()]*\))*\);?"), "{ proof { assume(false); } }", "*"),
             (re.compile(r"unreachable!\((?:[^()]|\([^()]*\))*\)"), "{ proof { assume(false); } unreached() }", "*"),
             ("let mut cases = Vec::new();", "let mut cases: Vec<(CASE_T, Block)> = Vec::new();"),
             (re.compile(r"\bimm_ty\("), "imm_ty2(", "*"), ("str_value.to_string()", "str_to_string(str_value)", "*"),
             (re.compile(r"vec!\[Stmt::(SwitchExpr|SwitchType) \{(.*?)\n\s*\}\]", re.S), r"vec_one_stmt(Stmt::\1 {\2\n            })", 1)]
PRE = [("for arm in arms {", "let mut __ai: usize = 0; while __ai < arms.len() { let arm = &arms[__ai]; __ai += 1;"),
       (re.compile(r"let default_block = default\.as_ref\(\)\.map\(\|d\| (?:goast::)?Block \{\s*stmts: build_branch\(\(\*\*d\)\.clone\(\)\),\s*\}\);"),
        "let default_block = match default { Some(d) => Some(Block { stmts: build_branch((**d).clone()) }), None => None };", 1)]
SIG = "fn {n}(goenv: &GlobalGoEnv, scrutinee: &ImmExpr, arms: &Vec<Arm>, default: &Option<Box<AExpr>>) -> Vec<Stmt>"


def arm(header, new, case_t, post, inv, obligation):
    rw = [(a, b.replace("CASE_T", case_t), *c) if isinstance(b, str) else (a, b, *c) for (a, b, *c) in COMMON_RW]
    return Fn(file=G, name="compile_match_branches", rename=new, ret="r", attrs="#[verifier::loop_isolation(false)]",
              rules=[("strip", "anf::"), ("strip", "goast::"), ("strip", "goty::"), ("strip", "tast::")],
              cut_from=header, cut_inside=True, cut_before="@block-end", cut_tail="", sig=SIG.format(n=new),
              pre_rewrites=PRE, rewrites=rw, obligation=obligation, contract="ensures " + post + ",",
              loop_fn=lambda k, h, kw: ("invariant __ai <= arms@.len(), cases@.len() == __ai,\n  forall|i: int| 0 <= i < __ai ==> " + inv + ",\ndecreases arms@.len() - __ai,"))


UNIT = Unit(
    name="U-SWITCH",
    properties=["C06"],
    rules=[("strip", "anf::"), ("strip", "goast::")],
    describe="go::compile::compile_match_branches, the bool / string / enum arms (fragments): the compiled match becomes ONE Go switch on the "
             "scrutinee with exactly one case per arm, in the arms' order — case i carries arm i's OWN literal (resp. the Go type of the "
             "variant arm i's tag names) and a lowering of arm i's OWN body — and the default block is a lowering of the default; the type "
             "switch binds the scrutinee's own name",
    trusted=["FRAGMENTS: the arms `Ty::TBool`, `Ty::TString`, `Ty::TEnum {..}` (plain and under TApp) of the outer match, and compile_int_match_branch (its "
             "`build_branch: &mut F` parameter is dropped from the signature); the per-width dispatch, the float helper and the unit arm are not covered",
             "`build_branch` (the caller's closure) is a stub: what it returns is SOME lowering of its argument (uninterpreted relation `lowers`); "
             "compile_imm, imm_ty, tast_ty_to_go_type, variant_ty_by_index are stubs with uninterpreted results",
             "PARTIAL: the panic!/unreachable! arms (ANF shape invariants: literal arms in literal matches, a variable scrutinee) are not claimed "
             "unreachable (assume(false), listed); `for arm in arms` is an index loop; `vec![x]` is a shim"],
    items=base + [
        Raw(path="contracts/switch.shim.rs"),
        Raw(text="#[verifier::external_body] pub fn vec_one_stmt(s: Stmt) -> (r: Vec<Stmt>) ensures r@ == seq![s] { unimplemented!() }   // vec![s]\n"),
        arm(re.compile(r"\n        tast::Ty::TBool => \{"), "match_bool", "Expr", "lit_switch_ok(r@, goenv, *scrutinee, arms@, *default, bool_case())",
            "bool_case()((#[trigger] cases@[i]).0, arms@[i].lhs) && lowers(cases@[i].1.stmts@, arms@[i].body)",
            "bool match: case i = arm i's boolean literal + a lowering of arm i's body; default from default"),
        arm(re.compile(r"\n        tast::Ty::TString => \{"), "match_string", "Expr", "lit_switch_ok(r@, goenv, *scrutinee, arms@, *default, string_case())",
            "string_case()((#[trigger] cases@[i]).0, arms@[i].lhs) && lowers(cases@[i].1.stmts@, arms@[i].body)",
            "string match: case i = arm i's string literal + a lowering of arm i's body; default from default"),
        arm(re.compile(r"\n        tast::Ty::TEnum \{ \.\. \} => \{"), "match_enum", "GoType", "enum_switch_ok(r@, goenv, *scrutinee, arms@, *default)",
            "((#[trigger] arms@[i]).lhs matches ImmExpr::ImmTag { index, ty } && cases@[i].0 == variant_go_ty(goenv, ty, index)) && lowers(cases@[i].1.stmts@, arms@[i].body)",
            "enum match: type switch binding the scrutinee; case i = Go type of the variant arm i's tag names + a lowering of arm i's body"),
        arm(re.compile(r"\n            tast::Ty::TEnum \{ \.\. \} => \{"), "match_enum_app", "GoType", "enum_switch_ok(r@, goenv, *scrutinee, arms@, *default)",
            "((#[trigger] arms@[i]).lhs matches ImmExpr::ImmTag { index, ty } && cases@[i].0 == variant_go_ty(goenv, ty, index)) && lowers(cases@[i].1.stmts@, arms@[i].body)",
            "generic enum match (TApp): the same type switch"),
        Fn(file=G, name="compile_int_match_branch", ret="r", attrs="#[verifier::loop_isolation(false)]",
           rules=[("strip", "anf::"), ("strip", "goast::"), ("strip", "goty::"), ("strip", "tast::")],
           pre_rewrites=PRE + [("fn compile_int_match_branch<F, E>(", "fn compile_int_match_branch<E>("), ("    build_branch: &mut F,\n", ""),
                               (re.compile(r"\n    F: FnMut\(anf::AExpr\) -> Vec<goast::Stmt>,"), "", 1), ("arms: &[anf::Arm]", "arms: &Vec<anf::Arm>")],
           rewrites=[(a_, b_.replace("CASE_T", "Expr"), *c_) if isinstance(b_, str) else (a_, b_, *c_) for (a_, b_, *c_) in COMMON_RW[:-1]]
                    + [(re.compile(r"vec!\[Stmt::SwitchExpr \{(.*?)\n    \}\]", re.S), r"vec_one_stmt(Stmt::SwitchExpr {\1\n    })", 1)],
           obligation="integer match (all widths): case i = the literal `extract` reads from arm i's own pattern + a lowering of arm i's body; default from default",
           contract="requires forall|p: &Prim| #[trigger] extract.requires((p,)),\n        ensures lit_switch_ok(r@, goenv, *scrutinee, arms@, *default, int_case(extract)),",
           loop_fn=lambda k, h, kw: ("invariant __ai <= arms@.len(), cases@.len() == __ai,\n  forall|i: int| 0 <= i < __ai ==> "
                                     "int_case(extract)((#[trigger] cases@[i]).0, arms@[i].lhs) && lowers(cases@[i].1.stmts@, arms@[i].body),\ndecreases arms@.len() - __ai,")),
    ],
)
