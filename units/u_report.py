"""U-REPORT: main.rs::report_compilation_error (whole) — C04: reporting an error never resolves a position against a text the position does not belong to."""
import re
from vlib.gen import Unit, Fn, Adt, Raw

M = "crates/compiler/src/main.rs"
SHIM = r'''
// ---- shims / specification for U-REPORT (C04: the CLI reports every compilation error as diagnostics; it never panics while doing so) ----
#[verifier::external_body] pub struct Path { _p: u64 }
#[verifier::external_body] pub struct Display { _p: u64 }
impl Path { #[verifier::external_body] pub fn display(&self) -> (r: Display) { unimplemented!() } }
#[verifier::external_body] pub struct Diagnostic { _p: u64 }
#[verifier::external_body] pub struct Diagnostics { _p: u64 }
// a diagnostic's range (if it has one) lies inside `text`, on character boundaries: what line_index::LineIndex::line_col needs — it PANICS otherwise ("invalid offset")
pub uninterp spec fn range_in(d: Diagnostic, text: Seq<char>) -> bool;
impl Diagnostics {
    pub uninterp spec fn items(&self) -> Seq<Diagnostic>;
    pub open spec fn ranges_in(&self, text: Seq<char>) -> bool { forall|i: int| 0 <= i < self.items().len() ==> range_in(#[trigger] self.items()[i], text) }
    // `diagnostics.iter()` collected: the diagnostics in order
    #[verifier::external_body] pub fn to_vec(&self) -> (r: Vec<Diagnostic>) ensures r@ == self.items() { unimplemented!() }
}
impl Diagnostic {
    #[verifier::external_body] pub fn message(&self) -> (r: String) { unimplemented!() }                                  // the message text alone: no position is resolved
    // parser::DiagnosticFormatExt::format_with_line_index: resolves the diagnostic's range to line:col — panics unless the range belongs to the indexed text
    #[verifier::external_body] pub fn format_with_line_index(&self, index: &LineIndex) -> (r: String) requires range_in(*self, index.text()) { unimplemented!() }
}
#[verifier::external_body] pub struct LineIndex { _p: u64 }
impl LineIndex {
    pub uninterp spec fn text(&self) -> Seq<char>;
    #[verifier::external_body] pub fn new(src: &str) -> (r: LineIndex) ensures r.text() == src@ { unimplemented!() }
}
// the three formatters resolve positions against the text they are given
#[verifier::external_body] pub fn format_parser_diagnostics(d: &Diagnostics, src: &str) -> (r: Vec<String>) requires d.ranges_in(src@) { unimplemented!() }
#[verifier::external_body] pub fn format_compile_diagnostics(d: &Diagnostics, src: &str) -> (r: Vec<String>) requires d.ranges_in(src@) { unimplemented!() }
#[verifier::external_body] pub fn format_typer_diagnostics(d: &Diagnostics) -> (r: Vec<String>) { unimplemented!() }          // messages only
pub enum CompilationError { Parser { diagnostics: Diagnostics }, Lower { diagnostics: Diagnostics }, Typer { diagnostics: Diagnostics }, Compile { diagnostics: Diagnostics } }
// `eprintln!(FORMAT, a, b)`: writes a line to stderr (cannot fail for the purposes of this unit)
#[verifier::external_body] pub fn eprint2<T>(a: Display, b: T) { unimplemented!() }
'''


def eprint(mt):
    """`eprintln!("..{}..{}", A, B);` -> `{ let __b = B; eprint2(A, __b); }` (the two arguments are evaluated as before; writing to stderr is the stub eprint2)"""
    args = mt.group(1)
    parts = [p.strip() for p in re.split(r",(?![^()]*\))", args) if p.strip()]
    a, b = parts[1], parts[2]
    return f"{{ let __b = {b}; eprint2({a}, __b); }}"


UNIT = Unit(
    name="U-REPORT",
    properties=["C04"],
    rules=["attrs"],
    describe="main.rs::report_compilation_error (what `goml run` prints when compilation fails): a position is resolved against the entry file's text only for the "
             "diagnostics that belong to it — parser and compile-stage errors (assumed to carry ranges of the entry text only: parse errors of other package files are "
             "resolved where they are raised, fix f1b1426); LOWER diagnostics may come from any file of the project, so for them no position may be resolved against the "
             "entry text (line_index panics on an offset that is not in the text) — the message alone is printed",
    trusted=["ASSUMED preconditions: the ranges of Parser / Compile diagnostics lie inside the entry text; nothing is assumed about Lower and Typer diagnostics",
             "line_index::LineIndex / parser::DiagnosticFormatExt / the three format_* functions are stubs whose PRECONDITION is the panic condition of "
             "LineIndex::line_col; `for d in diagnostics.iter()` walks `to_vec()`; `for error in format_*(..)` walks the returned Vec; `eprintln!` is the stub eprint2 "
             "(computed rewrite)"],
    items=[
        Raw(text=SHIM),
        Fn(file=M, name="report_compilation_error", attrs="#[verifier::loop_isolation(false)]",
           pre_rewrites=[(re.compile(r"eprintln!\(((?:[^;]|\n)*?)\);", re.S), eprint, "*"),
                         (re.compile(r"for (\w+) in (format_\w+\([^)]*\)) \{"), r"let __fv = \2; let mut __fi: usize = 0; while __fi < __fv.len() { let \1 = &__fv[__fi]; __fi += 1;", "*"),
                         (re.compile(r"for (\w+) in diagnostics\.iter\(\) \{"), r"let __dv = diagnostics.to_vec(); let mut __di: usize = 0; while __di < __dv.len() { let \1 = &__dv[__di]; __di += 1;", "*")],
           obligation="every call that resolves a position gets a diagnostic whose range belongs to the text it is resolved against (no panic while reporting)",
           contract="requires err matches CompilationError::Parser { diagnostics } ==> diagnostics.ranges_in(src@),\n"
                    "  err matches CompilationError::Compile { diagnostics } ==> diagnostics.ranges_in(src@),",
           loop_fn=lambda k, header, kw: ("invariant __fi <= __fv.len(),\ndecreases __fv.len() - __fi," if "__fi <" in header else
                                          ("invariant __di <= __dv.len(), __dv@ == diagnostics.items(),\ndecreases __dv.len() - __di," if "__di <" in header else None))),
    ],
)
