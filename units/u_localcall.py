"""U-LOCALCALL: Typer::infer_call_expr, the arm for a callee that is a local variable (fragment) — C03."""
import re
from units.common import arm_guard
from vlib.gen import Unit, Fn, Adt, Raw

C = "crates/compiler/src/typer/check.rs"
T = "crates/compiler/src/tast.rs"
R = "crates/compiler/src/typer/results.rs"
VC = (re.compile(r"\.clone\(\)"), ".vclone()", "*")
# every push is followed by the (ghost) observation that the pushed constraint is now recorded — the witness for the existential postcondition, wherever the push stands
PUSHED = (re.compile(r"self\.push_constraint\(((?:[^()]|\((?:[^()]|\([^()]*\))*\))*)\);"), r"{ let __pc = \1; let ghost __pg = __pc; self.push_constraint(__pc); proof { assert(self.recorded().contains(__pg)); } }", "*")


def loops(k, header, kw):
    mt = re.search(r"while\s+(__fk\d+)\s*<\s*args\.len\(\)", header)
    if not mt:
        return None
    i = mt.group(1)
    return (f"invariant {i} <= args.len(), args_tast@.len() == {i}, arg_types@.len() == {i},\n"
            f"  forall|j: int| 0 <= j < {i} ==> inferred(#[trigger] args@[j], args_tast@[j]),\n"
            f"  forall|j: int| 0 <= j < {i} ==> #[trigger] arg_types@[j] == expr_ty(args_tast@[j]),\n decreases args.len() - {i},")


def constr_loops(k, header, kw):
    mt = re.search(r"while\s+(__fk\d+)\s*<\s*args\.len\(\)", header)
    if mt:
        i = mt.group(1)
        return f"invariant {i} <= args.len(), args_tast@.len() == {i}, forall|j: int| 0 <= j < {i} ==> elaborated(#[trigger] args@[j], args_tast@[j]),\n decreases args.len() - {i},"
    mt = re.search(r"while\s+(__zk\d+)\s*<\s*args\.len\(\)\s*&&\s*__zk\d+\s*<\s*param_tys\.len\(\)", header)
    if mt:
        i = mt.group(1)
        return (f"invariant {i} <= args.len(), {i} <= param_tys.len(), args_tast@.len() == {i},\n"
                f"  forall|j: int| 0 <= j < {i} ==> elaborated(#[trigger] args@[j], args_tast@[j]),\n decreases args.len() - {i},")
    mt = re.search(r"while\s+__mi(\d+)\s*<\s*args_tast\.len\(\)", header)
    if mt:
        i = mt.group(1)
        return (f"invariant __mi{i} <= args_tast.len(), __mo{i}@.len() == __mi{i}, forall|j: int| 0 <= j < __mi{i} ==> #[trigger] __mo{i}@[j] == expr_ty(args_tast@[j]),\n"
                f" decreases args_tast.len() - __mi{i},")
    return None


def named_loops(k, header, kw):
    mt = re.search(r"while\s+(__fk\d+)\s*<\s*args\.len\(\)", header)
    if mt:
        i = mt.group(1)
        return (f"invariant {i} <= args.len(), args_tast@.len() == {i}, arg_types@.len() == {i},\n"
                f"  forall|j: int| 0 <= j < {i} ==> elaborated(#[trigger] args@[j], args_tast@[j]),\n"
                f"  forall|j: int| 0 <= j < {i} ==> #[trigger] arg_types@[j] == expr_ty(args_tast@[j]),\n decreases args.len() - {i},")
    mt = re.search(r"while\s+(__zk\d+)\s*<\s*args\.len\(\)\s*&&\s*__zk\d+\s*<\s*params\.len\(\)", header)
    if mt:
        i = mt.group(1)
        return (f"invariant {i} <= args.len(), {i} <= params.len(), args_tast@.len() == {i}, arg_types@.len() == {i},\n"
                f"  forall|j: int| 0 <= j < {i} ==> elaborated(#[trigger] args@[j], args_tast@[j]),\n"
                f"  forall|j: int| 0 <= j < {i} ==> #[trigger] arg_types@[j] == expr_ty(args_tast@[j]),\n decreases args.len() - {i},")
    return None


START = (r"let call_site_func_ty = tast::Ty::TFunc \{\s*params: arg_types,(?=\s*ret_ty: Box::new\(ret_ty\.clone\(\)\),\s*\};\s*self\.push_constraint\(Constraint::TypeEqual\(\s*inst_ty\.clone\(\))")
EXPR_START = (r"let call_site_func_ty = tast::Ty::TFunc \{\s*params: arg_types,(?=\s*ret_ty: Box::new\(ret_ty\.clone\(\)\),\s*\};\s*let func_tast = self\.infer_expr\()")


def named_tail(n, pat):
    return Fn(file=C, name="infer_call_expr", container="Typer", as_method_of="Typer", rename=f"call_named_tail_{n}", ret="r",
              cut_from=re.compile(pat, re.S), cut_before="@block-end", cut_tail="",
              sig=f"pub fn call_named_tail_{n}(&mut self, call_expr_id: ExprId, func: ExprId, args: &Vec<ExprId>, name: &String, inst_ty: Ty, arg_types: Vec<Ty>, args_tast: Vec<Expr>, "
                  "ret_ty: Ty, astptr: Option<MySyntaxNodePtr>) -> Expr",
              pre_rewrites=[(re.compile(r"self\.results\.record_"), "self.record_", "*"), ("args.to_vec()", "exprids_to_vec(args)", "*")],
              rewrites=[VC, PUSHED],
              obligation="a call by name: the callee's instantiated type is equated with (types of the elaborated arguments) -> (the call's type); the call carries these "
                         "arguments, that callee type and that result type",
              contract="ensures named_tail_ok(r, inst_ty, arg_types@, args_tast@, ret_ty, final(self).recorded()),")


UNIT = Unit(
    name="U-LOCALCALL",
    properties=["C03"],
    rules=["attrs", "fmtmsg", ("strip", "tast::"), ("strip", "hir::"), ("strip", "super::util::"), "for_index"],
    describe="Typer::infer_call_expr, callee is a local variable (a parameter, a let-bound closure ..) (fragment): every argument is elaborated once, in order; the callee's own type "
             "— as the local environment records it — is equated with `(types of the elaborated arguments) -> t`, and t is the type the call is given; so a call through a function "
             "value agrees with that value's type in arity, in every argument and in the result",
    trusted=["FRAGMENT call_local: the arm `ENameRef { res: NameRef::Local(name), .. }` of Typer::infer_call_expr; the other callee forms are dropped; FRAGMENTS call_named_tail_1 / _2: the statements from `let call_site_func_ty = ..` to the end of the block, at both "
             "places a call by name is typed (resolved name / single-segment unresolved path); what precedes them — lookup of the function, elaboration of the arguments, the result type (U-ARRSET) — is dropped",
             "Typer::infer_expr is a stub (inferred: SOME elaboration of the argument); the typer's constraint list is ghost state of the opaque Typer (push_constraint appends; "
             "fresh_ty_var, error_expr and the three record_* leave it alone); LocalTypeEnv::lookup_var, HirTable::local_ident_name, push_ice are stubs without contract",
             "that the solver rejects an unsatisfiable equation is the unifier's job (not under contract)"],
    items=[
        arm_guard("crates/compiler/src/typer/check.rs", "infer_call_expr", 'Typer', r"match func_expr \{",
                  ['hir::Expr::ENameRef', 'hir::Expr::ENameRef', 'hir::Expr::ENameRef', 'hir::Expr::EStaticMember', 'hir::Expr::EField', '_']),
        Adt(file=T, kw="enum", name="Ty", rules=["attrs"]),
        Adt(file=T, kw="struct", name="TastIdent", rules=["attrs"]),
        Adt(file="crates/common-defs/src/lib.rs", kw="enum", name="UnaryOp", rules=["attrs"]),
        Adt(file="crates/common-defs/src/lib.rs", kw="enum", name="BinaryOp", rules=["attrs"]),
        Adt(file=T, kw="enum", name="UnaryResolution", rules=["attrs"]),
        Adt(file=T, kw="enum", name="BinaryResolution", rules=["attrs"]),
        Adt(file=T, kw="enum", name="Expr", rules=["attrs", ("strip", "common_defs::")]),
        Adt(file=T, kw="struct", name="Arm", rules=["attrs"]),
        Adt(file=T, kw="enum", name="Pat", rules=["attrs"]),
        Adt(file="crates/compiler/src/env.rs", kw="enum", name="Constraint", rules=["attrs", ("strip", "tast::")]),
        Adt(file=R, kw="enum", name="NameRefElab", rules=["attrs", ("strip", "tast::"), ("strip", "hir::")]),
        Adt(file=R, kw="struct", name="CallElab", rules=["attrs", ("strip", "tast::"), ("strip", "hir::")]),
        Adt(file=R, kw="enum", name="CalleeElab", rules=["attrs", ("strip", "tast::"), ("strip", "hir::")]),
        Raw(path="contracts/localcall.shim.rs"),
        Fn(file=T, name="get_ty", container="Expr", ret="r", rewrites=[VC, PUSHED],
           contract="ensures r == expr_ty(*self),", obligation="get_ty returns the carried type"),
        Fn(file=C, name="infer_call_expr", container="Typer", as_method_of="Typer", rename="call_local", ret="r", attrs="#[verifier::loop_isolation(false)]",
           cut_from=re.compile(r"hir::Expr::ENameRef \{\s*res: hir::NameRef::Local\(name\),\s*astptr: func_astptr,\s*\.\.\s*\} => \{"), cut_inside=True, cut_before="@block-end", cut_tail="",
           sig="pub fn call_local(&mut self, genv: &PackageTypeEnv, local_env: &mut LocalTypeEnv, diagnostics: &mut Diagnostics, call_expr_id: ExprId, func: ExprId, args: &Vec<ExprId>, "
               "name: LocalId, func_astptr: Option<MySyntaxNodePtr>) -> Expr",
           pre_rewrites=[("self.hir_table.local_ident_name(name)", "self.local_ident_name(name)", "*"), (re.compile(r"self\.results\.record_"), "self.record_", "*"),
                         ("args.to_vec()", "exprids_to_vec(args)", "*"),
                         ("let mut args_tast = Vec::new();", "let mut args_tast: Vec<Expr> = Vec::new();", "*"), ("let mut arg_types = Vec::new();", "let mut arg_types: Vec<Ty> = Vec::new();", "*")],
           rewrites=[VC, PUSHED],
           obligation="the callee's type is equated with (argument types) -> (the call's type); arguments elaborated once, in order",
           contract="ensures local_call_ok(args@, r, final(self).recorded()),",
           loop_fn=loops),
        Fn(file=C, name="infer_call_expr", container="Typer", as_method_of="Typer", rename="call_named_args", ret="r", attrs="#[verifier::loop_isolation(false)]",
           rules=["attrs", "fmtmsg", ("strip", "tast::"), ("strip", "hir::"), ("strip", "super::util::"), "for_zip", "for_index", "let_chain_rev", "let_chain"],
           cut_from="let name = &hint;", cut_before='let ret_ty = if name.as_str() == "ref" && args_tast.len() == 1 {',
           cut_tail="        return Some((inst_ty, args_tast, arg_types));\n    }\n    None",
           sig="pub fn call_named_args(&mut self, genv: &PackageTypeEnv, local_env: &mut LocalTypeEnv, diagnostics: &mut Diagnostics, args: &Vec<ExprId>, hint: String) -> Option<(Ty, Vec<Expr>, Vec<Ty>)>",
           pre_rewrites=[("let mut args_tast = Vec::new();", "let mut args_tast: Vec<Expr> = Vec::new();", "*"), ("let mut arg_types = Vec::new();", "let mut arg_types: Vec<Ty> = Vec::new();", "*"),
                         ("!params.is_empty()", "params.len() > 0", "*")],
           rewrites=[VC, PUSHED],
           obligation="a call by name: when the callee's parameter list fits the call, every argument is checked against its parameter's type, in order; the callee's type is an instance of the declared scheme",
           contract="ensures named_args_ok(*genv, hint@, args@, r),",
           loop_fn=named_loops),
        Fn(file=C, name="infer_constructor_expr", container="Typer", as_method_of="Typer", rename="constr_args", ret="r", attrs="#[verifier::loop_isolation(false)]",
           rules=["attrs", "fmtmsg", ("strip", "tast::"), ("strip", "hir::"), ("strip", "common::"), ("strip", "super::util::"), "iter_map_collect", "for_zip", "for_index"],
           cut_from="let inst_constr_ty = self.inst_ty(&constr_ty);", cut_tail="",
           sig="pub fn constr_args(&mut self, genv: &PackageTypeEnv, local_env: &mut LocalTypeEnv, diagnostics: &mut Diagnostics, expr_id: ExprId, args: &Vec<ExprId>, "
               "constructor: Constructor, constr_ty: Ty) -> Expr",
           pre_rewrites=[("let mut args_tast = Vec::new();", "let mut args_tast: Vec<Expr> = Vec::new();", "*"), (re.compile(r"self\s*\.results\s*\.record_"), "self.record_", "*"),
                         (re.compile(r"!(\w+)\.is_empty\(\)"), r"(\1.len() > 0)", "*"), (re.compile(r"\b(\w+)\.is_empty\(\)"), r"(\1.len() == 0)", "*"),
                         ("_ => Vec::new(),", "_ => Vec::<Ty>::new(),", "*")],
           rewrites=[VC, PUSHED, (re.compile(r"params: \{ let mut (__mo\d+) = Vec::new\(\);"), r"params: { let mut \1: Vec<Ty> = Vec::new();", "*")],
           obligation="a constructor application: every argument is checked against the declared type of its field, in order; the instantiated constructor type is equated with "
                      "(types of the elaborated arguments) -> (the value's type)",
           contract="ensures constr_ok(constr_ty, args@, constructor, r, final(self).recorded()),",
           loop_fn=constr_loops),
        named_tail(1, START + r"(?=.*" + START + ")"),
        named_tail(2, START + r"(?!.*" + START + ")"),
        Fn(file=C, name="infer_call_expr", container="Typer", as_method_of="Typer", rename="call_expr_tail", ret="r",
           cut_from=re.compile(EXPR_START, re.S), cut_before="@block-end", cut_tail="",
           sig="pub fn call_expr_tail(&mut self, genv: &PackageTypeEnv, local_env: &mut LocalTypeEnv, diagnostics: &mut Diagnostics, call_expr_id: ExprId, func: ExprId, args: &Vec<ExprId>, "
               "arg_types: Vec<Ty>, args_tast: Vec<Expr>, ret_ty: Ty) -> Expr",
           pre_rewrites=[(re.compile(r"self\.results\.record_"), "self.record_", "*"), ("args.to_vec()", "exprids_to_vec(args)", "*")],
           rewrites=[VC, PUSHED],
           obligation="a call whose callee is an arbitrary expression: the type of the elaborated callee is equated with (types of the elaborated arguments) -> (the call's type)",
           contract="ensures r matches Expr::ECall { func: f, args: a, ty } && a@ == args_tast@ && ty == ret_ty && inferred(func, *f) "
                    "&& named_tail_ok(r, expr_ty(*f), arg_types@, args_tast@, ret_ty, final(self).recorded()),"),
    ],
)
