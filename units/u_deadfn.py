"""U-DEADFN: go::dce::{collect_called_in_expr, collect_called_in_stmt, collect_called_in_block, called_functions_in_fn} (whole) — C02."""
import re
from vlib.gen import Unit, Fn, Adt, Raw
from units.u_gopkgs import types, PAIR

G = "crates/compiler/src/go/"
RULES = [("strip", "ast::"), "for_index"]
VC = (re.compile(r"\.clone\(\)"), ".vclone()", "*")


def acc(place, i, body):
    if place.endswith("stmts"):
        return f"vars_ss({place}@, {i} as int)"
    if place == "fields":
        return f"vars_fs({place}@, {i} as int)"
    if place == "cases":
        return f"vars_cases({place}@, {i} as int)" if "collect_called_in_expr" in body else f"vars_tcases({place}@, {i} as int)"
    return f"vars_es({place}@, {i} as int)"


def loops(k, header, kw, body):
    mt = re.search(r"while\s+(__fk\d+)\s*<\s*([\w\.]+)\.len\(\)", header)
    if not mt:
        return None
    i, place = mt.group(1), mt.group(2)
    n = i[4:]
    return (f"invariant {i} <= {place}.len(), __u{n}.subset_of(calls@), {acc(place, i, body)}.intersect(fn_names@).subset_of(calls@),\n decreases {place}.len() - {i},")


def snap():
    n = [0]

    def f(mt):
        """a ghost snapshot `__uN` of the `calls` set in front of the N-th `for` loop (textual order) — proof-only"""
        k = n[0]
        n[0] += 1
        return f"let ghost __u{k} = calls@; " + mt.group(0)
    return f


FOR = re.compile(r"\bfor \w+ in &?[\w\.]+ \{")


def fn(name, used, dec):
    return Fn(file=G + "dce.rs", name=name, attrs="#[verifier::loop_isolation(false)]", rules=RULES, pre_rewrites=[PAIR, (FOR, snap(), "*")], rewrites=[VC],
              obligation="every function name used inside the visited code — in any child, nested blocks and switch clauses included — is recorded; nothing recorded is lost",
              contract=f"ensures calls_ok({used}, fn_names@, old(calls)@, final(calls)@),\n decreases {dec},",
              loop_fn=loops)


UNIT = Unit(
    name="U-DEADFN",
    properties=["C02"],
    rules=RULES,
    describe="go::dce::{collect_called_in_expr, collect_called_in_stmt, collect_called_in_block, called_functions_in_fn} (whole): the traversal that decides which emitted functions are "
             "reachable records EVERY function name that is used as a variable anywhere inside the visited code — callee, arguments, operands, literals, nested blocks, every clause "
             "and the default of both kinds of switch, loop bodies — so prune_dead_functions never removes a function the kept code still refers to (Go rejects an undefined name)",
    trusted=["std::collections::HashSet<String> is a shim over a mathematical set; derived Clone is an identical copy; `for (a, b) in v` is a loop over the pairs; "
             "the worklist of prune_dead_functions itself (that everything reachable from main is visited) is NOT part of this unit"],
    items=types + [
        Raw(path="contracts/deadfn.shim.rs"),
        fn("collect_called_in_expr", "vars_e(*expr)", "*expr"),
        fn("collect_called_in_stmt", "vars_s(*stmt)", "*stmt"),
        fn("collect_called_in_block", "vars_b(*block)", "*block"),
        Fn(file=G + "dce.rs", name="called_functions_in_fn", ret="r", rules=RULES, rewrites=[("let mut calls = HashSet::new();", "let mut calls: HashSet<String> = HashSet::<String>::new();", 1)],
           obligation="the functions a function refers to: every function name used in its body",
           contract="ensures vars_b(f.body).intersect(fn_names@).subset_of(r@),"),
    ],
)
