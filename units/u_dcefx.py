from vlib.gen import Unit, Fn, Adt, Raw

G = "crates/compiler/src/go/"
RW = [("goty::GoType", "GoType")]

def adt(f, kw, name, cnt=None):
    import re
    return Adt(file=G + f, kw=kw, name=name, rules=["attrs"], rewrites=[(re.compile(r"goty::GoType"), "GoType", cnt)] if cnt else [])

RULES = [("strip", "ast::"), "opt_map_or", "iter_any"]

def inv(k, v, pred):
    """loop contract for the k-th generated `any` loop over place `v`: no hit so far => no element so far may have an effect"""
    i, r = f"__i{k}", f"__r{k}"
    p = pred.format(x=f"{v}@[j]")
    p = p.replace(f"{v}@[j]", f"(#[trigger] {v}@[j])", 1)
    return (f"invariant {i} <= {v}.len(), !{r} ==> forall|j: int| 0 <= j < {i} ==> !({p}),\n decreases {v}.len() - {i},")

S = "stmt_may_effect({x})"
E = "expr_may_effect({x})"

UNIT = Unit(
    name="U-DCEFX",
    properties=["C09", "C10"],
    rules=RULES,
    describe="dce::{expr_has_side_effects, stmt_has_side_effects}: sound over-approximation of `may have an observable effect` "
             "(calls, go, stores, and operations that can fail at run time: integer division, indexing) for all Go ASTs; terminates",
    trusted=["rule iter_any expands std's Iterator::any on a slice iterator into an index loop with early exit (std semantics assumed)",
             "rule opt_map_or expands Option::as_ref().map(f).unwrap_or(d) into a match (std semantics assumed)"],
    items=[
        Adt(file=G + "goty.rs", kw="enum", name="GoType", rules=["attrs"]),
        Adt(file=G + "goast.rs", kw="enum", name="GoUnaryOp", rules=["attrs"]),
        Adt(file=G + "goast.rs", kw="enum", name="GoBinaryOp", rules=["attrs"]),
        Adt(file=G + "goast.rs", kw="struct", name="Block", rules=["attrs"]),
        Adt(file=G + "goast.rs", kw="enum", name="Expr", rules=["attrs", ("strip", "goty::")]),
        Adt(file=G + "goast.rs", kw="enum", name="Stmt", rules=["attrs", ("strip", "goty::")]),
        Raw(path="contracts/dce.spec.rs"),
        Fn(file=G + "dce.rs", name="expr_has_side_effects", ret="r", attrs="#[verifier::loop_isolation(false)]",
           obligation="expr_may_effect(e) ==> result (DCE never classifies a possibly failing or calling expression as pure)",
           contract="ensures expr_may_effect(*e) ==> r,\n decreases *e,",
           ghost=[("@entry", "", "proof { reveal_with_fuel(expr_may_effect, 2); reveal_with_fuel(stmts_may_effect, 2); }")],
           loops={0: inv(0, "stmts", S), 1: inv(1, "fields", "expr_may_effect({x}.1)"), 2: inv(2, "elems", E)}),
        Fn(file=G + "dce.rs", name="stmt_has_side_effects", ret="r", attrs="#[verifier::loop_isolation(false)]",
           obligation="stmt_may_effect(s) ==> result",
           contract="ensures stmt_may_effect(*s) ==> r,\n decreases *s,",
           loops={0: inv(0, "body.stmts", S), 1: inv(1, "then.stmts", S), 2: inv(2, "b.stmts", S),
                  3: inv(3, "cases", "expr_may_effect({x}.0) || stmts_may_effect({x}.1.stmts@)"), 4: inv(4, "b.stmts", S), 5: inv(5, "b.stmts", S),
                  6: inv(6, "cases", "stmts_may_effect({x}.1.stmts@)"), 7: inv(7, "b.stmts", S), 8: inv(8, "b.stmts", S)}),
    ],
)
