"""U-FIELDINST: typer::unify::{substitute_ty_params, instantiate_struct_field_ty} (whole functions) — C03."""
import re
from vlib.gen import Unit, Fn, Adt, Raw

U = "crates/compiler/src/typer/unify.rs"
T = "crates/compiler/src/tast.rs"


def map_loops(k, header, kw):
    mt = re.search(r"while\s+__mi(\d+)\s*<\s*(\w+)\.len\(\)", header)
    if not mt:
        return None
    i, c = mt.group(1), mt.group(2)
    return (f"invariant __mi{i} <= {c}.len(), __mo{i}@.len() == __mi{i},\n"
            f"  forall|j: int| 0 <= j < __mi{i} ==> is_apply(#[trigger] {c}@[j], subst@, __mo{i}@[j]),\n"
            f"decreases {c}.len() - __mi{i},")


def zip_loops(k, header, kw):
    if "__zk0 <" not in header:
        return None
    return ("invariant __zk0 <= struct_def.generics@.len(), __zk0 <= type_args@.len(), subst@ == zipmap(struct_def.generics@, type_args@, __zk0 as int),\n"
            "decreases struct_def.generics@.len() - __zk0,")


UNIT = Unit(
    name="U-FIELDINST",
    properties=["C03"],
    rules=["attrs", ("strip", "tast::")],
    describe="typer::unify::instantiate_struct_field_ty — the type the solver gives a field access `e.f` on a value of a generic struct — is the DECLARED type of the "
             "first field called f with every type parameter of the struct replaced, simultaneously (an argument is not substituted into again), by the "
             "corresponding type argument; a wrong number of type arguments is a diagnostic and no type. substitute_ty_params is that replacement at every "
             "depth (`is_apply`, the relation U-MSUBST proves for mono::subst_ty)",
    trusted=["HashMap<String, Ty> is the shim Subst (a finite map keyed by the key's text); `.iter().find(|(fname, _)| fname == field)` is the stub find_field (the "
             "first field of that name); push_error adds one error, the message text is dropped; derived Clone is an identical copy",
             "the `const COMPLETION_PLACEHOLDER: &str` item is inlined at its use (Verus has no &str constants); `type_args: &[Ty]` is a `&Vec<Ty>`",
             "that the solver calls this function for every field access, and decompose_struct_type, are not part of the unit"],
    items=[
        Adt(file=T, kw="enum", name="Ty", rules=["attrs"]),
        Adt(file=T, kw="struct", name="TastIdent", rules=["attrs"]),
        Raw(path="contracts/munify.shim.rs"),
        Raw(path="contracts/msubst.spec.rs"),
        Raw(path="contracts/fieldinst.shim.rs"),
        Fn(file=U, name="substitute_ty_params", ret="r", attrs="#[verifier::loop_isolation(false)]", rules=["attrs", ("strip", "tast::"), "iter_map_collect"],
           obligation="r is ty with the substitution applied once, at every depth (is_apply), for all types and substitutions",
           rewrites=[(re.compile(r"subst\s*\.get\(name\)\s*\.cloned\(\)\s*\.unwrap_or_else\(\|\| Ty::TParam \{ name: name\.clone\(\) \}\)"),
                      "(match subst.get(name) { Some(__v) => ty_clone(__v), None => Ty::TParam { name: string_clone(name) } })", 1),
                     ("&HashMap<String, Ty>", "&Subst", 1),
                     (re.compile(r"=> ty\.clone\(\),"), "=> ty_clone(ty),", "*"),
                     (re.compile(r"\b(name|trait_name): \1\.clone\(\)"), r"\1: string_clone(\1)", "*")],
           contract="ensures is_apply(*ty, subst@, r),\n        decreases *ty,",
           loop_fn=map_loops),
        Fn(file=U, name="instantiate_struct_field_ty", ret="r", attrs="#[verifier::loop_isolation(false)]", rules=["attrs", ("strip", "tast::"), "for_zip"],
           pre_rewrites=[(re.compile(r'const COMPLETION_PLACEHOLDER: &str = "completion_placeholder";\s*'), "", 1)],
           rewrites=[("struct_def: &crate::env::StructDef", "struct_def: &StructDef", 1), ("type_args: &[Ty]", "type_args: &Vec<Ty>", 1),
                     ("struct_def.fields.iter().find(|(fname, _)| fname == field)", "find_field(struct_def, field)", 1),
                     (re.compile(r"\bfield\.0 == COMPLETION_PLACEHOLDER"), 'ident_is(field, "completion_placeholder")', "*"),
                     (re.compile(r"super::util::push_error\(\s*diagnostics,\s*format!\([^;]*?\),\s*\);", re.S), "push_error_msg(diagnostics);", "*"),
                     ("let mut subst = HashMap::new();", "let mut subst = subst_new();", 1),
                     (re.compile(r"subst\.insert\((\w+)\.0\.clone\(\), (\w+)\.clone\(\)\);"), r"subst.insert(string_clone(&\1.0), ty_clone(\2));", 1)],
           obligation="with the right number of type arguments the access of a declared field gets the field's declared type with the struct's parameters replaced "
                      "simultaneously by the arguments; a wrong number of arguments is an error and no type",
           contract="ensures struct_def.generics@.len() != type_args@.len() ==> r is None && final(diagnostics).errors() > old(diagnostics).errors(),\n"
                    "  struct_def.generics@.len() == type_args@.len() && is_field(*struct_def, *field) ==> (r matches Some(t) && "
                    "is_apply(struct_def.fields@[first_field(*struct_def, *field, 0)].1, zipmap(struct_def.generics@, type_args@, type_args@.len() as int), t)),\n"
                    "  !is_field(*struct_def, *field) ==> final(diagnostics).errors() > old(diagnostics).errors(),",
           loop_fn=zip_loops),
    ],
)
