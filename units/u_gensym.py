"""U-GENSYM: env::Gensym::gensym — the names of compiler temporaries (C19). Its obligation FAILS on the pinned tree: a recorded known finding."""
import re
from vlib.gen import Unit, Fn, Adt, Raw

E = "crates/compiler/src/env.rs"

UNIT = Unit(
    name="U-GENSYM",
    properties=["C19"],
    rules=["attrs", ("cell", ["counter"])],
    describe="env::Gensym::gensym: the names of compiler temporaries (match temporaries x<n> / mtmp<n>, ANF temporaries t<n>, ret<n>, cond<n>, ..). C19 demands "
             "that no user-chosen name can collide with a compiler temporary, i.e. that a generated name is NOT something a goml program can write as an "
             "identifier. The function returns prefix + counter — `x1`, `t3` are ordinary goml identifiers — so this obligation FAILS on the pinned tree "
             "(KNOWN FINDING, witness replay/c19/gensym_capture.sh)",
    trusted=["`format!(\"{}{}\", prefix, current)` is the shim fmt_prefix_num (the prefix followed by at least one more character); the Cell counter is a "
             "plain field (rule cell: all users are single-threaded)"],
    items=[
        Adt(file=E, kw="struct", name="Gensym", rules=["attrs", "pubfields"], rewrites=[("counter: Cell<i32>", "counter: i32")]),
        Raw(path="contracts/gensym.shim.rs"),
        Fn(file=E, name="gensym", container="Gensym", ret="r",
           rewrites=[("&self", "&mut self"), ('format!("{}{}", prefix, current)', "fmt_prefix_num(prefix, current)")],
           obligation="a generated temporary's name is not a name a goml program can write — FAILS on the pinned tree (known finding)",
           contract="requires old(self).counter < i32::MAX,\n ensures !goml_ident(r@), final(self).counter == old(self).counter + 1,"),
    ],
)
