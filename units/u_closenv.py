"""U-CLOSENV: the part of lift::transform_closure that lays out a closure's environment (struct fields, constructor arguments) and
builds the apply function's prologue, as a fragment."""
import re
from vlib.gen import Unit, Fn, Adt, Raw

L = "crates/compiler/src/lift.rs"
VC = (re.compile(r"\.clone\(\)"), ".vclone()", "*")
FWD = (re.compile(r"for \(index, \(name, field_ty\)\) in captured\.iter\(\)\.enumerate\(\) \{"),
       "let __ce = captured.entries_vec(); let mut __ci: usize = 0; while __ci < __ce.len() { let index = __ci; let (name, field_ty) = __ce[__ci]; __ci += 1;", "*")
REV = (re.compile(r"for \(index, \(name, field_ty\)\) in captured\.iter\(\)\.enumerate\(\)\.rev\(\) \{"),
       "let __cr = captured.entries_vec(); let mut __cj: usize = __cr.len(); while __cj > 0 { __cj -= 1; let index = __cj; let (name, field_ty) = __cr[__cj];", "*")
CAP = "captured.seq()"


def loop_inv(k, header, kw, body):
    if re.search(r"while\s+__ci\s*<\s*__ce\.len\(\)", header):
        return (f"invariant __ci <= __ce.len(), __ce@.len() == {CAP}.len(), struct_fields@.len() == __ci, captured_args@.len() == __ci,\n"
                f"  forall|i: int| 0 <= i < __ci ==> (#[trigger] struct_fields@[i]).1 == {CAP}[i].1 && struct_fields@[i].0.0@ == field_name_spec({CAP}[i].0@, i),\n"
                f"  forall|i: int| 0 <= i < __ci ==> ((#[trigger] captured_args@[i]) matches LiftExpr::EVar {{ name, ty }} && name@ == {CAP}[i].0@ && ty == {CAP}[i].1),\n"
                f"decreases __ce.len() - __ci,")
    if re.search(r"while\s+__cj\s*>\s*0", header):
        return (f"invariant __cj <= __cr.len(), __cr@.len() == {CAP}.len(),\n"
                f"  rebinds(fn_body, {CAP}, __cj as int, body, env_param_name@, env_ty, struct_name),\n"
                f"decreases __cj,")
    return None


UNIT = Unit(
    name="U-CLOSENV",
    properties=["C08"],
    rules=["attrs"],
    describe="lift::transform_closure, environment layout (fragment): field i of the closure's environment struct, argument i of the "
             "call that builds the environment, and the i-th `let x = env.<field i>` at the top of the apply function all belong to the "
             "i-th captured variable (same name, same type) — so inside the lifted function every captured variable denotes the value "
             "it had where the closure was created",
    trusted=["FRAGMENT: transform_closure before `let mut struct_fields = Vec::new();` (parameter scopes, body transformation, capture "
             "collection — the latter is U-CAPT) and after the apply body is built (registration of the function) are dropped",
             "the capture set's iteration order is its insertion order (IndexMap shim `entries_vec`); `for .. in captured.iter().enumerate()[.rev()]` "
             "are rewritten to index loops over that vector (std semantics of enumerate/rev assumed)",
             "make_field_name, gensym, inherent_method_fn_name, insert_struct, register_closure_type are stubs; derived Clone is an identical copy"],
    items=[
        Raw(text="// Ty etc. are opaque here\n"),
        Adt(file="crates/compiler/src/tast.rs", kw="struct", name="TastIdent", rules=["attrs"]),
        Adt(file="crates/compiler/src/common.rs", kw="struct", name="StructConstructor", rules=["attrs"]),
        Adt(file="crates/compiler/src/common.rs", kw="enum", name="Constructor", rules=["attrs"]),
        Adt(file="crates/compiler/src/env.rs", kw="struct", name="StructDef", rules=["attrs", ("strip", "tast::")]),
        Adt(file=L, kw="enum", name="LiftExpr", rules=["attrs", ("strip", "common_defs::")]),
        Adt(file=L, kw="struct", name="LiftArm", rules=["attrs"]),
        Raw(path="contracts/closenv.shim.rs"),
        Fn(file=L, name="transform_closure", rename="closure_env_parts", ret="r", attrs="#[verifier::loop_isolation(false)]",
           cut_from="let mut struct_fields = Vec::new();", cut_before="state.new_functions.push(LiftFn {", cut_tail="    (captured_args, fn_body, env_param_name)",
           sig="fn closure_env_parts(state: &mut State, captured: &IndexMap<String, Ty>, body: LiftExpr, struct_name: TastIdent, env_ty: Ty, "
               "lowered_params: Vec<(String, Ty)>) -> (Vec<LiftExpr>, LiftExpr, String)",
           obligation="struct field i, constructor argument i and the i-th rebinding of the apply function all belong to capture i",
           pre_rewrites=[REV, FWD, ("fn_params.extend(lowered_params.iter().cloned());", "extend_cloned(&mut fn_params, &lowered_params);")],
           rewrites=[VC, ("let mut struct_fields = Vec::new();", "let mut struct_fields: Vec<(TastIdent, Ty)> = Vec::new();"),
                     ("let mut captured_args = Vec::new();", "let mut captured_args: Vec<LiftExpr> = Vec::new();"),
                     (re.compile(r"let mut fn_params = Vec::with_capacity\([^;]*\);"), "let mut fn_params: Vec<(String, Ty)> = Vec::new();", 1)],
           contract=f"""ensures args_ok(r.0@, {CAP}),
            rebinds(r.1, {CAP}, 0, body, r.2@, env_ty, struct_name),
            fields_ok(final(state).liftenv.last_struct().fields@, {CAP}),""",
           loop_fn=loop_inv),
    ],
)
