from vlib.gen import Unit, Fn, Raw

UNIT = Unit(
    name="U-MLS",
    properties=["C04", "C12"],
    describe="lexer::lex_multiline_str: the hand-written scanner bumps logos by a byte count that is in range, "
             "on a char boundary, covers >= 2 lines; all loops terminate; no index/overflow failure",
    items=[
        Raw(path="contracts/mls.shim.rs"),
        Fn(file="crates/lexer/src/lib.rs", name="lex_multiline_str", ret="r",
           obligation="bump count in range and on a char boundary; None leaves the lexer untouched; termination",
           rewrites=[
               ("lex: &mut logos::Lexer<TokenKind>", "lex: &mut LogosLexer"),
               ("lex.remainder().as_bytes()", "lex.remainder_bytes()"),
           ],
           contract="""
    ensures
        r is None ==> final(lex).remainder() == old(lex).remainder(),
        r is Some ==> exists|c: int| mls_bump_ok(old(lex).remainder(), c)
            && #[trigger] final(lex).remainder() == old(lex).remainder().subrange(c, old(lex).remainder().len() as int),
""",
           ghost=[("let mut lines = 1usize;", "after", "let ghost nl: int = consumed as int - 1;")],
           loops={
               0: "invariant consumed <= bytes.len(), decreases bytes.len() - consumed,",
               1: """invariant_except_break
                       1 <= lines, lines <= consumed, bytes@.len() <= isize::MAX, bytes@[consumed - 1] == 10u8,
                       0 <= nl, nl + 1 <= consumed <= bytes.len(), bytes@[nl] == 10u8,
                       lines >= 2 ==> nl + 3 < consumed,
                   ensures
                       bytes@.len() <= isize::MAX,
                       lines >= 2 ==> mls_bump_ok(bytes@, consumed as int),
                   decreases bytes.len() - consumed,""",
               2: "invariant line_start <= idx <= bytes.len(), decreases bytes.len() - idx,",
               3: "invariant line_start + 2 <= idx <= bytes.len(), decreases bytes.len() - idx,",
           },
           ),
    ],
)
