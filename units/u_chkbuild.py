"""U-CHKBUILD: separate::{check_package, build_package} from type checking on (fragments) — C14, `check` and `build` emit the same interface."""
import copy, re
from vlib.gen import Unit, Fn, Adt, Raw
from units.u_art import UNIT as ART

S = "crates/compiler/src/pipeline/separate.rs"
art_types = [it for it in ART.items if isinstance(it, (Adt, Raw)) and getattr(it, "path", None) != "contracts/art.lemmas.rs"]
iface_new = copy.copy([it for it in ART.items if isinstance(it, Fn) and it.name == "new" and it.container == "InterfaceUnit"][0]); iface_new.contract_only = True
core_new = copy.copy([it for it in ART.items if isinstance(it, Fn) and it.name == "new" and it.container == "CoreUnit"][0]); core_new.contract_only = True

RW = [(re.compile(r"\bopts\.package\.clone\(\)"), "string_clone(package)", "*"), (re.compile(r"&opts\.package\b"), "package", "*"),
      ("drop(tast);", "drop_tast(tast);", "*"), ("BTreeMap::new()", "btreemap_new()", "*"),
      (re.compile(r"return Err\(CompilationError::Typer \{ diagnostics \}\);"), "return Err(typer_error(diagnostics));", "*")]
POST = ("ensures r is Ok ==> is_interface_of({U}, package@, files, deps_interfaces@, deps_envs@, dep_hashes),\n"
        "        tc_fails(package@, files, deps_interfaces@, deps_envs@) ==> r is Err,")

UNIT = Unit(
    name="U-CHKBUILD",
    properties=["C14"],
    rules=["attrs", "fmtmsg", "msg_to_string"],
    describe="separate::check_package and separate::build_package from the call of the type checker on (fragments): whenever either succeeds, the interface it returns (for "
             "build: the one embedded in the core unit) is the usable interface unit of THE SAME four things — the package name, what the type checker exports, its HIR "
             "interface, the dependency hashes recorded before — so `check` and `build` of the same sources against the same interface files emit the same interface "
             "(lemma_check_build_same_interface); neither succeeds when the type checker reports errors, and build does not succeed when Core generation reports "
             "errors (a package the whole-program driver rejects at that stage is not accepted by `build`)",
    trusted=["FRAGMENTS: the part in front (reading the sources, loading the dependencies' interfaces) is U-DEPREC's; in build_package the construction of the match compiler's environment (Gensym::new, GlobalTypeEnv::new, the apply_to calls) is the stub match_env; compile_match::compile_file is a stub whose errors are a deterministic uninterpreted function of that environment and the typed tree",
             "typecheck_single_package is a stub: a DETERMINISTIC uninterpreted function of its inputs (that is C13); InterfaceUnit::new / CoreUnit::new appear with the "
             "contracts U-ART proves (contract-only)",
             "NOT claimed: the rest of C14 — that separately built and linked packages behave like the whole program compiled at once"],
    items=art_types + [Raw(path="contracts/deprec.shim.rs"), Raw(path="contracts/chkbuild.shim.rs"), iface_new, core_new,
        Fn(file=S, name="check_package", rename="check_tail", ret="r", cut_from="let (tast, exports, hir_interface, diagnostics) =",
           sig="fn check_tail(package: &String, files: SourceFiles, deps_interfaces: StrMap<PackageInterface>, deps_envs: StrMap<GlobalTypeEnv>, dep_hashes: DepMap) -> Result<InterfaceUnit, CompilationError>",
           rewrites=RW, obligation="check: Ok only with THE interface of these inputs; never Ok when the type checker reports errors",
           contract=POST.replace("{U}", "r->Ok_0")),
        Fn(file=S, name="build_package", rename="build_tail", ret="r", cut_from="let (tast, exports, hir_interface, diagnostics) =",
           sig="fn build_tail(package: &String, files: SourceFiles, sources: Vec<String>, deps_interfaces: StrMap<PackageInterface>, deps_envs: StrMap<GlobalTypeEnv>, dep_hashes: DepMap, dep_units: Vec<InterfaceUnit>) -> Result<CoreUnit, CompilationError>",
           pre_rewrites=[(re.compile(r"let gensym = Gensym::new\(\);.*?interface\.exports\.apply_to\(&mut env\);", re.S),
                          "let (gensym, env) = match_env(&interface, &dep_units);", 1),
                         ("let mut compile_diagnostics = Diagnostics::new();", "let mut compile_diagnostics = compile_diagnostics_new();", 1),
                         ("crate::compile_match::compile_file(", "compile_file(", 1),
                         (re.compile(r"CompilationError::Compile \{\s*diagnostics: compile_diagnostics,?\s*\}"), "compile_stage_error(compile_diagnostics)", "*")],
           rewrites=RW, obligation="build: Ok only with a core unit whose embedded interface is THE interface of these inputs; never Ok when the type checker — or Core generation (the match compiler) — reports errors",
           contract=POST.replace("{U}", "r->Ok_0.interface") +
                    "\n        cm_fails(env_of(tc_exports(package@, files, deps_interfaces@, deps_envs@), dep_units@), tc_tast(package@, files, deps_interfaces@, deps_envs@)) ==> r is Err,"),
    ],
)
