"""U-GENPHASE: env::Gensym::gensym + the prefixes handed to it at build time vs. at link time (C19)."""
import os
import re
from vlib.gen import Unit, Fn, Adt, Raw

E = "crates/compiler/src/env.rs"
BUILD_FILES = ["crates/compiler/src/compile_match.rs"]          # runs in build_package; its temporaries are stored in the .core file
SKIP = ("crates/compiler/src/env.rs", "crates/compiler/src/tests")


def _scan():
    """every `gensym("literal")` call of the compiler, read from the tree under check on every run: (file, line, literal, phase)"""
    repo = os.environ.get("VERIF_REPO", "/repo")
    out, odd = [], []
    root = os.path.join(repo, "crates/compiler/src")
    for dp, _dn, fns in os.walk(root):
        for fn in sorted(fns):
            if not fn.endswith(".rs"):
                continue
            rel = os.path.relpath(os.path.join(dp, fn), repo)
            if rel.startswith(SKIP):
                continue
            txt = open(os.path.join(dp, fn)).read()
            for m in re.finditer(r"\bgensym\(\s*([^)]*?)\s*\)", txt):
                arg = m.group(1)
                line = txt.count("\n", 0, m.start()) + 1
                lit = re.fullmatch(r'"([^"\\]*)"', arg)
                if lit:
                    out.append((rel, line, lit.group(1), "build" if rel in BUILD_FILES else "link"))
                elif not re.search(r"fn\s+gensym\($", txt[max(0, m.start() - 12):m.start() + 7]):
                    odd.append((rel, line, arg))
    return out, odd


def _lemmas():
    sites, odd = _scan()
    build = sorted({s[2] for s in sites if s[3] == "build"})
    link = sorted({s[2] for s in sites if s[3] == "link"})
    txt = ["// generated from the gensym call sites of the tree under check:"]
    for s in sites:
        txt.append(f"//   {s[3]:5} {s[0]}:{s[1]}  gensym(\"{s[2]}\")")
    for o in odd:
        txt.append(f"//   UNSUPPORTED non-literal prefix {o[0]}:{o[1]}  gensym({o[2]})")
    if odd:
        # a computed prefix cannot be compared: the unit must not pass silently
        txt.append("pub proof fn lemma_prefix_not_literal() ensures false { }")
    ident = lambda s: re.sub(r"\W", "_", s)
    for b in build:
        for l in link:
            hints = [f'reveal_strlit("{b}");', f'reveal_strlit("{l}");']
            if b != l:
                if len(b) != len(l):
                    hints.append(f'assert("{b}"@.len() != "{l}"@.len());')
                else:
                    k = next(i for i in range(len(b)) if b[i] != l[i])
                    hints.append(f'assert("{b}"@[{k}] != "{l}"@[{k}]);')
            hints.append(f'lemma_phase_pair("{b}"@, "{l}"@);')
            txt.append(f"// build-time prefix \"{b}\" vs link-time prefix \"{l}\"\n"
                       f"pub proof fn lemma_prefix_{ident(b)}_vs_{ident(l)}()\n"
                       f"    ensures forall|s: Seq<char>| !(names_of(\"{b}\"@, s) && names_of(\"{l}\"@, s)),\n"
                       f"{{ {' '.join(hints)} }}")
    return "\n".join(txt) + "\n"


UNIT = Unit(
    name="U-GENPHASE",
    properties=["C19", "C14"],
    rules=["attrs", ("cell", ["counter"])],
    describe="env::Gensym::gensym returns its prefix followed by the decimal counter; and for every prefix the match compiler hands to it (build time: the "
             "temporaries stored in a .core file) and every prefix a later pass hands to it (lifting, ANF, Go back end: link time, with a FRESH counter) "
             "no name can come out of both — the two prefixes differ and neither ends in a digit, so the counters cannot make up for the difference. "
             "One lemma per pair of prefixes, generated from the gensym call sites of the tree under check",
    trusted=["the call sites are found by scanning crates/compiler/src for `gensym(\"literal\")` on every run (listed in the generated file); a call with a "
             "computed prefix makes the unit fail (lemma_prefix_not_literal); which file runs in which phase is fixed here: compile_match.rs at build time, "
             "everything else at link time (pipeline/separate.rs: build_package / link_cores)",
             "`format!(\"{}{}\", prefix, n)` is the stub fmt_prefix_num: the prefix followed by decimal(n), digits only for n >= 0 (axiom_decimal); the Cell counter "
             "is a plain field (rule cell)",
             "NOT claimed here: freshness against USER names (U-GENSYM, known finding) and against the names of other generators (hint__idx renaming, closure "
             "environments)"],
    items=[
        Adt(file=E, kw="struct", name="Gensym", rules=["attrs", "pubfields"], rewrites=[("counter: Cell<i32>", "counter: i32")]),
        Raw(path="contracts/genphase.spec.rs"),
        Fn(file=E, name="gensym", container="Gensym", ret="r",
           rewrites=[("&self", "&mut self"), ('format!("{}{}", prefix, current)', "fmt_prefix_num(prefix, current)")],
           obligation="the name is the prefix followed by the decimal counter, and the counter moves on",
           contract="requires 0 <= old(self).counter < i32::MAX,\n ensures names_of(prefix@, r@), r@ == prefix@ + decimal(old(self).counter as int), final(self).counter == old(self).counter + 1,"),
        Raw(text=_lemmas, item="crates/compiler/src::gensym call sites (scanned)"),
    ],
)
