"""U-ANFMATCH: anf.rs — compile_match_arms_to_anf and lift_imm_to_anf_imm (whole functions); discharges the contract U-ANF assumes for the match arm."""
import re
from vlib.gen import Unit, Fn, Adt, Raw
from units.u_anf import UNIT as ANF, A, L, RULES, VC

base = [it for it in ANF.items if not (isinstance(it, Fn) and it.name in ("compile_match_arms_to_anf", "anf_imm", "anf_list", "anf"))]


def annot(s):
    # every continuation here is the identity `|c| AExpr::ACExpr { expr: c }`, or k called on the finished match
    from units.u_anf import closure_ensures, shape, chooser, sub_of, KT
    n = s.n
    if s.kind == "kcall":
        return {"after": ""}
    if s.kind == "closure" and s.callee == "anf" and shape(s) == "id":
        return {"types": ["CExpr"], "ensures": closure_ensures(s), "after": f"{chooser(s)} na_of_id({sub_of(s)}, __r{n}, pre_{n}, x_{n});"}
    return None


INV = """invariant anf_arms@.len() + __iv0@.len() == arms0.len(), __iv0@ == arms0.subrange(anf_arms@.len() as int, arms0.len() as int),
    forall|j: int| 0 <= j < arms0.len() ==> arm_lhs_pat(#[trigger] arms0[j].lhs),
    forall|j: int| 0 <= j < anf_arms@.len() ==> arm_lhs_ok(arms0[j].lhs, (#[trigger] anf_arms@[j]).lhs) && na(arms0[j].body, anf_arms@[j].body),
    forall|c: CExpr| k.requires((c,)),
 decreases __iv0@.len(),"""

UNIT = Unit(
    name="U-ANFMATCH",
    properties=["C09"],
    rules=RULES,
    describe="anf.rs, the match arm of A-normalisation (compile_match_arms_to_anf, lift_imm_to_anf_imm; whole functions): k is called once, on an EMatch over the "
             "given scrutinee whose arms are the source arms IN ORDER — pattern as the immediate it is, body normalised on its own inside the arm — and whose "
             "default is the normalised default; no arm is dropped, duplicated or evaluated outside the match. This is the contract U-ANF assumes for its EMatch arm.",
    trusted=["precondition (the match compiler's output invariant): every arm pattern is a variable, a literal or an enum constructor — otherwise the function panics; "
             "U-ANF uses the contract without this precondition",
             "anf is a stub carrying the contract proved in U-ANF",
             "`for arm in arms` is read as draining the vector from the front (rule consume_into); `default.map(closure)` as a match (rule opt_map)"],
    items=base + [
        Fn(file=A, name="anf", ret="r", contract_only=True, rules=RULES + [("cps", lambda s: {"after": ""} if s.kind != "closure" else {"types": ["CExpr"], "ensures": "true"})],
           contract="requires forall|c: CExpr| k.requires((c,)),\n ensures anf_post(e, k, r),"),
        Fn(file=A, name="lift_imm_to_anf_imm", ret="r", rules=RULES, rewrites=[VC, ("args.is_empty()", "args.len() == 0", "*"),
                                                                              (re.compile(r"_ => panic!\((?s:.*?)\),\n"), "_ => { assert(false); unreached() }\n", 1)],
           obligation="a pattern that is a variable / literal / nullary enum constructor becomes the immediate of the same name / value / constructor index",
           contract="requires arm_lhs_pat(lift_imm) && (lift_imm matches LiftExpr::EConstr { args, .. } ==> args@.len() == 0),\n ensures arm_lhs_ok(lift_imm, r),"),
        Fn(file=A, name="compile_match_arms_to_anf", ret="r", rules=RULES + [("consume_into", ["arms"]), "opt_map", ("cps", annot)], attrs="#[verifier::loop_isolation(false)]",
           rewrites=[VC, ("let mut anf_arms = Vec::new();", "let mut anf_arms: Vec<Arm> = Vec::new();", "*"), ("args.is_empty()", "args.len() == 0", "*"), (re.compile(r"_ => \{\s*panic!\((?s:.*?)\);\s*\}"), "_ => { assert(false); }", 1)],
           ghost=[("@entry", "", "let ghost arms0 = arms@;"),
                  ("@loop:0:body", "", "proof { assert(__iv0@[0] == arms0[anf_arms@.len() as int]); }"),
                  ("@after-loop:__iv0", "", "proof { narms_from_all(arms0, anf_arms@, 0); }")],
           loops={0: INV},
           obligation="k is called once on `match scrutinee { arms.. ; default }` whose arms / default are normal forms of the source arms, in order",
           contract="requires forall|c: CExpr| k.requires((c,)), forall|j: int| 0 <= j < arms@.len() ==> arm_lhs_pat(#[trigger] arms@[j].lhs),\n ensures match_post(scrutinee, arms@, default, body_ty, k, r),"),
    ],
)
