"""U-ENVNAME: lift::State::{fresh_struct_name, push_context_name, pop_context_name} (whole) and the per-function bracket of lift::lambda_lift (fragment) — C08."""
import re
from vlib.gen import Unit, Fn, Adt, Raw

L = "crates/compiler/src/lift.rs"
SHIM = r'''
// ---- shims / specification for U-ENVNAME (C08: every closure gets an environment struct — and with it an apply function — of its OWN) ----
pub struct TastIdent(pub String);
impl TastIdent { #[verifier::external_body] pub fn new(s: &String) -> (r: TastIdent) ensures r.0@ == s@ { unimplemented!() } }        // TastIdent::new(&name)
// lift::State: the counter behind the closure-environment names and the stack of naming contexts; the other fields play no part
pub struct State { pub next_id: usize, pub context_stack: Vec<String>, pub types: TypeNames }
// the names of the program's struct and enum definitions (`self.liftenv.get_struct(..)` / `get_enum(..)`): a set of texts
#[verifier::external_body] pub struct TypeNames { _p: u64 }
impl TypeNames {
    pub uninterp spec fn view(&self) -> Set<Seq<char>>;
    #[verifier::external_body] pub fn taken(&self, name: &TastIdent) -> (r: bool) ensures r == self@.contains(name.0@) { unimplemented!() }
}
// `self.next_id += 1`: ASSUMED not to overflow (fewer than 2^64 environment structs and skipped names)
#[verifier::external_body] pub fn next_ordinal(n: usize) -> (r: usize) ensures r == n + 1 { unimplemented!() }
// `format!("{}{}_{}", CLOSURE_ENV_PREFIX, hint, n)` / `format!("{}{}", CLOSURE_ENV_PREFIX, n)`: the name of the n-th environment struct
pub uninterp spec fn env_name(hint: Option<Seq<char>>, n: int) -> Seq<char>;
#[verifier::external_body] pub fn fmt_env_hint(hint: &str, n: usize) -> (r: String) ensures r@ == env_name(Some(hint@), n as int) { unimplemented!() }
#[verifier::external_body] pub fn fmt_env(n: usize) -> (r: String) ensures r@ == env_name(None, n as int) { unimplemented!() }
#[verifier::external_body] pub fn string_clone(a: &String) -> (r: String) ensures r@ == a@ { unimplemented!() }
// ASSUMED about the format: the ordinal can be read off the name (it is the decimal number after the last `_`), so two names with different ordinals differ
#[verifier::external_body]
pub proof fn axiom_env_name_ordinal(h1: Option<Seq<char>>, n1: int, h2: Option<Seq<char>>, n2: int)
    requires n1 >= 0, n2 >= 0, env_name(h1, n1) == env_name(h2, n2),
    ensures n1 == n2,
{ }
// C08 (lemma over the contract): two environment structs issued at different counter values have different names — whatever the hints, in particular
// for closures bound to the same `let` name in two functions, or for one generic function lifted at two types
pub proof fn lemma_env_names_differ(h1: Option<Seq<char>>, n1: int, h2: Option<Seq<char>>, n2: int)
    requires 0 <= n1 < n2,
    ensures env_name(h1, n1) != env_name(h2, n2),
{
    if env_name(h1, n1) == env_name(h2, n2) { axiom_env_name_ordinal(h1, n1, h2, n2); }
}
'''

UNIT = Unit(
    name="U-ENVNAME",
    properties=["C08", "C19"],
    rules=["attrs"],
    describe="lift::State::fresh_struct_name names a closure environment `closure_env_[<hint>_]<n>` for the first ordinal n at or after the counter that no struct / enum of the program is called, and moves the counter past it; nothing between two top-level "
             "functions moves it back (the bracket lambda_lift puts around every function body only pushes and pops the naming context) — so two closures never "
             "share an environment struct, its apply function or its registration, also when they are bound to the same `let` name in two functions or come from "
             "one generic function lifted at two types (lemma_env_names_differ)",
    trusted=["`format!(..)` with the prefix constant is the stub fmt_env_hint / fmt_env (an uninterpreted function of hint and ordinal); ASSUMED: the ordinal can be "
             "read off the name (axiom_env_name_ordinal); machine arithmetic: the counter does not overflow (stub next_ordinal); the program's type names are the shim TypeNames (get_struct / get_enum both `None`); termination of the skipping loop is not claimed (finitely many types)",
             "State is a shim with the two fields the functions touch (`liftenv: &mut`, `gensym`, `new_functions`, `closure_types` are left out)",
             "FRAGMENTS enter_fn_context / leave_fn_context: the two `if` statements around `transform_expr` in lambda_lift's loop; transform_expr itself (which calls "
             "fresh_struct_name) is not in this unit: that it never lowers the counter is not proved"],
    items=[
        Raw(text=SHIM),
        Fn(file=L, name="fresh_struct_name", container="State", ret="r", attrs="#[verifier::exec_allows_no_decreases_clause]",
           pre_rewrites=[(re.compile(r"self\.liftenv\.get_struct\(&(\w+)\)\.is_none\(\)\s*&&\s*self\.liftenv\.get_enum\(&\1\)\.is_none\(\)"), r"!self.types.taken(&\1)", "*"),
                         (re.compile(r"self\.next_id (?:\+= 1|= self\.next_id \+ 1);"), "self.next_id = next_ordinal(self.next_id);", "*")],
           rewrites=[('format!("{}{}_{}", CLOSURE_ENV_PREFIX, hint, self.next_id)', "fmt_env_hint(hint, self.next_id)", 1),
                     ('format!("{}{}", CLOSURE_ENV_PREFIX, self.next_id)', "fmt_env(self.next_id)", 1)],
           obligation="the name is the one of an ordinal at or after the current one that NO type of the program has, and the counter moves past it",
           contract="ensures final(self).next_id > old(self).next_id, final(self).context_stack@ == old(self).context_stack@, final(self).types@ == old(self).types@,\n"
                    "  r.0@ == env_name(match hint { Some(h) => Some(h@), None => None }, (final(self).next_id - 1) as int),\n"
                    "  !old(self).types@.contains(r.0@),      // C19: never the name of a struct / enum of the program",
           loop_fn=lambda k, header, kw: "invariant self.next_id >= old(self).next_id, self.context_stack@ == old(self).context_stack@, self.types@ == old(self).types@,"),
        Fn(file=L, name="push_context_name", container="State", contract="ensures final(self).next_id == old(self).next_id, final(self).context_stack@ == old(self).context_stack@.push(name),",
           obligation="entering a naming context leaves the counter alone"),
        Fn(file=L, name="pop_context_name", container="State", contract="ensures final(self).next_id == old(self).next_id,",
           obligation="leaving a naming context leaves the counter alone"),
        Fn(file=L, name="lambda_lift", rename="enter_fn_context",
           cut_from="if let Some(ctx) = fn_context.as_ref() {", cut_before="let body = transform_expr(&mut state, &mut scope, f.body);", cut_tail="",
           sig="fn enter_fn_context(state: &mut State, fn_context: &Option<String>)",
           rewrites=[("ctx.clone()", "string_clone(ctx)", "*")],
           obligation="starting a new top-level function does not move the environment counter back (or at all)",
           contract="ensures final(state).next_id == old(state).next_id,"),
        Fn(file=L, name="lambda_lift", rename="leave_fn_context",
           cut_from="if fn_context.is_some() {", cut_before="scope.pop_layer();", cut_tail="",
           sig="fn leave_fn_context(state: &mut State, fn_context: &Option<String>)",
           obligation="finishing a top-level function does not move the environment counter",
           contract="ensures final(state).next_id == old(state).next_id,"),
    ],
)
