"""U-DCELIVE: go::dce::dce_block_with_live, the liveness bookkeeping (whole function) — C02: no local variable is left declared, initialised and never read."""
import copy
import re
from vlib.gen import Unit, Fn, Adt, Raw
from units.u_dcefx import UNIT as DCEFX
from units.u_dceblk import PRE as PRE0, RW, kw_matches, has_eff, stmt_eff

G = "crates/compiler/src/go/"
types = [it for it in DCEFX.items if isinstance(it, (Adt, Raw))]
PRE = []
for p in PRE0:
    if isinstance(p[0], str) and p[0].startswith("for (val, blk) in cases {"):
        PRE.append((p[0], "let ghost __l0 = live@; " + p[1]) + tuple(p[2:]))
    elif isinstance(p[0], str) and p[0].startswith("for (t, blk) in cases {"):
        PRE.append((p[0], "let ghost __l0 = live@; " + p[1]) + tuple(p[2:]))
    else:
        PRE.append(p)
LIVE = "live@.subset_of(all_reads(out@).union(live_out@))"
NEEDS = "names_are_read(needs_decl@, out@, live_out@), assigned_are_read(out@, live_out@)"


def loop_inv(k, header, kw):
    if "__sv.len()" in header:
        return (f"invariant __sv@ == ins0.subrange(0, __sv@.len() as int), __sv@.len() <= ins0.len(), {LIVE}, decls_used(out@, live_out@), {NEEDS},\n"
                f"decreases __sv@.len(),")
    if "__cv.len()" in header:
        return ("invariant new_cases@.len() + __cv@.len() == __c0.len(), __cv@ == __c0.subrange(new_cases@.len() as int, __c0.len() as int), live@.subset_of(__l0.union(all_cases(new_cases@))), cases_live_in@.subset_of(__l0.union(all_cases(new_cases@))),\n"
                "  forall|n: Seq<char>| #[trigger] all_cnames(1, new_cases@).contains(n) && n != \"_\"@ ==> all_cases(new_cases@).union(__l0).contains(n),\n"
                "  forall|n: Seq<char>| #[trigger] needs_decl@.contains(n) && n != \"_\"@ ==> all_reads(out@).union(live_out@).union(all_cases(new_cases@)).contains(n),\n"
                "decreases __cv@.len(),")
    if re.search(r"while\s+__i\d+\s*<", header):      # an `X.iter().any(..)` (rule iter_any): its answer plays no part
        mt = re.search(r"while\s+(__i\d+)\s*<\s*([\w\.]+)\.len\(\)", header)
        return f"invariant {mt.group(1)} <= {mt.group(2)}.len(),\ndecreases {mt.group(2)}.len() - {mt.group(1)},"
    if "__tv.len()" in header:
        return ("invariant new_cases@.len() + __tv@.len() == __t0.len(), __tv@ == __t0.subrange(new_cases@.len() as int, __t0.len() as int), cases_live_in@.subset_of(live@.union(all_tcases(new_cases@))),\n"
                "  forall|n: Seq<char>| #[trigger] all_tnames(1, new_cases@).contains(n) && n != \"_\"@ ==> all_tcases(new_cases@).union(live@).contains(n),\n"
                "  forall|n: Seq<char>| #[trigger] needs_decl@.contains(n) && n != \"_\"@ ==> all_reads(out@).union(live_out@).union(all_tcases(new_cases@)).contains(n),\n"
                "decreases __tv@.len(),")
    return None


def ASSIGNED_LOOPS(k, header, kw, body=None):
    if "__si <" in header:
        return "invariant __si <= b.stmts@.len(), s@ =~= seq_names(1, b.stmts@, __si as int),\ndecreases b.stmts@.len() - __si,"
    if "__ci <" in header:
        which = "cases_names" if k == 1 else "tcases_names"      # the first cases loop is SwitchExpr's (Expr, Block) list, the second SwitchType's (GoType, Block) list
        return (f"invariant __ci <= cases@.len(), s@ =~= __s0.union({which}(1, cases@, __ci as int)), __si >= 1, __si <= b.stmts@.len(), *stmt == b.stmts@[__si - 1],\n"
                "decreases cases@.len() - __ci,")
    return None


UNIT = Unit(
    name="U-DCELIVE",
    properties=["C02"],
    rules=[("strip", "ast::"), "opt_map", "opt_filter", "let_chain_rev", "opt_is_some_and", "opt_is_none_or", "iter_any"],
    describe="go::dce::dce_block_with_live, the liveness bookkeeping behind `no local variable is left unused`: every name in the live set is READ by a statement "
             "that was kept (at any depth) or is live on exit of the block — so every declaration that is kept (with its initialiser because its name is live; bare because "
             "a KEPT assignment needs it, and an assignment is kept only for a live variable) is read by a statement that follows it; the live-in set handed back to "
             "the enclosing block obeys the same rule, and so do the variables the block assigns. A change that marks a "
             "variable live for a statement it then drops (seed C02-effect-free-if-dropped) breaks the invariant",
    trusted=["vars_used_in_expr / add_uses_expr are stubs over the uninterpreted function expr_reads (WHICH variables an expression reads is not verified here); "
             "dce_expr is a stub; HashSet<String> is a finite set of names (shim with insert / remove / extend / contains); effect_stmt and "
             "expr_has_side_effects appear with contracts proved here / in U-DCEFX",
             "dce::assigned_vars_in_block is verified (whole function): exactly the variables a block assigns with `=`, at any depth",
             "NOT covered: shadowing (names are unique after renaming: assumed); that Go counts exactly these reads as uses; the blank identifier `_` is exempt",
             "`for s in v.into_iter().rev()` is rewritten to popping from the back, `for x in v` (by value) to removing from the front, `v.reverse()` to a shim "
             "(std semantics assumed)"],
    items=types + [
        Raw(path="contracts/dcelive.spec.rs"),
        has_eff,
        stmt_eff,
        Fn(file=G + "dce.rs", name="call_allowed_as_stmt", optional=True, contract_only=True, contract="",
           pre_rewrites=[(re.compile(r"matches!\(\s*(\w+)\.as_str\(\),\s*((?:\"[^\"]*\"\s*\|?\s*)+)\)", re.S), kw_matches, 1)]),
        Fn(file=G + "dce.rs", name="assigned_vars_in_block", ret="r", attrs="#[verifier::loop_isolation(false)]",
           pre_rewrites=[("for stmt in &b.stmts {", "let mut __si: usize = 0; while __si < b.stmts.len() { let stmt = &b.stmts[__si]; __si += 1;", 1),
                         (re.compile(r"for \((_e|_t), blk\) in cases \{"), "let ghost __s0 = s@; let mut __ci: usize = 0; while __ci < cases.len() { let blk = &cases[__ci].1; __ci += 1;", "*")],
           rewrites=[(re.compile(r"\.clone\(\)"), ".vclone()", "*"), ("let mut s = HashSet::new();", "let mut s: HashSet<String> = HashSet::new();", 1)],
           obligation="the set is exactly the variables the block assigns with `=`, at any depth (all_assigned)",
           contract="ensures r@ == all_assigned(b.stmts@),\n        decreases *b,",
           ghost=[("@loop:0:body", "", "proof { assert(seq_names(1, b.stmts@, __si + 1) == seq_names(1, b.stmts@, __si as int).union(stmt_names(1, b.stmts@[__si as int]))); }")],
           loop_fn=ASSIGNED_LOOPS),
        Fn(file=G + "dce.rs", name="effect_stmt", ret="r", rewrites=[('"_".to_string()', "underscore()")],
           contract="ensures stmt_reads(r) == expr_reads(v), !(r is VarDecl), stmt_names(1, r).subset_of(one(\"_\"@)),",
           obligation="the replacement statement reads exactly what v reads and declares nothing"),
        Fn(file=G + "dce.rs", name="dce_block_with_live", ret="r", attrs="#[verifier::loop_isolation(false)]\n#[verifier::rlimit(60)]",
           pre_rewrites=PRE, rewrites=RW,
           obligation="every name of the returned live-in set is read by a kept statement or live on exit; every kept declaration (with or without initialiser) is read by a "
                      "statement that follows it in the block, or live on exit; every variable a kept statement assigns is read by a kept statement or live on exit",
           contract="ensures r.1@.subset_of(all_reads(r.0.stmts@).union(live_out@)), decls_used(r.0.stmts@.reverse(), live_out@), assigned_are_read(r.0.stmts@, live_out@),\n        decreases block,",
           ghost=[("@entry", "", "let ghost ins0 = block.stmts@;"), ("@entry", "", "proof { broadcast use lemma_reads_push; broadcast use lemma_cases_push; broadcast use lemma_tcases_push; broadcast use lemma_decls_push; }"),
                  ("?vec_reverse(&mut out);", "line-before", "let ghost __o0 = out@;"),
                  ("?vec_reverse(&mut out);", "line-after", "proof { lemma_reads_reverse(0, __o0); lemma_reads_reverse(1, __o0); assert(__o0.reverse().reverse() =~= __o0); }")],
           loop_fn=loop_inv),
    ],
)
