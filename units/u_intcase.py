"""U-INTCASE: compile_match::compile_int_case (whole: the table width -> (extractor, constructor)) — C06, C10."""
import re
from vlib.gen import Unit, Fn, Adt, Raw

CM = "crates/compiler/src/compile_match.rs"
T = "crates/compiler/src/tast.rs"
ACC = [("as_int8", "Int8", "i8"), ("as_int16", "Int16", "i16"), ("as_int32", "Int32", "i32"), ("as_int64", "Int64", "i64"),
       ("as_uint8", "UInt8", "u8"), ("as_uint16", "UInt16", "u16"), ("as_uint32", "UInt32", "u32"), ("as_uint64", "UInt64", "u64")]


def named_fns():
    """the one-expression closures of the table as named functions (eta-equivalent): `|prim| prim.as_X()` is extract_as_X, `|value| Prim::V { value }` is make_V"""
    out = ["// the table's closures as named functions: same body\n"]
    for n, v, t in ACC:
        out.append(f"pub fn extract_{n}(prim: &Prim) -> (o: Option<{t}>) ensures o == (if let Prim::{v} {{ value }} = *prim {{ Some(value) }} else {{ None::<{t}> }}) {{ prim.{n}() }}\n")
        out.append(f"pub fn make_{v}(value: {t}) -> (o: Prim) ensures o == (Prim::{v} {{ value }}) {{ Prim::{v} {{ value }} }}\n")
    return "".join(out)


UNIT = Unit(
    name="U-INTCASE",
    properties=["C06", "C10"],
    rules=["attrs", ("strip", "tast::")],
    describe="compile_match::compile_int_case (whole): for each of the eight integer types the column is split with the literal type, the extractor and the literal constructor "
             "OF THAT WIDTH (an int8 column is never compared through int16 literals, a uint64 literal never rebuilt as int64); the fall-through `unreachable!` is unreachable "
             "for an integer literal type",
    trusted=["compile_int_case_impl is a stub whose PRECONDITION is what the property needs of the two functions it is given (extract: Some exactly for a literal of the column's "
             "width; to_prim: a literal of that width); its own loop and tail are fragments of U-ROWS",
             "the one-expression closures `|prim| prim.as_X()` / `|value| Prim::V { value }` are read as named functions with the same body (eta-equivalence; Verus knows nothing about "
             "the result of an unannotated closure); Prim's accessors carry the contract proved in U-GOLIT"],
    items=[
        Adt(file=T, kw="enum", name="Ty", rules=["attrs"]),
        Adt(file="crates/compiler/src/common.rs", kw="enum", name="Prim", rules=["attrs"]),
        Raw(text="#[verifier::external_body] pub struct TypeVar { _p: u32 }\n"),
        Raw(path="contracts/intcase.shim.rs"),
    ] + [Fn(file=T, name=n, container="Prim", ret="r", contract_only=True,
            contract=f"ensures r == (if let Prim::{v} {{ value }} = *self {{ Some(value) }} else {{ None::<{t}> }}),") for (n, v, t) in ACC] + [
        Raw(text=named_fns),
        Fn(file=CM, name="compile_int_case", ret="r", rules=["attrs", ("strip", "tast::")],
           rewrites=[("-> core::Expr", "-> CoreExpr", 1), (re.compile(r"\|prim\| prim\.(as_\w+)\(\)"), r"extract_\1", "*"), (re.compile(r"\|value\| Prim::(\w+) \{ value \}"), r"make_\1", "*"),
                     (re.compile(r"unreachable!\([^)]*\);"), "{ assert(false); unreached() }", "*")],
           obligation="width w: literal type, extractor and constructor of width w",
           contract="requires int_ty(literal_ty),\n ensures int_case_at(r, literal_ty),"),
    ],
)
