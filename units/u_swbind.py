"""U-SWBIND: the binding decision of the SwitchType arm of go::dce::dce_block_with_live (fragment) — C02."""
import re
from vlib.gen import Unit, Fn, Adt, Raw
from units.u_dcefx import UNIT as DCEFX
from units.u_dceblk import bind_filter

G = "crates/compiler/src/go/"
types = [it for it in DCEFX.items if isinstance(it, Adt)]

UNIT = Unit(
    name="U-SWBIND",
    properties=["C02"],
    rules=[("strip", "ast::"), "opt_is_some_and", "iter_any"],
    describe="go::dce::dce_block_with_live, SwitchType arm (fragment: the statement that decides about the binding): `switch x := e.(type)` keeps its binding "
             "exactly when some clause (or the default) uses x — Go rejects a type switch whose binding no clause uses, and the clauses' code needs it when one does",
    trusted=["FRAGMENT: one statement of one arm; the clause bodies (already DCE'd) and the live-in sets are its parameters",
             "free_vars_in_block is a stub: the set of variables a block uses without declaring them, an uninterpreted function of the block; Option::filter is "
             "rewritten to a match (std semantics); rules iter_any / opt_is_some_and"],
    items=types + [
        Raw(path="contracts/swbind.shim.rs"),
        Fn(file=G + "dce.rs", name="dce_block_with_live", rename="switch_bind", ret="r", attrs="#[verifier::loop_isolation(false)]",
           cut_from=re.compile(r"let bind = bind\.filter\(\|bname\| \{"), cut_before="add_uses_expr(&mut live, &expr);", cut_tail="    bind",
           sig="fn switch_bind(bind: Option<String>, new_cases: &Vec<(GoType, Block)>, default_b: &Option<Block>, cases_live_in: &HashSet<String>, default_live_in: &HashSet<String>) -> Option<String>",
           pre_rewrites=[(re.compile(r"let bind = bind\.filter\(\|bname\| \{(.*?)\n\s*\}\);", re.S), bind_filter, 1)],
           obligation="the binding is kept exactly when some clause uses it (and it is the same name)",
           contract="ensures bind is None ==> r is None,\n"
                    "        bind is Some ==> ((r is Some) == some_clause_uses(new_cases@, *default_b, bind->0@)) && (r is Some ==> r == bind),",
           loop_fn=lambda k, header, kw: (lambda mt: (f"invariant {mt.group(1)} <= new_cases.len(), !__r{mt.group(1)[3:]} ==> forall|j: int| 0 <= j < {mt.group(1)} ==> "
                                                      f"!free_vars((#[trigger] new_cases@[j]).1).contains(bname@),\n"
                                                      f"  __r{mt.group(1)[3:]} ==> exists|j: int| 0 <= j < new_cases.len() && free_vars((#[trigger] new_cases@[j]).1).contains(bname@),\n"
                                                      f"decreases new_cases.len() - {mt.group(1)},") if mt else None)(re.search(r"while\s+(__i\d+)\s*<", header))),
    ],
)
