"""U-TRAITLOOKUP: env::TraitEnv::{lookup_trait_method, get_trait_impl} (whole) — C17."""
import re
from vlib.gen import Unit, Fn, Adt, Raw

E = "crates/compiler/src/env.rs"
RW = [(re.compile(r"\.clone\(\)"), ".vclone()", "*")]

UNIT = Unit(
    name="U-TRAITLOOKUP",
    properties=["C17"],
    rules=["attrs", ("strip", "tast::"), "opt_and_then", "opt_map"],
    describe="env::TraitEnv::{lookup_trait_method, get_trait_impl} (whole): the signature of a trait's method is the one recorded under exactly (that trait's name, that method's "
             "name); the implementation a call is resolved to is the method of that name of the impl registered under exactly (that trait's name, that TYPE) — not of another "
             "trait, another type or another method — and there is none when any of the three is unknown. This is the `impl_of` U-OVERLOAD takes as uninterpreted",
    trusted=["IndexMap is a finite map (trait names and method names keyed by their text); `.and_then(..)` / `.map(..)` on an Option are read as matches (rules); derived Clone is an "
             "identical copy"],
    items=[
        Adt(file="crates/compiler/src/tast.rs", kw="enum", name="Ty", rules=["attrs"]),
        Raw(path="contracts/concrete.shim.rs"),
        Raw(path="contracts/traitlookup.shim.rs"),
        Fn(file=E, name="lookup_trait_method", container="TraitEnv", ret="r", rewrites=RW,
           obligation="the type recorded for (trait, method), None when either is unknown",
           contract="ensures r == trait_method_of(*self, trait_name.0@, method_name.0@),"),
        Fn(file=E, name="get_trait_impl", container="TraitEnv", ret="r", rewrites=RW,
           obligation="the type of the method of that name in the impl registered for exactly (trait, type); None when trait+type or method are unknown",
           contract="ensures r == impl_method_of(*self, trait_name.0@, *type_name, func_name.0@),"),
    ],
)
