"""U-OPTYPES: typer::unify::{numeric_ty, negation_operand_ty_ok, binary_operand_ty_ok} (whole) and the EBinary / EUnary arms of Typer::subst (fragments) — C03."""
import re
from vlib.gen import Unit, Fn, Adt, Raw

U = "crates/compiler/src/typer/unify.rs"
T = "crates/compiler/src/tast.rs"
SHIM = r'''
// ---- shims / specification for U-OPTYPES (C03: every operator agrees with the declared signatures — a builtin operator on a type it does not exist for is a type diagnostic) ----
#[verifier::external_body] pub struct TypeVar { _p: u32 }
pub struct Typer { pub _p: u64 }          // the fragments read nothing of it
pub enum BinaryOp { Add, Sub, Mul, Div, And, Or, Less, Greater, LessEq, GreaterEq, Eq, NotEq }          // common_defs::BinaryOp
pub enum UnaryOp { Neg, Not }                                                                            // common_defs::UnaryOp
impl Clone for BinaryOp { #[verifier::external_body] fn clone(&self) -> (r: Self) ensures r == *self { unimplemented!() } }
impl Copy for BinaryOp {}
impl Clone for UnaryOp { #[verifier::external_body] fn clone(&self) -> (r: Self) ensures r == *self { unimplemented!() } }
impl Copy for UnaryOp {}
pub open spec fn is_number(t: Ty) -> bool {
    t is TInt8 || t is TInt16 || t is TInt32 || t is TInt64 || t is TUint8 || t is TUint16 || t is TUint32 || t is TUint64 || t is TFloat32 || t is TFloat64
}
// C03: the Go operator the back end emits exists for operands of this type (numbers; strings for `+` and ordering; anything for `==`, `!=`; bool for `&&`, `||`: constrained by
// inference). A type parameter or an inference variable is NOT such a type — an unresolved variable is reported by the substitution itself.
pub open spec fn op_defined(op: BinaryOp, t: Ty) -> bool {
    match op {
        BinaryOp::Add => is_number(t) || t is TString,
        BinaryOp::Sub | BinaryOp::Mul | BinaryOp::Div => is_number(t),
        BinaryOp::Less | BinaryOp::Greater | BinaryOp::LessEq | BinaryOp::GreaterEq => is_number(t) || t is TString,
        _ => true,
    }
}
#[verifier::external_body] pub struct Diagnostics { _p: u64 }
impl Diagnostics { pub uninterp spec fn errors(&self) -> nat; }
#[verifier::external_body] pub fn push_error_msg(d: &mut Diagnostics) ensures final(d).errors() == old(d).errors() + 1 { unimplemented!() }          // super::util::push_error(diagnostics, format!(..))
// the typed expression after substitution: only its type is looked at here
#[verifier::external_body] pub struct TExpr { _p: u64 }
impl TExpr { pub uninterp spec fn ty(&self) -> Ty; #[verifier::external_body] pub fn get_ty(&self) -> (r: Ty) ensures r == self.ty() { unimplemented!() } }
'''
PUSH = (re.compile(r"super::util::push_error\(\s*diagnostics,\s*format!\((?:[^;]|\n)*?\),\s*\);", re.S), "push_error_msg(diagnostics);", "*")

UNIT = Unit(
    name="U-OPTYPES",
    properties=["C03"],
    rules=["attrs", ("strip", "tast::"), ("strip", "common_defs::")],
    describe="typer::unify, after inference: a builtin arithmetic / ordering operator or a numeric negation whose (substituted) operand type is not one the emitted Go "
             "operator exists for — a struct, an enum, a tuple, a function, a type parameter, unit, bool for ordering .. — leaves a type diagnostic; "
             "binary_operand_ty_ok / negation_operand_ty_ok decide exactly that (an unresolved inference variable aside, which the substitution reports itself)",
    trusted=["FRAGMENTS binary_operand_check / negation_operand_check: the `if` in the EBinary / EUnary arm of Typer::subst between the substitution of the operands and the "
             "construction of the result; `lhs.get_ty()` / `expr.get_ty()` on the boxed tast::Expr is the shim TExpr::get_ty; push_error adds one error (message dropped)",
             "that inference equates the two operands' types and the result type (infer_binary_expr) is not part of this unit (U-NUMARMS covers the operand checks of the arms)"],
    items=[
        Adt(file=T, kw="enum", name="Ty", rules=["attrs"]),
        Raw(text=SHIM),
        Fn(file=U, name="numeric_ty", ret="r", optional=True, obligation="true exactly for the ten number types", contract="ensures r == is_number(*ty),"),
        Fn(file=U, name="negation_operand_ty_ok", ret="r", optional=True, obligation="numbers and unresolved variables only", contract="ensures r == (is_number(*ty) || *ty is TVar),"),
        Fn(file=U, name="binary_operand_ty_ok", ret="r", optional=True, obligation="true exactly when the operator exists for the type, or the type is an unresolved variable",
           contract="ensures r == (op_defined(op, *ty) || *ty is TVar),"),
        Fn(file=U, name="subst", container="Typer", rename="binary_operand_check",
           cut_from="let rhs = Box::new(self.subst(diagnostics, *rhs));", pre_rewrites=[("let rhs = Box::new(self.subst(diagnostics, *rhs));", "", 1)], cut_before=re.compile(r"tast::Expr::EBinary \{\s*op,\s*lhs,\s*rhs,\s*ty: ty\.clone\(\),").pattern if False else "tast::Expr::EBinary {\n                    op,\n                    lhs,\n                    rhs,\n                    ty: ty.clone(),", cut_tail="",
           sig="fn binary_operand_check(diagnostics: &mut Diagnostics, op: BinaryOp, lhs: &TExpr)", rewrites=[PUSH],
           obligation="an operator that does not exist for its (resolved) operand type is an error diagnostic",
           contract="ensures !(op_defined(op, lhs.ty()) || lhs.ty() is TVar) ==> final(diagnostics).errors() > old(diagnostics).errors(), final(diagnostics).errors() >= old(diagnostics).errors(),"),
        Fn(file=U, name="subst", container="Typer", rename="negation_operand_check",
           cut_from=re.compile(r"let expr = Box::new\(self\.subst\(diagnostics, \*expr\)\);(?=\s*(?:if matches!\(op, common_defs::UnaryOp::Neg\)|tast::Expr::EUnary \{))"),
           pre_rewrites=[("let expr = Box::new(self.subst(diagnostics, *expr));", "", 1)], cut_before="tast::Expr::EUnary {\n                    op,\n                    expr,\n                    ty: ty.clone(),", cut_tail="",
           sig="fn negation_operand_check(diagnostics: &mut Diagnostics, op: UnaryOp, expr: &TExpr)",
           rewrites=[PUSH, (re.compile(r"matches!\(op, UnaryOp::Neg\)"), "(match op { UnaryOp::Neg => true, _ => false })", "*")],
           obligation="a numeric negation of a value that is not a number is an error diagnostic",
           contract="ensures (op is Neg && !(is_number(expr.ty()) || expr.ty() is TVar)) ==> final(diagnostics).errors() > old(diagnostics).errors(), final(diagnostics).errors() >= old(diagnostics).errors(),"),
    ],
)
