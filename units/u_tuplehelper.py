"""U-TUPLEHELPER: go::goast::go_type_name_for, the head of the tuple arm (fragment) — C19. Its obligation FAILS on the pinned tree: a recorded known finding."""
import re
from vlib.gen import Unit, Fn, Adt, Raw

GA = "crates/compiler/src/go/goast.rs"
SPEC = '''// ---- specification for U-TUPLEHELPER ----
#[verifier::external_body] pub struct Ty { _p: u64 }
// a text a goml program can write as the name of a struct / enum of its own (letters, digits, `_`, not starting with a digit): uninterpreted here, with the ONE fact the
// argument needs — a text that starts with the letters `Tuple` followed by decimal digits is such a name (ASSUMED: the lexer's identifier rule, U-LEX)
pub uninterp spec fn goml_type_name(s: Seq<char>) -> bool;
#[verifier::external_body] pub proof fn tuple_digits_is_a_name(n: int) requires n >= 0 ensures goml_type_name("Tuple"@ + dec(n)) { }
'''

UNIT = Unit(
    name="U-TUPLEHELPER",
    properties=["C19"],
    rules=["attrs", ("strip", "tast::"), "fmt_concat"],
    describe="go::goast::go_type_name_for, the head of the tuple arm (fragment): the Go struct that stands for a tuple type is named `Tuple<n>_<components>`. C19 demands that no "
             "user-chosen name can collide with a compiler-generated one, i.e. that this name is NOT something a goml program can call a type of its own — it is (`struct "
             "Tuple2_int32_int32 { .. }` is accepted and emitted next to the helper struct of `(int32, int32)`: the type is declared twice), so this obligation FAILS on the "
             "pinned tree (KNOWN FINDING, witness replay/c19/tuple_helper_user_type.sh)",
    trusted=["FRAGMENT tuple_name_head: the first statement of the arm (`let mut s = format!(\\\"Tuple{}\\\", typs.len());`), returned as it is; the components appended behind it "
             "cannot make the name un-writable either (they are joined with `_`)"],
    items=[
        Raw(path="contracts/fmt.shim.rs"),
        Raw(text=SPEC),
        Fn(file=GA, name="go_type_name_for", rename="tuple_name_head", ret="r",
           cut_from=re.compile(r"tast::Ty::TTuple \{ typs \} => \{"), cut_inside=True, cut_before="for t in typs {", cut_tail="s",
           sig="fn tuple_name_head(typs: &Vec<Ty>) -> String",
           obligation="the helper struct's name is not a name a goml program can give a type of its own — FAILS on the pinned tree (known finding)",
           contract="ensures !goml_type_name(r@),",
           ghost=[("@entry", "", "proof { tuple_digits_is_a_name(typs@.len() as int); }")]),
    ],
)
