"""U-GOTYPE: go::goast::tast_ty_to_go_type (whole) — C02, C10."""
import re
from vlib.gen import Unit, Fn, Adt, Raw

GA = "crates/compiler/src/go/goast.rs"


def loops(k, header, kw, body):
    mt = re.search(r"while (__(?:mi|ti)(\d*)) < (\w+)\.len\(\)", header)
    if not mt:
        return None
    i, recv = mt.group(1), mt.group(3)
    o = "__to" if i == "__ti" else f"__mo{mt.group(2)}"
    if i == "__ti":
        el = f"(#[trigger] {o}@[j]).0@ == pos_field(j) && go_ty_ok({recv}@[j], {o}@[j].1)"
    else:
        el = f"go_ty_ok({recv}@[j], #[trigger] {o}@[j])"
    return (f"invariant {i} <= {recv}.len(), {o}@.len() == {i}, forall|j: int| 0 <= j < {recv}@.len() ==> go_ready(#[trigger] {recv}@[j]),\n"
            f"  forall|j: int| 0 <= j < {i} ==> {el},\n decreases {recv}.len() - {i},")


UNIT = Unit(
    name="U-GOTYPE",
    properties=["C02", "C10"],
    rules=["attrs", ("strip", "tast::"), ("strip", "goty::"), "iter_map_collect", "box_as_ref"],
    describe="go::goast::tast_ty_to_go_type (whole, recursive): the Go type every goml type is emitted at — a numeric type is the Go type of the same width and signedness (int8 is "
             "never int16, uint64 never int64), bool / string / unit likewise; an array keeps its length, a Vec is a slice, a Ref a pointer to its cell struct, a function type keeps "
             "its parameters in order and its result, a tuple is the struct of its components under the positional field names; the two panics are unreachable for a type "
             "without inference variables and generic applications",
    trusted=["precondition go_ready: no inference variable and no generic application anywhere in the type (what C03 / C07 establish before the back end)",
             "go_ident, go_type_name_for, dyn_struct_name, ref_struct_name are stubs (uninterpreted names); `format!(\"_{}\", i)` is the stub fmt_pos_field (the positional field name of "
             "U-POSFIELDS); `iter().enumerate().map(..).collect()` and `iter().map(f).collect()` are push loops"],
    items=[
        Adt(file="crates/compiler/src/tast.rs", kw="enum", name="Ty", rules=["attrs"]),
        Adt(file="crates/compiler/src/go/goty.rs", kw="enum", name="GoType", rules=["attrs"]),
        Raw(path="contracts/gotype.shim.rs"),
        Raw(path="contracts/box.shim.rs"),
        Fn(file=GA, name="tast_ty_to_go_type", ret="r", attrs="#[verifier::loop_isolation(false)]",
           pre_rewrites=[(re.compile(r"(\w+)\s*\.iter\(\)\s*\.enumerate\(\)\s*\.map\(\|\((\w+), (\w+)\)\| \(format!\(\"_\{\}\", \2\), tast_ty_to_go_type\(\3\)\)\)\s*\.collect\(\)"),
                          r"{ let mut __to: Vec<(String, GoType)> = Vec::new(); let mut __ti: usize = 0; while __ti < \1.len() { let \3 = &\1[__ti]; let \2 = __ti; let __e = (fmt_pos_field(\2), tast_ty_to_go_type(\3)); __to.push(__e); __ti += 1; } __to }", "*"),
                         (re.compile(r"(\w+)\.iter\(\)\.map\(tast_ty_to_go_type\)\.collect\(\)"), r"\1.iter().map(|p| tast_ty_to_go_type(p)).collect()", "*")],
           rewrites=[(re.compile(r"panic!\([^;]*?\)(?=\s*\n\s*\})", re.S), "{ assert(false); unreached() }", "*"),
                     (re.compile(r"unreachable!\((?:[^()]|\([^()]*\))*\);", re.S), "{ assert(false); unreached::<()>() };", "*"),
                     (re.compile(r"\b(\w+)\.clone\(\)"), r"string_clone(\1)", "*"), ("!args.is_empty()", "args.len() != 0", "*"), ("args.is_empty()", "args.len() == 0", "*"),
                     (re.compile(r"let mut (__mo\d+) = Vec::new\(\);"), r"let mut \1: Vec<GoType> = Vec::new();", "*")],
           ghost=[("@entry", "", "proof { match ty { Ty::TTuple { typs } => { all_ready_at(typs@); } Ty::TFunc { params, .. } => { all_ready_at(params@); } _ => {} } }")],
           loop_fn=loops,
           obligation="the Go type of the goml type: widths and signedness kept, structure kept",
           contract="requires go_ready(*ty),\n ensures go_ty_ok(*ty, r),\n decreases *ty,"),
    ],
)
