"""U-BRANCHVAR: compile_match::branch_variable under C13 — the same function item U-ROWS verifies for C06, on its own."""
from vlib.gen import Unit, Fn
from units.u_rows import UNIT as ROWS

items = [it for it in ROWS.items if not isinstance(it, Fn) or it.name == "branch_variable"]

UNIT = Unit(
    name="U-BRANCHVAR",
    properties=["C13"],
    rules=ROWS.rules,
    describe="compile_match::branch_variable (whole): which column the decision tree branches on — and with it the shape of the emitted switch nest — is chosen by a scan over the "
             "FIRST ROW's columns, a Vec walked in order, ties broken by position; the occurrence counts are only looked up by key, never iterated. A version that picks the "
             "variable by iterating a hash map of counts has no extraction (a hash-ordered walk is outside the subset) and is UNDECIDED, never green",
    trusted=ROWS.trusted + ["`C.iter().map(..).max_by_key(|v| counts[v]).unwrap()` is read with std's semantics (the LAST element with the greatest key); the counting map is the shim "
                            "CountMap (bump / get_count by key)",
                            "determinism is not itself stated (a two-run property): the unit pins that the choice is a positional scan of a Vec; the postcondition is U-ROWS' "
                            "(a variable the first row tests, at a type some row tests it at)"],
    alarm_only_with=["iter_order(", "entries("],
    items=items,
)
