"""U-SOLVELOOP: typer::unify::Typer::solve — the work-list loops (the concrete-receiver block of the Overloaded case as the stub U-OVERLOAD verifies) — C03."""
import re
from vlib.gen import Unit, Fn, Adt, Raw
from vlib.rsitems import mask, match_delim

U = "crates/compiler/src/typer/unify.rs"


def _block_after(text, header_re):
    m = mask(text)
    mt = re.search(header_re, m)
    if not mt:
        return None
    b = m.index("{", mt.end() - 1) if m[mt.end() - 1] != "{" else mt.end() - 1
    return mt, b, match_delim(m, b)


def drop_nested(mt):
    """the nested helper `fn is_concrete(..) {..}` is removed from the verified text (stub is_concrete of the shim: which types count as concrete is U-CONCRETE's subject)"""
    text = mt.group(0)
    # proof-hint choice only: is there a report of the leftovers inside the round loop?  (when only the one after the loop exists the weaker loop invariant is the right one)
    SHAPE["in_loop_report"] = bool(re.search(r"if !changed && !constraints\.is_empty\(\) \{\s*diagnostics\.push\(", text)) or not re.search(r"\}\s*if !constraints\.is_empty\(\) \{\s*diagnostics\.push\(", text)
    r = _block_after(text, r"\bfn is_concrete\([^)]*\)\s*->\s*bool\s*\{")
    if not r:
        return text
    m0, b, e = r
    return text[:m0.start()] + text[e + 1:]


def stub_concrete(mt):
    """the block of the arm `ty if is_concrete(ty) => {..}` is replaced by ONE call of the stub overload_concrete (the block itself is verified by U-OVERLOAD)"""
    text = mt.group(0)
    r = _block_after(text, r"\bty if is_concrete\(ty\) =>\s*\{")
    if not r:
        return text
    m0, b, e = r
    return text[:b + 1] + " self.overload_concrete(genv, diagnostics, &mut still_pending, &mut changed, &op, &trait_name, self_ty); " + text[e:]


INNER = ("invariant self.uni.ucount() >= __ru, diagnostics@.len() >= __rd, constraints@.len() == 0,\n"
         "  settled(__ru, __rd, self.uni.ucount(), diagnostics@.len() as nat, still_pending@.len() as nat) >= __rm - __iv0@.len(),\n decreases __iv0@.len(),")
SHAPE = {"in_loop_report": True}
OUTER = ("invariant self.uni.ucount() >= old(self).uni.ucount(), diagnostics@.len() >= old(diagnostics)@.len(),\n"
         "  settled(old(self).uni.ucount(), old(diagnostics)@.len() as nat, self.uni.ucount(), diagnostics@.len() as nat, constraints@.len() as nat) >= old(self).constraints@.len(),\n"
         "  REPORTED")
REPORTED = "!changed && constraints@.len() > 0 ==> diagnostics@.len() > old(diagnostics)@.len(),"


def loops(k, header, kw):
    if re.search(r"while\s+__iv0\.len\(\)\s*>\s*0", header):
        return INNER
    if re.search(r"while\s+changed\b", header):
        return OUTER.replace("REPORTED", REPORTED if SHAPE["in_loop_report"] else "")
    return None


UNIT = Unit(
    name="U-SOLVELOOP",
    properties=["C03"],
    rules=["attrs", "fmtmsg", ("strip", "tast::"), ("strip", "super::util::"), "mem_take", "let_chain_rev", "for_into_iter"],
    describe="typer::unify::Typer::solve, the work list: every recorded constraint is answered — by an equation unify accepted, by a diagnostic, or by a constraint left "
             "pending for the next round (a deferred overload, a field access whose receiver is not known yet, the equation an overload was resolved to); a round that makes no "
             "progress and the end of solving report whatever is left. So a program accepted without a diagnostic had EVERY recorded constraint unified: none is dropped on the floor",
    trusted=["unify (false => diagnostic: U-TUNIFY), instantiate_struct_field_ty (None => diagnostic: consequence of U-FIELDINST's contract), norm, decompose_struct_type, "
             "resolve_type_name, the struct table lookup are stubs; the block of the arm `ty if is_concrete(ty)` is ONE call of the stub overload_concrete whose accounting clause "
             "U-OVERLOAD proves against that block; the nested fn is_concrete is dropped (stub); `constraints.drain(..)` is vec_take + a front-to-back loop; `ucount` is ghost "
             "bookkeeping (+1 per accepted top-level equation); termination of `while changed` is not claimed"],
    items=[
        Adt(file="crates/compiler/src/tast.rs", kw="enum", name="Ty", rules=["attrs"]),
        Adt(file="crates/compiler/src/tast.rs", kw="struct", name="TastIdent", rules=["attrs"]),
        Adt(file="crates/compiler/src/env.rs", kw="enum", name="Constraint", rules=["attrs", ("strip", "tast::")]),
        Raw(path="contracts/parser.shim.rs"),
        Raw(path="contracts/solveloop.shim.rs"),
        Fn(file=U, name="solve", container="Typer", attrs="#[verifier::loop_isolation(false)]\n#[verifier::exec_allows_no_decreases_clause]",
           pre_rewrites=[(re.compile(r"(?s)\A.*\Z"), drop_nested, 1), (re.compile(r"(?s)\A.*\Z"), stub_concrete, 1),
                         (re.compile(r"for (\w+) in constraints\.drain\(\.\.\) \{"), r"let __drained = vec_take(&mut constraints);\nfor \1 in __drained.into_iter() {", 1),
                         (re.compile(r"\b(\w+)\.first\(\)"), r"vec_first(&\1)", "*"),
                         (re.compile(r"\bconstraints\.extend\(still_pending\);"), "vec_extend(&mut constraints, still_pending);", 1)],
           rewrites=[("let mut __iv0 = __drained;", "let mut __iv0 = __drained; let ghost __ru = self.uni.ucount(); let ghost __rd = diagnostics@.len(); let ghost __rm = __iv0@.len();", 1)],
           obligation="every recorded constraint is unified, reported or left over; leftovers are reported",
           contract="ensures final(diagnostics)@.len() >= old(diagnostics)@.len(), final(self).uni.ucount() >= old(self).uni.ucount(),\n"
                    "  settled(old(self).uni.ucount(), old(diagnostics)@.len() as nat, final(self).uni.ucount(), final(diagnostics)@.len() as nat, final(self).constraints@.len() as nat) >= old(self).constraints@.len(),\n"
                    "  final(self).constraints@.len() > 0 ==> final(diagnostics)@.len() > old(diagnostics)@.len(),",
           loop_fn=loops),
    ],
)
