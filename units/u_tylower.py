"""U-TYLOWER: ast::lower::lower_ty, the TupleTy and FuncTy arms (fragments) — C11: a type is read as written."""
import re
from vlib.gen import Unit, Fn, Adt, Raw

LW = "crates/ast/src/lower.rs"
A = "crates/ast/src/ast.rs"
SYN = "crates/parser/src/syntax.rs"
CHAIN = (re.compile(r"\b(\w+(?:\s*\.\s*\w+\(\)\??)*)\s*\.types\(\)\s*\.flat_map\(\|ty\| lower_ty\(ctx, ty\)\)\s*\.collect\(\)"), r"lower_ty_list(ctx, &\1)", "*")

UNIT = Unit(
    name="U-TYLOWER",
    properties=["C11"],
    rules=["attrs", ("strip", "cst::"), ("strip", "ast::")],
    describe="ast::lower::lower_ty, arms TupleTy and FuncTy (fragments): a parenthesised type list lowers to the tuple type of exactly the written element types, in "
             "order — one element included, so `((A, B)) -> C` stays a function of ONE pair; a function type's parameter list is the components of a parameter written "
             "as a tuple, else the single parameter type, and its result the type right of the arrow",
    trusted=["FRAGMENTS: the two arms only; the recursive call lower_ty is a stub (an uninterpreted function of the node); `list.types().flat_map(|ty| lower_ty(ctx, ty)).collect()` "
             "is the stub lower_ty_list (the lowered elements in order, failed ones left out); CST nodes are opaque; `vec![x]` is the stub vec_one"],
    items=[
        Adt(file=A, kw="enum", name="TypeExpr", rules=["attrs"]),
        Adt(file=SYN, kw="enum", name="MySyntaxKind", rules=["attrs"]),
        Raw(path="contracts/tylower.shim.rs"),
        Fn(file=LW, name="lower_ty", rename="lower_tuple_ty", ret="r",
           cut_from="cst::Type::TupleTy(it) => {", cut_inside=True, cut_before="@block-end", cut_tail="",
           sig="fn lower_tuple_ty(ctx: &mut LowerCtx, it: TupleTyNode) -> Option<TypeExpr>",
           pre_rewrites=[CHAIN],
           obligation="(T1, .., Tn) lowers to TTuple of the lowered elements, in order, for every n",
           contract="ensures tuple_ty_ok(it, r),"),
        Fn(file=LW, name="lower_ty", rename="lower_func_ty", ret="r",
           cut_from="cst::Type::FuncTy(it) => {", cut_inside=True, cut_before="@block-end", cut_tail="",
           sig="fn lower_func_ty(ctx: &mut LowerCtx, it: FuncTyNode) -> Option<TypeExpr>",
           pre_rewrites=[CHAIN],
           rewrites=[(re.compile(r"let Some\((\w+)\) = types\.next\(\) else \{"), r"let \1 = match types.next() { Some(__n) => __n, None => {", "*"),
                     (re.compile(r"(\"Function type missing (?:parameter|return) type\",\s*\);\s*return None;\s*)\};"), r"\1} };", "*"),
                     (re.compile(r"\bvec!\[(\w+)\]"), r"vec_one(\1)", "*")],
           obligation="P -> R lowers to TFunc with P's components (P written as a tuple) or P itself as parameters, and R as result",
           contract="ensures func_ty_ok(it, r),"),
    ],
)
