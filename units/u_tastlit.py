"""U-TASTLIT: the integer-literal arms of typer::tast_builder::{build_pat, build_expr} (fragments) and its two parse helpers.
The typer's own typed AST is discarded; THIS code rebuilds the literal from the HIR and the solved types, so it has to agree with
what the typer accepted (U-INTLIT)."""
import re
from vlib.gen import Unit, Fn, Adt, Raw

B = "crates/compiler/src/typer/tast_builder.rs"
WHERE = re.compile(r"\s*where\s+T:\s*std::str::FromStr<Err = std::num::ParseIntError>,\s*")
UNWRAP = (re.compile(r"results\.pat_ty\(pat_id\)\.cloned\(\)\.unwrap_or\(((?:Ty::)?\w+(?:::\w+)*)\)"), r"ty_unwrap_or(results.pat_ty_cloned(pat_id), \1)", "*")
TAIL = "        _ => { proof { assume(false); } unreached() }\n    }"

UNIT = Unit(
    name="U-TASTLIT",
    properties=["C10"],
    rules=["attrs", ("strip", "tast::")],
    describe="typer::tast_builder, integer literals (fragments of build_pat; parse_signed / parse_unsigned): the literal pattern that reaches the "
             "typed AST has the Prim variant OF THE PATTERN'S TYPE holding the text parsed at that type's width — an unsuffixed pattern `5` "
             "matched against an int64 scrutinee is an int64 literal, as the typer decided (check_pat_int), not an int32 one",
    trusted=["FRAGMENT: only the integer-literal arms of build_pat (from `hir::Pat::PInt` up to `hir::Pat::PString`), wrapped into a function over the "
             "pattern; TypeckResults::pat_ty is a stub (`results.pat_ty(id).cloned().unwrap_or(d)` is rewritten to two shims with the std meaning)",
             "for a SUFFIXED literal pattern the recorded type is assumed to be the suffix's type or absent (the typer adds that equation: "
             "check_pat_typed_int) — precondition of the fragment",
             "`s.parse().ok()` is a shim whose result is an uninterpreted function of the text (std: Ok only for a decimal literal of that value)"],
    items=[
        Adt(file="crates/compiler/src/tast.rs", kw="enum", name="Ty", rules=["attrs"]),
        Adt(file="crates/compiler/src/common.rs", kw="enum", name="Prim", rules=["attrs"]),
        Raw(path="contracts/intlit.shim.rs"),
        Adt(file="crates/compiler/src/tast.rs", kw="struct", name="TastIdent", rules=["attrs"]),
        Adt(file="crates/compiler/src/tast.rs", kw="enum", name="Pat", rules=["attrs"]),
        Raw(text="pub mod hir {\nuse vstd::prelude::*;\nuse super::*;\n"),
        Adt(file="crates/compiler/src/hir.rs", kw="enum", name="Pat", rules=["attrs"]),
        Raw(text="}\n"),
        Raw(path="contracts/tastlit.shim.rs"),
        Raw(text="#[verifier::external_body] pub fn unreached<T>() -> (r: T) requires false { unimplemented!() }\n"),
        Fn(file=B, name="parse_signed", ret="r", rewrites=[(WHERE, "\n", 1), ("s.parse().ok()", "parse_ok::<T>(s)")],
           obligation="the text parsed at width T", contract="ensures r == parsed::<T>(s@),"),
        Fn(file=B, name="parse_unsigned", ret="r", rewrites=[(WHERE, "\n", 1), ("s.parse().ok()", "parse_ok::<T>(s)"), ("s.starts_with('-')", "str_starts_with_char(s, '-')")],
           obligation="a text starting with `-` is not an unsigned literal; otherwise the text parsed at width T",
           contract="ensures r == (if unsigned_text(s@) { parsed::<T>(s@) } else { None }),"),
        # the helper introduced by fix cfc650b (absent on older trees: then the item is skipped)
        Fn(file=B, name="int_literal_prim", ret="r", optional=True,
           obligation="the literal AT integer type ty: that type's Prim variant holding the text parsed at that type's width (int32 for a non-integer type)",
           contract="ensures is_int_ty(*ty) ==> lit_at(r, value@, *ty),\n            !is_int_ty(*ty) ==> lit_at(r, value@, Ty::TInt32),"),
        Fn(file=B, name="build_pat", rename="build_int_pat", ret="r",
           cut_from=re.compile(r"hir::Pat::PInt \{ value \} =>"), cut_before="hir::Pat::PString { value } =>", cut_tail=TAIL,
           sig="fn build_int_pat(results: &TypeckResults, pat_id: PatId, e: hir::Pat) -> Pat {\n    match e",
           rewrites=[UNWRAP, (re.compile(r"let ty = results\.pat_ty\(pat_id\)\.cloned\(\)\.unwrap_or\("), "let ty = results.pat_ty_cloned(pat_id).unwrap_or_ty(", "*")],
           obligation="an integer literal pattern becomes PPrim whose Prim is the literal AT the pattern's type (variant and parse width of that type)",
           contract="""requires int_pat_text(e) is Some,
            pat_decl(e) matches Some(t) ==> (results.pat_ty_spec(pat_id) is None || results.pat_ty_spec(pat_id) == Some(t)),
        ensures r matches Pat::PPrim { value, ty } && (is_int_ty(ty) ==> lit_at(value, pat_text(e), ty)),"""),
    ],
)
